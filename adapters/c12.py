"""C12 -- answers leaving a route carry the request's identity and a correct error flag.

Specification: Answer.Decorate / SentOk (spec/Answer.tla) with Types.Family for the error-flag rule.
 V: TLC enumerates abstract (answer, request) pairs -- every Result-Code constant of the library plus
    family boundaries x {Result-Code only, Experimental-Result only, both} x request Session-Id
    {absent, lengths of every residue} x boundary header identifiers -- proves SentOk(Decorate(a, r))
    on the model and emits the expected sent answer; the harness builds real request/answer objects
    from every typed command class (rotating), calls decorate_answer, and -- through the real
    Bromelia.callback_route with an in-process worker -- the message placed on the send queue.
 T: random pairs recorded from the real code, validated by TLC against Decorate/SentOk.
"""
import importlib
import json
import random

from engine import vectors, tlc
from engine.report import guard
from . import dictx, wirex, c09

T = tlc.tla

GEN = r"""
B4 == {<<0,0,0,0>>, <<127,255,255,255>>, <<255,255,255,255>>}
SidOfLen(n) == [i \in 1..n |-> 96 + i]
Modes == {"rc", "exp", "both"}
A(rc, mode, ef, hs) == [app |-> <<9,9,9,9>>, hbh |-> <<8,8,8,8>>, e2e |-> <<7,7,7,7>>, eflag |-> ef,
                hasSid |-> hs, sid |-> IF hs THEN <<120, 59, 49, 59, 50>> ELSE <<>>,
                hasRc |-> mode \in {"rc", "both"}, rc |-> rc, hasExp |-> mode \in {"exp", "both"}]
R(x, n) == [app |-> x, hbh |-> x, e2e |-> <<x[4], x[3], x[2], 1>>, hasSid |-> n > 0, sid |-> SidOfLen(n)]
\* the handler's answer as typed classes build it (own Session-Id, E flag clear), and the other three shapes for a third of the codes
Plain == {[a |-> A(rc, mode, FALSE, TRUE), r |-> R(x, n)] : rc \in Rcs, mode \in Modes, x \in B4, n \in SIDLENS}
Odd == {[a |-> A(rc, mode, ef, hs), r |-> R(x, n)] : rc \in {w \in Rcs : w[4] % 3 = 0}, mode \in Modes, x \in {<<127,255,255,255>>}, n \in {0, 3},
        ef \in BOOLEAN, hs \in BOOLEAN}
Pairs == Plain \cup Odd
Vecs == SetToSeq({[a |-> p.a, r |-> p.r, out |-> Decorate(p.a, p.r)] : p \in Pairs})
"""


def result_codes():
    words = set()
    for mod in ("bromelia.constants.result_codes", "bromelia.constants.experimental_result_codes"):
        try:
            m = importlib.import_module(mod)
        except BaseException:
            continue
        for k, v in vars(m).items():
            if k.startswith("DIAMETER_") and isinstance(v, bytes) and len(v) == 4:
                words.add(v)
    for x in range(0, 7):
        for y in (0, 1, 7, 8, 9, 10, 100, 101, 181, 999):
            words.add((x * 1000 + y).to_bytes(4, "big"))
    words |= {b"\xff\xff\xff\xff", b"\x80\x00\x00\x00", (65535).to_bytes(4, "big"), (13001).to_bytes(4, "big")}
    return sorted(words)


def pairs_of_classes():
    """(request class info, answer class info) for every typed command with both sides"""
    infos = [c09.info(c) for c in dictx.command_classes()]
    out = []
    for a in infos:
        if a["request"] or not a["in_ref"]:
            continue
        r = next((x for x in infos if x["lib"] == a["lib"] and x["base"] == a["base"] and x["request"]), None)
        if r:
            out.append((r, a))
    return out


def build_pair(rq, an, v, byname, rng):
    """real (request, answer) for abstract vector v using typed classes rq/an"""
    from bromelia.avps import (SessionIdAVP, ResultCodeAVP, ExperimentalResultAVP, VendorIdAVP, ExperimentalResultCodeAVP)
    a, r = v["a"], v["r"]
    req_needed = {p["name"] for p in rq["params"] if p["kind"] == "mand" and not p["hasdefault"]}
    out, req, _c, _e, _k = c09.instantiate(rq, req_needed, 0, byname, rng)
    if out != "ok":
        raise RuntimeError(f"cannot build request {rq['key']}: {req}")
    req.header.application_id = bytes(r["app"])
    req.header.hop_by_hop = bytes(r["hbh"])
    req.header.end_to_end = bytes(r["e2e"])
    has_sid_avp = req.has_avp("session_id_avp")
    if r["hasSid"]:
        if has_sid_avp:
            req.session_id_avp.data = bytes(r["sid"])
            req.refresh()
        else:
            req.append(SessionIdAVP(bytes(r["sid"])))
    elif has_sid_avp:
        req.pop("session_id_avp")
    an_needed = {p["name"] for p in an["params"] if p["kind"] == "mand" and not p["hasdefault"]}
    out, ans, _c, _e, _k = c09.instantiate(an, an_needed, 0, byname, rng)
    if out != "ok":
        raise RuntimeError(f"cannot build answer {an['key']}: {ans}")
    if ans.header.application_id is None:
        ans.header.application_id = 16777236
    # Session-Id of the answer as the handler left it
    if not a.get("hasSid", True):
        if ans.has_avp("session_id_avp"):
            ans.pop("session_id_avp")
    elif ans.has_avp("session_id_avp"):
        ans.session_id_avp.data = bytes(a["sid"])
        ans.refresh()
    elif r["hasSid"]:
        ans.append(SessionIdAVP(bytes(a["sid"])))
    # Result-Code / Experimental-Result
    if ans.has_avp("result_code_avp"):
        ans.pop("result_code_avp")
    if ans.has_avp("experimental_result_avp"):
        ans.pop("experimental_result_avp")
    if a["hasRc"]:
        ans.append(ResultCodeAVP(bytes(a["rc"])))
    if a["hasExp"]:
        ans.append(ExperimentalResultAVP([VendorIdAVP(10415), ExperimentalResultCodeAVP(bytes(a["rc"]))]))
    ans.refresh()
    if a.get("eflag") and not ans.header.is_error():
        ans.header.set_error_bit(True)            # the handler has set the E flag itself
    # the request as peers send it: P set or cleared, possibly a retransmission (T); the answer as handlers build it: the typed
    # object itself or a copy() of a prepared template
    how = rng.randrange(6)
    req.header.flags = bytes([(0x80, 0xC0, 0x80, 0xC0, 0x90, 0xD0)[how]])
    if how in (2, 3) and hasattr(ans, "copy"):
        ans = ans.copy()
    return req, ans


def project_sent(msg):
    from bromelia.avps import SessionIdAVP, ResultCodeAVP, ExperimentalResultAVP
    sid = [x for x in msg.avps if isinstance(x, SessionIdAVP)]
    rc = [x for x in msg.avps if isinstance(x, ResultCodeAVP)]
    ex = [x for x in msg.avps if isinstance(x, ExperimentalResultAVP)]
    raw = msg.dump()
    return {"app": list(msg.header.application_id), "hbh": list(msg.header.hop_by_hop), "e2e": list(msg.header.end_to_end),
            "eflag": bool(msg.header.is_error()), "hasSid": bool(sid), "sid": list(sid[0].data) if sid else [],
            "hasRc": bool(rc), "rc": list(rc[0].data) if rc else [], "hasExp": bool(ex),
            "nsid": len(sid), "nrc": len(rc), "lenfield": msg.header.get_length(), "size": len(raw),
            "named_rc": msg.has_avp("result_code_avp")}


def compare(rep, v, sent, what, replay):
    exp = v["out"]
    bad = []
    for k in ("app", "hbh", "e2e"):
        if sent[k] != exp[k]:
            bad.append(f"{k} {bytes(sent[k]).hex()} (request: {bytes(exp[k]).hex()})")
    if v["r"]["hasSid"] and (not sent["hasSid"] or sent["sid"] != exp["sid"] or sent["nsid"] != 1):
        bad.append(f"Session-Id {bytes(sent['sid'])!r} (request: {bytes(exp['sid'])!r})")
    if sent["hasRc"] != exp["hasRc"]:
        bad.append(f"Result-Code {'present' if sent['hasRc'] else 'absent'}, specification {'present' if exp['hasRc'] else 'absent'}")
    if sent["hasRc"] and sent["rc"] != v["a"]["rc"]:
        bad.append(f"Result-Code value changed to {bytes(sent['rc']).hex()}")
    if sent["hasExp"] != exp["hasExp"]:
        bad.append("Experimental-Result lost or added")
    if sent["hasRc"] and sent["hasExp"]:
        bad.append("Result-Code sent alongside an Experimental-Result")
    if sent["hasRc"] and sent["eflag"] != exp["eflag"]:
        bad.append(f"error flag {sent['eflag']} with Result-Code {int.from_bytes(bytes(sent['rc']), 'big')}")
    if sent["lenfield"] != sent["size"] or sent["size"] % 4:
        bad.append(f"Message Length {sent['lenfield']} but {sent['size']} bytes")
    if sent["named_rc"] != sent["hasRc"]:
        bad.append("named view and AVP list disagree about the Result-Code")
    for b in bad:
        rep.violation(f"{what}: {b}", replay)
    return not bad


def _decorate_job(which):
    def job():
        from bromelia.bromelia import decorate_answer
        from bromelia.base import DiameterRequest, DiameterAnswer
        from bromelia.avps import SessionIdAVP, ResultCodeAVP, OriginHostAVP, ExperimentalResultAVP, VendorIdAVP, ExperimentalResultCodeAVP
        out = []
        cases = [(2001, False, b"s;1;1", 0x11), (5012, False, b"s;2;2", 0x22), (3004, True, b"s;3;3", 0x33), (4001, False, None, 0x44)]
        if which == "b":
            cases = [(5003, False, b"t;9;9", 0x55), (2002, True, b"t;8;8", 0x66), (1001, False, None, 0x77), (5012, False, b"t;7;7", 0x88)]
        for rc, exp, sid, x in cases:
            req = DiameterRequest(command_code=316, application_id=16777251)
            req.header.hop_by_hop, req.header.end_to_end = bytes([x] * 4), bytes([x, 0, 0, x])
            if sid:
                req.append(SessionIdAVP(sid))
            ans = DiameterAnswer(command_code=316, application_id=4)
            ans.extend(([SessionIdAVP(b"own;0;0")] if sid else []) + [ResultCodeAVP(rc), OriginHostAVP("h.example")])
            if exp:
                ans.append(ExperimentalResultAVP([VendorIdAVP(10415), ExperimentalResultCodeAVP(rc)]))
            sent = decorate_answer(ans, req)
            out.append(project_sent(sent))
        return out
    return job


def purity(rep):
    from engine import concur
    pairs = [("two answers decorated at the same time", _decorate_job("a"), _decorate_job("b"))]
    return concur.purity_stage(rep, "decorate_answer", pairs, ("/bromelia/bromelia.py", "/bromelia/utils.py", "/bromelia/_internal_utils.py"), kmax=1200,
                               stride=17 if rep.tier == "quick" else 1)


def run(rep):
    purity(rep)
    byname = dictx.by_name()
    from bromelia.bromelia import decorate_answer
    rcs = result_codes()
    pairs = pairs_of_classes()
    rep.notes["result_codes"] = len(rcs)
    rep.notes["class_pairs"] = len(pairs)
    sidlens = "{0, 1, 2, 3, 4}" if rep.tier == "quick" else "{0, 1, 2, 3, 4, 5, 6, 7, 8}"
    rep.rule = ("V: every Result-Code constant of the library + family boundaries x {rc, exp, both} x 3 identifier patterns x request "
                "Session-Id absent / every length residue, applied to every typed request/answer class pair in rotation, through "
                "decorate_answer and through callback_route; T: random pairs validated by TLC. distinct = (vector, class pair)")
    defs = "Rcs == {" + ", ".join(T(list(w)) for w in rcs) + "}\n" + GEN.replace("SIDLENS", sidlens)
    vecs, res = vectors.gen("Gen_Decorate", ["Answer"], defs, "Vecs",
                            theorems=["\\A p \\in Pairs : ThmDecorate(p.a, p.r)"], java_opts=("-Xmx4g",))
    rep.tlc("Gen_Decorate", res)
    rng = random.Random(rep.seed * 7919 + 12)
    from . import c13
    router = c13.Router(byname)
    reps = 1 if rep.tier == "quick" else 4
    for i, v in enumerate(vecs):
        for j in range(reps):
            rq, an = pairs[(i * reps + j) % len(pairs)]
            replay = {"kind": "pair", "request": rq["key"], "answer": an["key"], "a": v["a"], "r": v["r"]}
            rep.case((i, an["key"]))
            try:
                with guard(20, "decorate"):
                    req, ans = build_pair(rq, an, v, byname, rng)
                    sent = project_sent(decorate_answer(ans, req))
            except BaseException as e:
                rep.violation(f"decorate_answer({an['key']}, {rq['key']}) raised {type(e).__name__}: {e} for Result-Code "
                              f"{int.from_bytes(bytes(v['a']['rc']), 'big')} mode rc={v['a']['hasRc']} exp={v['a']['hasExp']}", replay)
                continue
            compare(rep, v, sent, f"decorate_answer({an['key']}) rc={int.from_bytes(bytes(v['a']['rc']), 'big')}", replay)
            # the same through the real dispatcher: what is placed on the worker's send queue
            if (i + j) % 3 == 0:
                # the dispatcher only serves the applications of its workers
                served = list(c13.app_bytes(("a1", "a2")[i % 2]))
                v = {"a": v["a"], "r": dict(v["r"], app=served), "out": dict(v["out"], app=served)}
                try:
                    with guard(20, "callback_route"):
                        req, ans = build_pair(rq, an, v, byname, rng)
                        queued = router.route_once(req, lambda request, ans=ans: ans)
                    if len(queued) != 1:
                        rep.violation(f"callback_route placed {len(queued)} messages on the send queue for one request ({an['key']})", replay)
                    else:
                        compare(rep, v, project_sent(queued[0]), f"callback_route -> send queue ({an['key']}) rc={int.from_bytes(bytes(v['a']['rc']), 'big')}", replay)
                except BaseException as e:
                    rep.violation(f"callback_route with a handler returning {an['key']} raised {type(e).__name__}: {e}", replay)
        if len(rep.violations) >= 40:
            break
    rep.notes["vectors"] = len(vecs)
    rep.sample({"vector": vecs[len(vecs) // 2]})

    # ---- T
    n = 800 if rep.tier == "quick" else 30000
    recs, meta = [], []
    for i in range(n):
        rq, an = pairs[i % len(pairs)]
        x = list(rng.getrandbits(32).to_bytes(4, "big"))
        k = rng.choice([0, 0, 1, 2, 3, 4, 5, 9, 17])
        rcw = list(rng.choice([rng.choice(rcs), rng.randrange(0, 7000).to_bytes(4, "big"), rng.getrandbits(32).to_bytes(4, "big")]))
        mode = rng.choice(["rc", "rc", "exp", "both"])
        a = {"app": [9, 9, 9, 9], "hbh": [8, 8, 8, 8], "e2e": [7, 7, 7, 7], "eflag": False, "hasSid": True, "sid": list(b"x;1;2"),
             "hasRc": mode in ("rc", "both"), "rc": rcw, "hasExp": mode in ("exp", "both")}
        r = {"app": x, "hbh": list(rng.getrandbits(32).to_bytes(4, "big")), "e2e": list(rng.getrandbits(32).to_bytes(4, "big")),
             "hasSid": k > 0, "sid": [rng.randrange(33, 127) for _ in range(k)]}
        v = {"a": a, "r": r}
        try:
            req, ans = build_pair(rq, an, v, byname, rng)
            s = project_sent(decorate_answer(ans, req))
            clean = s["lenfield"] == s["size"] and s["nsid"] <= 1 and s["nrc"] <= 1
        except BaseException as e:
            s = {"app": [], "hbh": [], "e2e": [], "eflag": False, "hasSid": False, "sid": [], "hasRc": False, "rc": [], "hasExp": False}
            clean = False
        if not r["hasSid"]:
            s = dict(s, hasSid=True, sid=a["sid"]) if s["hasSid"] is False and False else s
        recs.append({"a": a, "r": r, "clean": clean,
                     "s": {k2: s[k2] for k2 in ("app", "hbh", "e2e", "eflag", "hasSid", "sid", "hasRc", "rc", "hasExp")}})
        meta.append({"kind": "pair", "request": rq["key"], "answer": an["key"], "a": a, "r": r})
        rep.case(("T", i))
    ok_expr = "r.clean /\\ SentOk([r.s EXCEPT !.rc = IF r.s.hasRc THEN r.s.rc ELSE r.a.rc], r.a, r.r)"
    bad, res = vectors.validate("Trace_Decorate", ["Answer"], "", recs, ok_expr, java_opts=("-Xmx4g",))
    rep.tlc("Trace_Decorate", res)
    rep.traces_validated += len(recs)
    for i in bad[:10]:
        rep.violation(f"TLC rejects the recorded decorated answer {json.dumps(recs[i]['s'])} for {meta[i]['answer']} "
                      f"(Result-Code {int.from_bytes(bytes(meta[i]['a']['rc']), 'big')}, request Session-Id {bytes(meta[i]['r']['sid'])!r})", meta[i])
    rep.sample({"trace_record": recs[0]})
    rep.assumptions += ["when the sent answer carries no Result-Code (Experimental-Result only) the error flag is not constrained"]


def replay(rep, path):
    r = json.load(open(path))["replay"]
    if r.get("kind") == "purity":
        purity(rep)
        rep.sample(r)
        return rep.finish()
    byname = dictx.by_name()
    from bromelia.bromelia import decorate_answer
    pairs = {(a["key"]): (q, a) for q, a in pairs_of_classes()}
    rq, an = pairs[r["answer"]]
    defs = f"V == <<[a |-> {T(r['a'])}, r |-> {T(r['r'])}, out |-> Decorate({T(r['a'])}, {T(r['r'])})]>>"
    vec, res = vectors.gen("Gen_replay", ["Answer"], defs, "V")
    rep.tlc("Gen_replay", res)
    rng = random.Random(0)
    try:
        req, ans = build_pair(rq, an, vec[0], byname, rng)
        compare(rep, vec[0], project_sent(decorate_answer(ans, req)), "replay", r)
    except BaseException as e:
        rep.violation(f"decorate_answer raised {type(e).__name__}: {e}", r)
    rep.case(str(r)[:80])
    rep.sample(r)
    return rep.finish()
