"""C16 -- generated Session-Ids are unique for the life of the process and well-formed.

Specification: spec/Session.tla.  TLC model-checks the intended generator (Unique, Counted) for 2
identities, clock <= 2, <= 5 generations, shows that the historic deviation D_ResetOnSwitch violates
them, and enumerates EVERY operation sequence up to the tier's depth over {NewSession(i),
Reoriginate(p, i), Tick}; each sequence is executed on the real code under a controlled clock (three
generation routes: SessionIdAVP(str), AcctMultiSessionIdAVP(str), a typed message; bulk origin update
for Reoriginate) and the recorded history of generated ids is validated by TLC (HistoryOk; the
intended design's exact prediction is compared too and differences are recorded, not alarmed).
 T: long random histories (thousands of generations within few clock seconds).
"""
import datetime as _dt
import json
import random
import re

from engine import vectors, tlc
from engine.report import guard
from . import dictx, c09

T = tlc.tla
IDS = {"A": "hostA.example", "B": "hostB.example"}
EPOCH = _dt.datetime(1900, 1, 1, 0, 16, 40)          # clock 0 = 1000 s after 1900: numbers stay small for TLC


class Clock:
    def __init__(self):
        self.t = 0

    def install(self):
        import bromelia._internal_utils as iu
        clock = self

        class FakeDateTime(_dt.datetime):
            @classmethod
            def utcnow(cls):
                return EPOCH + _dt.timedelta(seconds=clock.t, microseconds=123456)

            @classmethod
            def now(cls, tz=None):
                return EPOCH + _dt.timedelta(seconds=clock.t)

        class FakeModule:
            datetime = FakeDateTime
            timedelta = _dt.timedelta

            def __getattr__(self, name):
                return getattr(_dt, name)
        self.saved = iu.datetime
        iu.datetime = FakeModule()

    def restart_process(self):
        """what importing bromelia does at process start, under the controlled clock"""
        from bromelia._internal_utils import SessionHandler
        self.t = 0
        SessionHandler()


def parse_sid(data, identity):
    try:
        s = data.decode("utf-8")
    except BaseException:
        return None
    m = re.fullmatch(re.escape(identity) + r";(\d+);(\d+)(;.*)?", s, re.S)
    if not m:
        return None
    return int(m.group(1)), int(m.group(2))


class Driver:
    def __init__(self, byname):
        self.byname = byname
        self.clock = Clock()
        self.clock.install()
        self.typed = next(c for c in dictx.command_classes() if c09.class_key(c) == "s6a.UpdateLocationAnswer")
        self.k = 0
        self.live = []

    def new_session(self, identity):
        from bromelia.avps import SessionIdAVP, AcctMultiSessionIdAVP
        route = self.k % 3
        self.k += 1
        if route == 0:
            return SessionIdAVP(identity).data, "SessionIdAVP(str)"
        if route == 1:
            return AcctMultiSessionIdAVP(identity).data, "AcctMultiSessionIdAVP(str)"
        msg = self.typed(session_id=identity)
        self.live.append(msg)
        return msg.session_id_avp.data, "typed message"

    def reoriginate(self, prev, identity):
        """bulk origin update of a message whose Session-Id belongs to identity `prev`: preferably a live message
        whose Session-Id this process generated earlier (so chains A -> B -> A on one message occur), else a
        message carrying a Session-Id received from elsewhere"""
        from bromelia.base import DiameterMessage
        from bromelia.avps import SessionIdAVP, OriginHostAVP, OriginRealmAVP
        live = [m for m in self.live if m.session_id_avp.data.startswith(prev.encode() + b";")]
        if live and self.k % 4 != 3:
            msg = live[-1] if self.k % 2 else live[0]
        else:
            msg = DiameterMessage(avps=[SessionIdAVP(f"{prev};5;5;x".encode()), OriginHostAVP(prev), OriginRealmAVP("example")])
            self.live.append(msg)
        self.k += 1
        msg.update_avps({"origin_host": identity})
        if msg.origin_host_avp.data != identity.encode():
            raise RuntimeError("origin host not updated")
        return msg.session_id_avp.data, "update_avps(origin_host)"

    def run(self, ops):
        """ops: list of ('new', i) / ('re', p, i) / ('tick',); returns gens records + problems"""
        self.clock.restart_process()
        self.live = []
        gens, problems = [], []
        for op in ops:
            if op[0] == "tick":
                self.clock.t += 1
                continue
            try:
                with guard(10, "generate"):
                    if op[0] == "new":
                        ident = IDS[op[1]]
                        data, route = self.new_session(ident)
                    else:
                        ident = IDS[op[2]]
                        data, route = self.reoriginate(IDS[op[1]], ident)
            except BaseException as e:
                problems.append(f"{op}: raised {type(e).__name__}: {e}")
                gens.append({"identity": op[-1], "out": [op[-1], -1, len(gens)], "wf": False, "raw": "", "clock": self.clock.t})
                continue
            hl = parse_sid(data, ident)
            gens.append({"identity": op[-1], "out": [op[-1], hl[0] - 1000 if hl else -1, hl[1] if hl else len(gens)], "wf": hl is not None,
                         "raw": data.decode("utf-8", "replace"), "clock": self.clock.t, "route": route})
        return gens, problems


def supplied_bytes_unchanged(rep):
    from bromelia.avps import SessionIdAVP, AcctMultiSessionIdAVP
    for cls in (SessionIdAVP, AcctMultiSessionIdAVP):
        for raw in (b"peer.example;1;2", b"x", b"no-semicolons", b"a;b;c;d;e", bytes(range(1, 40)), "hé;1;2".encode()):
            rep.case((cls.__name__, raw))
            try:
                got = cls(raw).data
            except BaseException as e:
                got = f"raised {type(e).__name__}"
            if got != raw:
                rep.violation(f"{cls.__name__}({raw!r}).data = {got!r}: a Session-Id supplied as bytes is not carried unchanged",
                              {"kind": "supply", "cls": cls.__name__, "raw": raw.hex()})


def concurrent(rep):
    """Session-Ids generated from two threads at the same time (spec/SessionConc.tla), one preemption at every bytecode of
    bromelia/_internal_utils.py, each execution in a child forked from the untouched process; then threads that generate one
    after the other.  Every id of the process must be distinct and well-formed."""
    from engine import concur
    for use, expect in (("TRUE", None), ("FALSE", "UniqueConc")):
        cfg = f"SPECIFICATION Spec\nCONSTANTS Threads = {{1, 2}}\n PerThread = 2\n UseLock = {use}\nINVARIANT UniqueConc\nCHECK_DEADLOCK FALSE\n"
        res, _ = tlc.run("SessionConc", cfg, workers=2, timeout=300)
        if expect is None:
            tlc.must_ok(res, "SessionConc")
            rep.tlc("SessionConc (2 threads x 2 generations, locked)", res)
        elif res.violated != expect:
            raise tlc.TlcError("vacuity self-test: the unlocked counter does not violate UniqueConc")
    rep.notes["unlocked_counter_violates"] = "UniqueConc"
    # unbounded part (Apalache): IndInv is inductive for arbitrary counter values and any number of generations per thread
    from engine import apalache
    steps = [("IndInit", "IndInv", 1, "NoError")]
    if rep.tier == "thorough":
        steps += [("Init", "IndInv", 0, "NoError"), ("IndInit", "UniqueConc", 0, "NoError"), ("IndInit", "NeverReads", 0, "Error")]
    for init, inv, length, want in steps:
        got, secs = apalache.check("Apa_SessionConc", init, inv, length)
        if got != want:
            raise tlc.TlcError(f"Apalache: Apa_SessionConc --init={init} --inv={inv} --length={length}: {got} (expected {want})")
        rep.notes.setdefault("apalache", []).append({"init": init, "inv": inv, "length": length, "outcome": got, "wall_s": round(secs, 1)})

    def gen_job(route, ident):
        def job():
            from bromelia.avps import SessionIdAVP, AcctMultiSessionIdAVP
            out = []
            for i in range(3):
                if route == "avp":
                    out.append(SessionIdAVP(ident).data.decode())
                elif route == "acct":
                    out.append(AcctMultiSessionIdAVP(ident).data.decode())
                else:
                    from bromelia.lib.etsi_3gpp_s6a import AIR
                    m = AIR(session_id=ident, origin_host=ident, origin_realm="example", destination_realm="example", user_name="1",
                            visited_plmn_id=b"\x00\x01\x02")
                    out.append(m.session_id_avp.data.decode())
            return out
        return job

    def judge(ra, rb):
        if ra[0] != "ok" or rb[0] != "ok":
            return f"generation raised: {ra} / {rb}"
        ids = eval(ra[1]) + eval(rb[1])
        if len(set(ids)) != len(ids):
            dup = sorted({x for x in ids if ids.count(x) > 1})
            return f"the same Session-Id was generated twice in one process: {dup[:2]} (all: {ids})"
        for x in ids:
            parts = x.split(";")
            if len(parts) < 3 or not parts[1].isdigit() or not parts[2].isdigit():
                return f"malformed Session-Id {x!r}"
        return None
    pairs = [("two threads creating Session-Id AVPs for the same identity", gen_job("avp", "host.example"), gen_job("avp", "host.example")),
             ("Session-Id and Acct-Multi-Session-Id AVPs for two identities", gen_job("avp", "a.example"), gen_job("acct", "b.example"))]
    if rep.tier == "thorough":
        pairs.append(("typed S6a requests and Session-Id AVPs", gen_job("typed", "mme.example"), gen_job("avp", "mme.example")))
    n, problems = concur.purity_sweep(pairs, ("/bromelia/_internal_utils.py",), kmax=250, judge=judge)
    rep.case(("concurrent",), n)
    rep.notes["concurrent_executions"] = n
    for desc, k, text in problems:
        rep.violation(f"{desc} (the first stopped after {k} source lines of the generator): {text}", {"kind": "concurrent", "k": k, "desc": desc})


def run(rep):
    concurrent(rep)
    depth = 5 if rep.tier == "quick" else 6
    rep.rule = (f"TLC: generator model (2 identities, clock <= 2, <= 5 generations), all operation sequences of length {depth} over 7 operations "
                "executed on the real code under a controlled clock via 3 generation routes + bulk origin update; recorded histories validated "
                "by TLC; T: long random histories. distinct = distinct operation sequences")
    cfg = ('SPECIFICATION Spec\nCONSTANTS Identities = {"A", "B"}\n MaxClock = 2\n MaxGen = 5\n Deviations = {}\n'
           "INVARIANT Counted\nPROPERTY Unique\nCHECK_DEADLOCK FALSE\n")
    res, _ = tlc.run("Session", cfg, workers=8, timeout=900)
    tlc.must_ok(res, "Session")
    rep.tlc("Session", res)
    r2, _ = tlc.run("Session", cfg.replace("Deviations = {}", 'Deviations = {"D_ResetOnSwitch"}'), workers=4, timeout=900)
    if not r2.violated:
        raise tlc.TlcError("vacuity self-test: D_ResetOnSwitch does not violate Unique/Counted")
    rep.notes["deviation_D_ResetOnSwitch_violates"] = r2.violated

    defs = f"""
Ops == {{<<"new", i>> : i \\in {{"A", "B"}}}} \\cup {{<<"re", p, i>> : p \\in {{"A", "B"}}, i \\in {{"A", "B"}}}} \\cup {{<<"tick">>}}
Seqs == [1..{depth} -> Ops]
Vecs == SetToSeq(Seqs)
"""
    seqs, res = vectors.gen("Gen_Session", ["Naturals", "Sequences", "FiniteSets", "SequencesExt"], defs, "Vecs", java_opts=("-Xmx6g",), timeout=1200)
    rep.tlc("Gen_Session", res)
    drv = Driver(dictx.by_name())
    supplied_bytes_unchanged(rep)
    recs, meta = [], []
    for ops in seqs:
        ops = [tuple(o) for o in ops]
        if sum(1 for o in ops if o[0] != "tick") < 2:
            continue
        gens, problems = drv.run(ops)
        rep.case(json.dumps(ops))
        recs.append({"gens": [{"identity": g["identity"], "out": g["out"], "wf": g["wf"]} for g in gens], "clean": not problems})
        meta.append({"kind": "history", "ops": ops, "ids": [g["raw"] for g in gens], "problems": problems})
    ok_expr = "r.clean /\\ HistoryOk(r.gens)"
    inst = ('Identities == {"A", "B"}\nMaxClock == 2\nMaxGen == 5\nDeviations == {}\n'
            "INSTANCE Session WITH clock <- 0, high <- 0, low <- 0, issued <- {}, last <- <<>>, ngen <- 0\n")
    bad, res = vectors.validate("Trace_Session", ["Naturals", "Sequences", "FiniteSets", "SequencesExt"], inst, recs, ok_expr, java_opts=("-Xmx6g",), timeout=1500)
    rep.tlc("Trace_Session", res)
    rep.traces_validated += len(recs)
    for i in bad[:12]:
        rep.violation(f"TLC rejects the recorded history of generated Session-Ids {meta[i]['ids']} for operations {meta[i]['ops']} {meta[i]['problems']}",
                      {"kind": "history", "ops": meta[i]["ops"]})
    # the intended design's exact prediction (difference alone is not a violation)
    pbad, res = vectors.validate("Trace_SessionTight", ["Naturals", "Sequences", "FiniteSets", "SequencesExt"], inst, recs,
                                 "[k \\in 1..Len(r.gens) |-> r.gens[k].out] = Predicted(r.gens, 0)", java_opts=("-Xmx6g",), timeout=1500)
    rep.tlc("Trace_SessionTight", res)
    rep.nonprop_differences += len(pbad)
    rep.notes["histories_differing_from_the_intended_counter_design"] = len(pbad)
    rep.sample({"history": meta[len(meta) // 2]})
    rep.exhaustive = True
    supplied_bytes(rep)

    # ---- T: long random histories
    rng = random.Random(rep.seed * 7919 + 16)
    recs, meta = [], []
    for t in range(6 if rep.tier == "quick" else 60):
        n = 1500
        ops = []
        for _ in range(n):
            r = rng.random()
            if r < 0.02:
                ops.append(("tick",))
            elif r < 0.6:
                ops.append(("new", rng.choice("AB")))
            else:
                ops.append(("re", rng.choice("AB"), rng.choice("AB")))
        gens, problems = drv.run(ops)
        recs.append({"gens": [{"identity": g["identity"], "out": g["out"], "wf": g["wf"]} for g in gens], "clean": not problems})
        meta.append({"kind": "random-history", "seed": rep.seed, "index": t, "problems": problems[:3],
                     "dups": [g["raw"] for i, g in enumerate(gens) if g["raw"] in {x["raw"] for x in gens[:i]}][:3]})
        rep.case(("T", t))
    # one history with more generations than 16 bits can count (cheap route only)
    from bromelia.avps import SessionIdAVP
    drv.clock.restart_process()
    gens = []
    nlong = 70000 if rep.tier == "quick" else 300000
    for i in range(nlong):
        ident = "AB"[(i * 7 + i // 3) % 2]
        if i % 20000 == 19999:
            drv.clock.t += 1
        hl = parse_sid(SessionIdAVP(IDS[ident]).data, IDS[ident])
        gens.append({"identity": ident, "out": [ident, hl[0] - 1000 if hl else -1, hl[1] if hl else i], "wf": hl is not None})
    recs.append({"gens": gens, "clean": True})
    seen, dups = set(), []
    for g in gens:
        if tuple(g["out"]) in seen and len(dups) < 3:
            dups.append(g["out"])
        seen.add(tuple(g["out"]))
    meta.append({"kind": "long-history", "generations": nlong, "problems": [], "dups": dups})
    rep.case(("T", "long"))
    bad, res = vectors.validate("Trace_SessionLong", ["Naturals", "Sequences", "FiniteSets", "SequencesExt"], inst, recs, ok_expr, java_opts=("-Xmx6g",), timeout=1500)
    rep.tlc("Trace_SessionLong", res)
    rep.traces_validated += len(recs)
    for i in bad[:5]:
        rep.violation(f"TLC rejects a random history of {len(recs[i]['gens'])} generations: duplicates {meta[i]['dups']} {meta[i]['problems']}", meta[i])
    rep.assumptions += ["the process clock is bromelia._internal_utils.datetime.utcnow(), substituted by a controlled clock; clock 0 is 1000 s after 1900-01-01",
                        "uniqueness is checked within one process lifetime (the counter restarts with the process)"]


def replay(rep, path):
    r = json.load(open(path))["replay"]
    if r.get("kind") == "concurrent":
        concurrent(rep)
        rep.sample(r)
        return rep.finish()
    drv = Driver(dictx.by_name())
    if r["kind"] == "supplied":
        supplied_bytes(rep)
        rep.case(str(r)[:80])
        rep.states, rep.transitions = 1, 1
        rep.sample(r)
        return rep.finish()
    if r["kind"] == "history":
        gens, problems = drv.run([tuple(o) for o in r["ops"]])
        ids = [g["raw"] for g in gens]
        if len(set(ids)) != len(ids) or not all(g["wf"] for g in gens) or problems:
            rep.violation(f"generated Session-Ids {ids} {problems}", r)
    else:
        supplied_bytes_unchanged(rep)
    rep.case(str(r)[:80])
    rep.states, rep.transitions = 1, 1
    rep.sample(r)
    return rep.finish()



def supplied_bytes(rep):
    """a Session-Id supplied as bytes is carried unchanged: through the AVP constructor, a typed message, item assignment and a bulk
    update - alone, or together with a new origin (in either key order)"""
    from bromelia.base import DiameterMessage
    from bromelia.avps import SessionIdAVP, OriginHostAVP, OriginRealmAVP
    given = [b"other.example;1;2", b"x", b"no-semicolon-at-all", b"a.b;4294967295;4294967295;opt;more", "é;1;2".encode()]
    for g in given:
        rep.case(("supplied", g))
        try:
            if SessionIdAVP(g).data != g:
                rep.violation(f"SessionIdAVP({g!r}) carries {SessionIdAVP(g).data!r}", {"kind": "supplied", "bytes": list(g)})
            for keys in (("session_id",), ("session_id", "origin_host"), ("origin_host", "session_id"), ("origin_realm", "session_id", "origin_host")):
                msg = DiameterMessage(avps=[SessionIdAVP(b"first.example;7;7"), OriginHostAVP("first.example"), OriginRealmAVP("example")])
                upd = {k: {"session_id": g, "origin_host": "second.example", "origin_realm": "realm2"}[k] for k in keys}
                msg.update_avps(upd)
                if msg.session_id_avp.data != g:
                    rep.violation(f"update_avps with keys {list(keys)}: the Session-Id supplied as bytes {g!r} is not carried, the message has "
                                  f"{msg.session_id_avp.data!r}", {"kind": "supplied", "bytes": list(g), "keys": list(keys)})
                if "origin_host" in keys and msg.origin_host_avp.data != b"second.example":
                    rep.violation(f"update_avps with keys {list(keys)}: Origin-Host not updated", {"kind": "supplied", "bytes": list(g), "keys": list(keys)})
        except BaseException as e:
            rep.violation(f"a Session-Id supplied as bytes ({g!r}) raised {type(e).__name__}: {e}", {"kind": "supplied", "bytes": list(g)})
