"""C14 -- a waiting sender gets its own answer, matched by Hop-by-Hop id, and always wakes.

Specification: spec/Pending.tla (caller / dispatcher / two-event rendezvous, one action per block between
observable operations).  TLC checks OwnAnswer, NoLostWake, deadlock freedom and <>AllReturn for 2..3
concurrent callers with answers arriving at any point after the request is queued (optionally repeated by
the peer); the pinned tree's order (queue, then register) is kept as RegisterFirst = FALSE and shown to lose
the wake-up.
The real Bromelia.send_message / handler_pending_answers / PendingAnswer run in threads under the
deterministic scheduler with a real Worker on scheduler-controlled primitives; a consumer thread plays the
worker's send handler and starts one dispatcher thread per answer.  Monitors: every caller returns the answer
with its own Hop-by-Hop id, nobody gets an answer twice, no deadlock.  Every execution is recorded at the
observable operations and validated by TLC as a behaviour of Pending (trace validation).
"""
import json
import os
import random
import re

from engine import tlc, tlaval
from . import c13

T = tlc.tla

TRACE_MODULE = r"""---- MODULE Trace_Pending ----
EXTENDS Pending, Json, TLCExt, IOUtils, Sequences
Traces == JsonDeserialize(TRACEFILE)
VARIABLES tid, l
TraceInit == tid = 1 /\ l = 0 /\ Init
D(e) == <<e.c, e.k>>
Act(e) == CASE e.a = "enq" -> Enq(e.c) [] e.a = "reg" -> Reg(e.c) [] e.a = "wake" -> Wake(e.c)
            [] e.a = "clear" -> Clear(e.c) [] e.a = "setstop" -> SetStop(e.c)
            [] e.a = "return" -> (Return(e.c) /\ got'[e.c] = e.v)
            [] e.a = "arrive" -> Arrive(D(e))
            [] e.a = "check" -> (Check(D(e)) /\ (dpc'[D(e)] # "dropped") = e.found)
            [] e.a = "notify" -> Notify(D(e)) [] e.a = "waitstop" -> WaitStop(D(e)) [] e.a = "pop" -> Pop(D(e))
\* the dispatcher of a repeated copy whose waiter has been unregistered by the other copy leaves the registry alone (it removes
\* the entry only while it is the waiter it found): no registry operation is observed, the model's Pop is a silent no-op there
SilentPop == \E d \in Disp : Pop(d) /\ d[1] \notin pending /\ UNCHANGED <<tid, l>>
TraceNext == \/ /\ l < Len(Traces[tid]) /\ l' = l + 1 /\ tid' = tid /\ Act(Traces[tid][l + 1])
             \/ SilentPop
             \/ /\ l = Len(Traces[tid]) /\ tid < Len(Traces) /\ tid' = tid + 1 /\ l' = 0
                /\ cpc' = [c \in Callers |-> "start"] /\ dpc' = [d \in Disp |-> "idle"] /\ queued' = {} /\ pending' = {}
                /\ recvEv' = [c \in Callers |-> FALSE] /\ stopEv' = [c \in Callers |-> FALSE]
                /\ pmsg' = [c \in Callers |-> 0] /\ got' = [c \in Callers |-> 0]
TraceSpec == TraceInit /\ [][TraceNext]_<<vars, tid, l>>
ASSUME TLCSet(1, <<0, 0>>)
Later(a, b) == a[1] > b[1] \/ (a[1] = b[1] /\ a[2] > b[2])
Progress == IF Later(<<tid, l>>, TLCGet(1)) THEN TLCSet(1, <<tid, l>>) ELSE TRUE
Accepted == PrintT(<<"PROGRESS", TLCGet(1), Len(Traces), Len(Traces[Len(Traces)])>>)
====
"""


class SchedManager:
    def Event(self):
        from engine import vsched
        return vsched.VEvent()

    def Queue(self):
        from engine import vsched
        return vsched.VQueue()

    def Lock(self):
        from engine import vsched
        return vsched.VLock()


class AppProxy:
    """stands for the worker's Diameter object: everything is delegated to the real (never started) object except the
    transmission itself, which hands the message to the harness (the peer answers)"""
    def __init__(self, real, on_send):
        self.__dict__["_real"], self.__dict__["_on_send"] = real, on_send

    def __getattr__(self, name):
        return getattr(self.__dict__["_real"], name)

    def send_message(self, msg, *a, **k):
        self.__dict__["_on_send"](msg)

    def send_messages(self, msgs):
        for m in msgs:
            self.__dict__["_on_send"](m)


class TracedDict(dict):
    """Worker.pending_answers with its operations observable and preemptible"""
    log = None

    def _y(self, what, write=True):
        from engine import vsched
        if vsched.SCHED is not None and vsched.SCHED.cur is not None:
            vsched.SCHED.yield_op(("op", None, what), write=write)

    def keys(self):
        return self

    def __contains__(self, k):
        self._y("lookup", False)
        r = dict.__contains__(self, k)
        TracedDict.log("check", k, r)
        return r

    def update(self, *a, **kw):
        self._y("register")
        dict.update(self, *a, **kw)
        for k in dict(*a, **kw):
            TracedDict.log("reg", k, True)

    def __setitem__(self, k, v):
        self._y("register")
        dict.__setitem__(self, k, v)
        TracedDict.log("reg", k, True)

    def __getitem__(self, k):
        self._y("get", False)
        return dict.__getitem__(self, k)

    def get(self, k, *d):
        self._y("get", False)
        return dict.get(self, k, *d)

    def pop(self, k, *d):
        self._y("pop")
        r = dict.pop(self, k, *d)
        TracedDict.log("pop", k, True)
        return r


def run_once(seed, K, dup, router_cls=c13.Router):
    """one scheduled execution; returns (events, results, outcome text, dead threads)"""
    from engine import vsched
    import bromelia.bromelia as bb
    s = vsched.new_sched(seed, max_steps=40000)
    if seed % 2:
        # half of the executions: every source line of the rendezvous code is a preemption point
        s.line_funcs = {"handler_pending_answers", "send_message", "wait", "notify", "update_msg", "is_pending_answer",
                        "get_pending_answer", "insert_pending_answer", "remove_pending_answer", "set_outgoing_message"}
        s.line_budget = 3000
    events = []
    cur = {}                       # VThread id -> ("caller", c) / ("disp", c, k)
    hb = {}                        # hop-by-hop bytes -> caller index

    def me():
        return cur.get(id(s.cur), ("?", 0, 0))

    # PendingAnswer with observable events
    Base = bb.__dict__.get("_VerifOrigPendingAnswer") or bb.PendingAnswer
    bb._VerifOrigPendingAnswer = Base

    class TracedPending(Base):
        def __init__(self, msg):
            Base.__init__(self, msg)
            c = hb.get(msg.header.hop_by_hop, 0)
            for name, ev in (("recv", self.recv_event), ("stop", self.stop_event)):
                oset, oclear, owait = ev.set, ev.clear, ev.wait

                def set_(_o=oset, name=name, c=c):
                    r = _o()
                    who = me()
                    events.append({"a": "notify" if name == "recv" else "setstop", "c": c, "k": who[2] if who[0] == "disp" else 1, "found": False, "v": 0})
                    return r

                def clear_(_o=oclear, name=name, c=c):
                    r = _o()
                    if name == "recv":
                        events.append({"a": "clear", "c": c, "k": 1, "found": False, "v": 0})
                    return r

                def wait_(timeout=None, _o=owait, name=name, c=c):
                    r = _o(timeout)
                    who = me()
                    events.append({"a": "wake" if name == "recv" else "waitstop", "c": c, "k": who[2] if who[0] == "disp" else 1, "found": False, "v": 0})
                    return r
                ev.set, ev.clear, ev.wait = set_, clear_, wait_
    bb.PendingAnswer = TracedPending
    try:
        router = router_cls.__new__(router_cls)
        c13.InProcessManager, saved_mgr = SchedManager, c13.InProcessManager
        try:
            router.__init__()
        finally:
            c13.InProcessManager = saved_mgr
        app = router.app
        worker = router.workers[c13.app_bytes("a1")]

        def dlog(a, key, found):
            who = me()
            c = hb.get(key, 0)
            if a == "reg":
                events.append({"a": "reg", "c": c, "k": 1, "found": False, "v": 0})
            else:
                events.append({"a": a, "c": c, "k": who[2] if who[0] == "disp" else 1, "found": bool(found), "v": 0})
        TracedDict.log = dlog
        worker.pending_answers = TracedDict()
        oput = worker.send_queue.put

        def put(x, *a, _o=oput, **kw):
            r = _o(x, *a, **kw)
            events.append({"a": "enq", "c": hb.get(x.header.hop_by_hop, 0), "k": 1, "found": False, "v": 0})
            return r
        worker.send_queue.put = put
        rng = random.Random(seed)
        reqs = [c13.make_request("a1", "c1", k, rng) for k in range(1, K + 1)]
        for k, r in enumerate(reqs, 1):
            hb[r.header.hop_by_hop] = k
        results, delivered = {}, []

        def caller(k):
            ans = app.send_message(reqs[k - 1])
            v = hb.get(ans.header.hop_by_hop, -1) if ans is not None and not ans.header.is_request() else -1
            results[k] = v
            events.append({"a": "return", "c": k, "k": 1, "found": False, "v": v})

        def dispatcher(k, copy):
            from bromelia.base import DiameterAnswer
            from bromelia.avps import ResultCodeAVP
            ans = DiameterAnswer(header=reqs[k - 1].header, avps=[ResultCodeAVP(2001)])
            shape = (seed // 7 + k) % 4
            if shape in (1, 2):
                # answers as peers really send them: an Experimental-Result and no Result-Code (3GPP application errors), or neither;
                # decoded from their bytes
                from bromelia.base import DiameterMessage
                from bromelia.avps import ExperimentalResultAVP, ExperimentalResultCodeAVP, VendorIdAVP, OriginHostAVP
                body = [ExperimentalResultAVP([VendorIdAVP(10415), ExperimentalResultCodeAVP(5001)])] if shape == 1 else [OriginHostAVP("peer.example")]
                ans = DiameterMessage.load(DiameterAnswer(header=reqs[k - 1].header, avps=body).dump())[0]
            elif (seed + k) % 3 == 0:
                # the match is by Hop-by-Hop: an answer that does not echo the End-to-End still belongs to the caller
                import copy as _copy
                ans = DiameterAnswer(header=_copy.deepcopy(reqs[k - 1].header), avps=[ResultCodeAVP(2001)])
                ans.header.end_to_end = bytes(4) if (seed + k) % 2 else bytes([0xEE, 0xEE, 0, k])
            events.append({"a": "arrive", "c": k, "k": copy, "found": False, "v": 0})
            app.handler_pending_answers(ans)

        def on_send(msg):
            # the worker's real send_handler has taken the message from its queue and "transmits" it: the peer answers
            k = hb.get(msg.header.hop_by_hop, 0)
            for copy in ((1, 2) if dup else (1,)):
                t = s.spawn(f"dispatcher{k}.{copy}", dispatcher, k, copy)
                cur[id(t)] = ("disp", k, copy)
        worker.app = AppProxy(worker.app, on_send)
        for k in range(1, K + 1):
            t = s.spawn(f"caller{k}", caller, k)
            cur[id(t)] = ("caller", k, 1)
        handler = s.spawn("worker_send_handler", worker.send_handler)          # the library's own loop (never returns)
        chooser = vsched.PCT(seed, depth=1 + seed % 3, horizon=250) if seed % 3 else None
        try:
            out = s.run(until=lambda: all(t.done for t in s.threads if t is not handler), chooser=chooser)
        except vsched.Deadlock as e:
            out = "deadlock: " + str(e)
        except (vsched.StepLimit, vsched.StepHang) as e:
            out = type(e).__name__ + ": " + str(e)
        dead = [(t.name, f"{type(t.exc).__name__}: {t.exc}") for t in s.threads if t.exc is not None]
        return events, results, out, dead
    finally:
        bb.PendingAnswer = Base
        TracedDict.log = None


def run(rep):
    from engine import vsched
    vsched.install(rep.seed)
    # which order does the tree implement?  (decides which variant traces are validated against; the
    # property itself is judged by the monitors and by TLC on the design)
    rep.rule = ("TLC: rendezvous model for 2 (with duplicate answers) and 3 callers: OwnAnswer, NoLostWake, deadlock freedom, <>AllReturn; "
                "300/6000 scheduled executions of the real send_message / handler_pending_answers with 2..3 callers, each validated by TLC. "
                "distinct = executions")
    for k, dup in ((2, "TRUE"), (3, "FALSE")) if rep.tier == "quick" else ((2, "TRUE"), (3, "TRUE")):
        cfg = f"SPECIFICATION Spec\nCONSTANTS K = {k}\n RegisterFirst = TRUE\n Duplicates = {dup}\n PopFirst = TRUE\nINVARIANT OwnAnswer\nINVARIANT NoLostWake\nPROPERTY AllReturn\n"
        res, _ = tlc.run("Pending", cfg, workers=8, timeout=2400, deadlock=True)
        tlc.must_ok(res, f"Pending K={k}")
        rep.tlc(f"Pending K={k} dup={dup}", res)
    cfg = "SPECIFICATION Spec\nCONSTANTS K = 2\n RegisterFirst = FALSE\n Duplicates = FALSE\n PopFirst = TRUE\nINVARIANT NoLostWake\n"
    r2, _ = tlc.run("Pending", cfg, workers=4, timeout=600, deadlock=True)
    if r2.violated != "NoLostWake":
        raise tlc.TlcError("vacuity self-test: queue-then-register does not violate NoLostWake")
    rep.notes["queue_then_register_violates"] = "NoLostWake"
    # retransmission of the same request object (spec/Resend.tla): unregister-then-wake is safe, wake-then-unregister loses the second wake-up
    for pf, dp, ident, atomic, expect in (("TRUE", "FALSE", "TRUE", "TRUE", None), ("TRUE", "TRUE", "TRUE", "TRUE", None), ("FALSE", "FALSE", "FALSE", "TRUE", "NoLostWake"),
                                          ("TRUE", "TRUE", "FALSE", "TRUE", "NoLostWake"), ("TRUE", "TRUE", "TRUE", "FALSE", "NoLostWake")):
        r3, _ = tlc.run("Resend", f"SPECIFICATION Spec\nCONSTANTS PopFirst = {pf}\n Dup = {dp}\n PopByIdentity = {ident}\n AtomicPop = {atomic}\nINVARIANT NoLostWake\nPROPERTY BothReturn\n",
                        workers=2, timeout=600, deadlock=True)
        if expect is None:
            tlc.must_ok(r3, "Resend")
            rep.tlc(f"Resend PopFirst={pf} Dup={dp} PopByIdentity={ident} AtomicPop={atomic}", r3)
        elif r3.violated != expect:
            raise tlc.TlcError(f"vacuity self-test: Resend.tla with PopFirst={pf} Dup={dp} PopByIdentity={ident} AtomicPop={atomic} does not violate {expect} (got {r3.violated})")
    rep.notes["wake_then_unregister_violates"] = "NoLostWake (Resend.tla)"
    rep.notes["unregister_by_key_with_a_repeated_answer_violates"] = "NoLostWake (Resend.tla)"
    rng = random.Random(rep.seed * 7919 + 14)
    nruns = 300 if rep.tier == "quick" else 6000
    traces, metas = [], []
    for i in range(nruns):
        K = 2 if i % 3 else 3
        dup = (i % 4 == 0) and K == 2
        seed = rng.getrandbits(30)
        events, results, out, dead = run_once(seed, K, dup)
        rep.case(("run", i))
        replay = {"kind": "run", "seed": seed, "K": K, "dup": dup}
        dead_callers = [d for d in dead if d[0].startswith("caller")]
        if dead and not dead_callers and out == "until":
            # a dispatcher thread of a repeated answer died (e.g. KeyError between the registry test and fetch): the statement
            # constrains what callers receive, not the fate of the thread handling a redundant answer
            rep.nonprop_differences += 1
            rep.notes.setdefault("dispatcher_threads_that_died", []).append(str(dead[0])) if len(rep.notes.get("dispatcher_threads_that_died", [])) < 3 else None
        if out != "until" or dead_callers:
            rep.violation(f"{K} callers{' (answers repeated)' if dup else ''}: {out} {dead}; callers returned {results}", replay)
        elif any(results.get(k) != k for k in range(1, K + 1)):
            rep.violation(f"{K} callers: returned answers {results} (caller k must get the answer with its own Hop-by-Hop id)", replay)
        else:
            traces.append(events)
            metas.append(replay)
        if len(rep.violations) >= 10:
            break
    rep.notes["runs"] = nruns
    nres = 100 if rep.tier == "quick" else 2000
    for i in range(nres):
        seed = rng.getrandbits(30)
        verdict, out = run_resend(seed, dup=bool(i % 2))
        rep.case(("resend", i))
        if verdict:
            rep.violation(verdict, {"kind": "resend", "seed": seed, "dup": bool(i % 2)})
            break
    rep.notes["retransmission_runs"] = nres
    # the dispatcher of a repeated answer held back at each of its source lines while the caller retransmits
    for hold in (False, True):
        for k in range(0, 45):
            verdict, out = run_resend(7 + k, dup=True, victim_steps=k, hold_second=hold)
            rep.case(("resend-sweep", k, hold))
            if verdict:
                rep.violation(f"the dispatcher of the repeated answer stopped after {k} steps{' and resumed before the retransmission was answered' if hold else ''}: " + verdict,
                              {"kind": "resend", "seed": 7 + k, "dup": True, "victim_steps": k, "hold_second": hold})
                break
    for i in range(40 if rep.tier == "quick" else 800):
        seed = rng.getrandbits(30)
        verdict = run_two_interfaces(seed)
        rep.case(("two-interfaces", i))
        if verdict:
            rep.violation(verdict, {"kind": "two-interfaces", "seed": seed})
            break
    # route functions that wait for answers of their own (spec/Nested.tla): no limit on the message threads of the main loop
    for lim, expect in ((8, None), (3, "NoDeadlock")):
        rn, _ = tlc.run("Nested", f"SPECIFICATION Spec\nCONSTANTS N = {4 if rep.tier == 'thorough' else 3}\n Limit = {lim}\nINVARIANT NoDeadlock\nPROPERTY AllAnswered\n",
                        workers=4, timeout=900)
        if expect is None:
            tlc.must_ok(rn, "Nested")
            rep.tlc("Nested (no thread limit)", rn)
        elif rn.violated not in (expect, "AllAnswered", "temporal"):
            raise tlc.TlcError(f"vacuity self-test: Nested.tla with a limit of {lim} message threads does not deadlock (got {rn.violated})")
    rep.notes["bounded_message_threads_violate"] = "NoDeadlock (Nested.tla)"
    for j in range(3 if rep.tier == "quick" else 40):
        ev = []
        seed = rng.getrandbits(30)
        verdict = run_many_nested(seed, 3, events=ev)
        rep.case(("nested-trace", j))
        if verdict:
            rep.violation(verdict, {"kind": "many-nested", "seed": seed, "n": 3})
            break
        validate_nested(rep, ev, 3)
    for n in ((90,) if rep.tier == "quick" else (45, 90, 130)):
        seed = rng.getrandbits(30)
        verdict = run_many_nested(seed, n)
        rep.case(("many-nested", n))
        if verdict:
            rep.violation(verdict, {"kind": "many-nested", "seed": seed, "n": n})
            break
    for i in range(30 if rep.tier == "quick" else 600):
        seed = rng.getrandbits(30)
        verdict = run_late_duplicate(seed)
        rep.case(("late-duplicate", i))
        if verdict:
            rep.violation(verdict, {"kind": "late-duplicate", "seed": seed})
            break
    if traces:
        rep.sample({"trace_prefix": traces[0][:10]})
        validate(rep, traces, metas)
    # the whole stack of one interface: real node, Worker loops, Bromelia.main, per-message threads (spec/Stack.tla)
    if len(rep.violations) < 10:
        from . import stack
        stack.stage(rep, 60 if rep.tier == "quick" else 1500, focus="callers")
    rep.assumptions += ["answers arrive only for requests that the worker's send handler has taken from the send queue",
                        "the worker's connection is not started: a consumer thread of the harness plays Worker.send_handler"]


def validate(rep, traces, metas):
    for K, dup in ((2, False), (2, True), (3, False)):
        sel = [(t, m) for t, m in zip(traces, metas) if m["K"] == K and m["dup"] == dup]
        if not sel:
            continue
        wd = tlc.workdir("Trace_Pending")
        try:
            tf = os.path.join(wd, "traces.json")
            json.dump([reorder(t) for t, _m in sel], open(tf, "w"))
            cfg = (f"SPECIFICATION TraceSpec\nCONSTANTS K = {K}\n RegisterFirst = TRUE\n Duplicates = {'TRUE' if dup else 'FALSE'}\n PopFirst = TRUE\n"
                   "INVARIANT OwnAnswer\nINVARIANT NoLostWake\nCONSTRAINT Progress\nPOSTCONDITION Accepted\nCHECK_DEADLOCK FALSE\n")
            res, _ = tlc.run("Trace_Pending", cfg, extra_modules={"Trace_Pending": TRACE_MODULE.replace("TRACEFILE", T(tf))}, wd=wd, workers=1, timeout=1500)
            rep.tlc(f"Trace_Pending K={K} dup={dup}", res)
            if res.violated in ("OwnAnswer", "NoLostWake"):
                rep.violation(f"TLC: invariant {res.violated} is false in a state matched by a recorded execution", sel[0][1])
                continue
            m = re.search(r'<<\s*"PROGRESS"', res.out)
            if not m:
                tlc.must_ok(res, "Trace_Pending")
            val, _ = tlaval.parse_at(res.out, m.start())
            (t, l), nt, nl = val[1], val[2], val[3]
            rep.traces_validated += t if (t, l) == (nt, nl) else t - 1
            if (t, l) != (nt, nl):
                rep.nonprop_differences += 1
                tr = reorder(sel[t - 1][0])
                rep.notes.setdefault("unexplained_divergences", []).append({"trace": t, "event": l + 1, "next_event": tr[l] if l < len(tr) else None,
                                                                             "replay": sel[t - 1][1]})
        finally:
            tlc.cleanup(wd)


def reorder(events):
    return events


def replay(rep, path):
    r = json.load(open(path))["replay"]
    from engine import vsched
    vsched.install(0)
    if r.get("kind") == "stack":
        from . import stack
        return stack.replay(rep, r)
    if r.get("kind") in ("two-interfaces", "late-duplicate", "many-nested"):
        verdict = run_two_interfaces(r["seed"]) if r["kind"] == "two-interfaces" else run_late_duplicate(r["seed"]) if r["kind"] == "late-duplicate" \
            else run_many_nested(r["seed"], r["n"])
        if verdict:
            rep.violation(verdict, r)
        rep.case(str(r))
        rep.states, rep.transitions = 1, 1
        rep.sample(r)
        return rep.finish()
    if r.get("kind") == "resend":
        verdict, out = run_resend(r["seed"], dup=r.get("dup", False), victim_steps=r.get("victim_steps"), hold_second=r.get("hold_second", False))
        if verdict:
            rep.violation(verdict, r)
        rep.case(str(r))
        rep.states, rep.transitions = 1, 1
        rep.sample(r)
        return rep.finish()
    events, results, out, dead = run_once(r["seed"], r["K"], r["dup"])
    if out != "until" or dead or any(results.get(k) != k for k in range(1, r["K"] + 1)):
        rep.violation(f"{r['K']} callers: {out} {dead}; callers returned {results}", r)
    rep.case(str(r))
    rep.states, rep.transitions = 1, 1
    rep.sample(r)
    return rep.finish()


def run_resend(seed, router_cls=c13.Router, dup=False, victim_steps=None, hold_second=False):
    """A retransmission: one caller sends the same request object twice, one after the other; every transmission is answered
    by the peer; both calls must return their answer.  (The second registration uses the same Hop-by-Hop key as the first.)"""
    from engine import vsched
    import bromelia.bromelia as bb
    s = vsched.new_sched(seed, max_steps=40000)
    s.line_funcs = {"handler_pending_answers", "send_message", "wait", "notify", "update_msg", "is_pending_answer",
                    "get_pending_answer", "insert_pending_answer", "remove_pending_answer", "set_outgoing_message"}
    s.line_budget = 3000
    router = router_cls.__new__(router_cls)
    c13.InProcessManager, saved_mgr = SchedManager, c13.InProcessManager
    try:
        router.__init__()
    finally:
        c13.InProcessManager = saved_mgr
    app = router.app
    worker = router.workers[c13.app_bytes("a1")]
    rng = random.Random(seed)
    req = c13.make_request("a1", "c1", 1, rng)
    other = c13.make_request("a1", "c1", 2, rng)
    results = []

    def caller():
        for _ in range(2):
            ans = app.send_message(req)
            results.append(ans is not None and not ans.header.is_request() and ans.header.hop_by_hop == req.header.hop_by_hop)

    def caller2():
        ans = app.send_message(other)
        results.append(ans is not None and ans.header.hop_by_hop == other.header.hop_by_hop)

    def dispatcher(r):
        from bromelia.base import DiameterAnswer
        from bromelia.avps import ResultCodeAVP
        app.handler_pending_answers(DiameterAnswer(header=r.header, avps=[ResultCodeAVP(2001)]))

    nsent = [0]

    held = []          # dispatchers of the retransmission's answer (kept back in the two-preemption sweep)
    nreq = [0]

    def on_send(msg):
        nsent[0] += 1
        t = s.spawn(f"dispatcher{nsent[0]}", dispatcher, msg)
        if msg is req:
            nreq[0] += 1
            if nreq[0] >= 2:
                held.append(t)
        if dup and msg is req and nsent[0] <= 2 and not getattr(on_send, "repeated", False):
            on_send.repeated = True                      # the peer repeats its first answer
            s.spawn(f"dispatcher{nsent[0]}-repeated", dispatcher, msg)
    worker.app = AppProxy(worker.app, on_send)
    s.spawn("caller1", caller)
    s.spawn("caller2", caller2)
    handler = s.spawn("worker_send_handler", worker.send_handler)
    chooser = vsched.PCT(seed, depth=1 + seed % 3, horizon=250) if seed % 3 else None
    try:
        if victim_steps is not None:
            # one-preemption sweep: the dispatcher of the repeated answer runs `victim_steps` line-level steps and is then held
            # back while everybody else goes on (the caller is woken by the other copy, returns and sends the same request again)
            s.max_steps = 12000
            s.run(until=lambda: any(t.name.endswith("-repeated") for t in s.threads))
            vic = [t for t in s.threads if t.name.endswith("-repeated")][0]
            n = 0
            while n < victim_steps and not vic.done and s.enabled(vic) == "go":
                s.step(vic)
                n += 1
            g = 0
            while g < 4000:
                go = [t for t in s.threads if t is not vic and t is not handler and s.enabled(t) == "go" and not s.is_idle(t)
                      and not (hold_second and t in held)]
                hgo = s.enabled(handler) == "go" and not s.is_idle(handler)
                if not go and not hgo:
                    break
                s.step(go[0] if go else handler)
                g += 1
                if nsent[0] >= 3 and not go:
                    break
            if hold_second:
                # second preemption: the answer to the retransmission is there but not handled yet; the held dispatcher finishes first
                g = 0
                while not vic.done and s.enabled(vic) == "go" and g < 4000:
                    s.step(vic)
                    g += 1
        out = s.run(until=lambda: all(t.done for t in s.threads if t is not handler), chooser=chooser)
    except vsched.Deadlock as e:
        out = "deadlock: " + str(e)
    except (vsched.StepLimit, vsched.StepHang) as e:
        out = type(e).__name__ + ": " + str(e)
    dead = [(t.name, f"{type(t.exc).__name__}: {t.exc}") for t in s.threads if t.exc is not None]
    ok = len(results) == 3 and all(results) and not (isinstance(out, str) and out.startswith(("deadlock", "Step")))
    s.kill_all()
    return (None if ok else f"retransmission{' (the first answer repeated by the peer)' if dup else ''}: {sum(1 for r in results if r)} of 3 calls returned their answer ({out}); threads ended by exception: {dead}"), out



def run_late_duplicate(seed, router_cls=c13.Router):
    """Two interfaces, one after the other: a request on the first is sent and answered; then a request with the SAME Hop-by-Hop is
    outstanding on the second (identifiers are unique per connection only) when the peer of the first interface repeats its answer.
    The repeated answer belongs to nobody and must be dropped; the second caller gets the answer of its own interface."""
    from engine import vsched
    import copy as _copy
    from bromelia.base import DiameterAnswer
    from bromelia.avps import ResultCodeAVP
    s = vsched.new_sched(seed, max_steps=40000)
    router = router_cls.__new__(router_cls)
    c13.InProcessManager, saved_mgr = SchedManager, c13.InProcessManager
    try:
        router.__init__()
    finally:
        c13.InProcessManager = saved_mgr
    app = router.app
    rng = random.Random(seed)
    r1 = c13.make_request("a1", "c1", 1, rng)
    r2 = c13.make_request("a2", "c1", 2, rng)
    r2.header.hop_by_hop = r1.header.hop_by_hop
    results, hold = {}, {"second": False}

    def caller(k, r):
        results[k] = app.send_message(r)

    def answer_of(r, code):
        return DiameterAnswer(header=_copy.deepcopy(r.header), avps=[ResultCodeAVP(code)])

    def on_send(msg):
        if msg.header.application_id == r1.header.application_id:
            s.spawn("dispatcher1", app.handler_pending_answers, answer_of(r1, 2001))
        else:
            hold["second"] = True          # the second interface's peer answers later
    handlers = []
    for key, w in {id(w): w for w in router.workers.values()}.items():
        w.app = AppProxy(w.app, on_send)
        handlers.append(s.spawn(f"send_handler{len(handlers)}", w.send_handler))
    chooser = vsched.PCT(seed, depth=1 + seed % 3, horizon=250) if seed % 3 else None
    problems = []
    try:
        c1 = s.spawn("caller1", caller, 1, r1)
        s.run(until=lambda: c1.done, chooser=chooser)
        c2 = s.spawn("caller2", caller, 2, r2)
        s.run(until=lambda: hold["second"] and c2.pending is not None and c2.pending[0] == "wait", chooser=chooser)
        d = s.spawn("dispatcher-duplicate", app.handler_pending_answers, answer_of(r1, 2001))
        s.run(until=lambda: d.done, chooser=chooser)
        if c2.done:
            problems.append("the second caller was released by the repeated answer of the other interface")
        else:
            d2 = s.spawn("dispatcher2", app.handler_pending_answers, answer_of(r2, 2002))
            s.run(until=lambda: c2.done and d2.done, chooser=chooser)
    except vsched.Deadlock as e:
        problems.append("deadlock: " + str(e)[:200])
    except (vsched.StepLimit, vsched.StepHang) as e:
        problems.append(type(e).__name__ + ": " + str(e)[:200])
    a1, a2 = results.get(1), results.get(2)
    if a1 is None or a1.header.application_id != r1.header.application_id:
        problems.append("the first caller did not get the answer of its interface")
    if not problems and (a2 is None or a2.header.application_id != r2.header.application_id or a2.result_code_avp.data != (2002).to_bytes(4, "big")):
        problems.append(f"the second caller got {'nothing' if a2 is None else 'the answer of application ' + a2.header.application_id.hex()} instead of the answer "
                        f"that arrived on its own interface")
    s.kill_all()
    return ("a repeated answer on one interface while the same Hop-by-Hop is outstanding on another: " + "; ".join(problems)) if problems else None


TRACE_NESTED = r"""---- MODULE Trace_Nested ----
EXTENDS Nested, Json, TLCExt, IOUtils
Tr == JsonDeserialize(TRACEFILE)
VARIABLE l
ASSUME TLCSet(1, 0)
TraceInit == l = 0 /\ Init
Act(e) == CASE e.a = "take" -> (MainTake /\ (IF inQ # <<>> THEN Head(inQ) ELSE Head(inQ2)) = <<e.k, e.r>>)
            [] e.a = "reg" -> Reg(e.r) [] e.a = "send" -> Send(e.r) [] e.a = "wake" -> Wake(e.r) [] e.a = "answer" -> Answer(e.r)
            [] e.a = "backend" -> BackEnd(e.r)
            [] e.a = "check" -> (Check(e.r) /\ (dpc'[e.r] = "notify") = e.found)
            [] e.a = "notify" -> Notify(e.r)
TraceNext == l < Len(Tr) /\ l' = l + 1 /\ Act(Tr[l + 1])
TraceSpec == TraceInit /\ [][TraceNext]_<<vars, l>>
Progress == IF l > TLCGet(1) THEN TLCSet(1, l) ELSE TRUE
Accepted == PrintT(<<"PROGRESS", TLCGet(1), Len(Tr)>>)
====
"""


def validate_nested(rep, events, n):
    """TLC trace validation of one recorded execution of run_many_nested against Nested.tla (no thread limit)"""
    wd = tlc.workdir("Trace_Nested")
    try:
        tf = os.path.join(wd, "trace.json")
        json.dump(events, open(tf, "w"))
        cfg = f"SPECIFICATION TraceSpec\nCONSTANTS N = {n}\n Limit = {4 * n}\nINVARIANT NoDeadlock\nCONSTRAINT Progress\nPOSTCONDITION Accepted\nCHECK_DEADLOCK FALSE\n"
        res, _ = tlc.run("Trace_Nested", cfg, extra_modules={"Trace_Nested": TRACE_NESTED.replace("TRACEFILE", T(tf))}, wd=wd, workers=1, timeout=900)
        rep.tlc(f"Trace_Nested N={n}", res)
        m = re.search(r'<<\s*"PROGRESS"', res.out)
        if not m:
            tlc.must_ok(res, "Trace_Nested")
            raise tlc.TlcError("Trace_Nested: no progress line\n" + res.out[-1500:])
        val, _ = tlaval.parse_at(res.out, m.start())
        if val[1] == val[2]:
            rep.traces_validated += 1
        else:
            rep.nonprop_differences += 1
            rep.notes.setdefault("unexplained_divergences", []).append({"module": "Nested", "event": val[1] + 1,
                                                                        "next_event": events[val[1]] if val[1] < len(events) else None})
    finally:
        tlc.cleanup(wd)


def run_many_nested(seed, n, router_cls=c13.Router, events=None):
    """n requests arrive on one interface; each route function sends a request of its own on the other interface and waits for its
    answer; the back-end answers only when all n are in flight (a slow peer, a burst).  The library's own Bromelia.main loop reads
    the workers' queues and starts the threads.  Every nested caller must be woken with its own answer and all n requests answered -
    for a number of concurrent callers above every threshold constant of the library (40 / 50 / 80)."""
    from engine import vsched
    from bromelia.base import DiameterAnswer
    from bromelia.avps import ResultCodeAVP
    s = vsched.new_sched(seed, max_steps=400000)
    router = router_cls.__new__(router_cls)
    c13.InProcessManager, saved_mgr = SchedManager, c13.InProcessManager
    try:
        router.__init__()
    finally:
        c13.InProcessManager = saved_mgr
    app = router.app
    rng = random.Random(seed)
    w1, w2 = router.workers[c13.app_bytes("a1")], router.workers[c13.app_bytes("a2")]
    nested, front_out, got = [], [], {}

    # (requests are built beforehand: drawing identifiers takes the library's real identifiers lock around a scheduler yield point)
    subs = {k: c13.make_request("a2", "c2", 1000 + k, rng) for k in range(1, n + 1)}
    log = events.append if events is not None else (lambda e: None)
    sub_of = {subs[k].header.hop_by_hop: k for k in subs}

    def handler(request):
        k = int(request.user_name_avp.data[4:])
        sub = subs[k]
        ans = app.send_message(sub)
        log({"a": "wake", "r": k})
        got[k] = ans is not None and not ans.header.is_request() and ans.header.hop_by_hop == sub.header.hop_by_hop
        return c13.make_answer(request, rng)
    router.register(c13.app_bytes("a1"), c13.cmd_bytes("c1"), handler)

    def front(m):
        front_out.append(m)
        if not m.header.is_request():
            log({"a": "answer", "r": next((k for k, q in enumerate(reqs, 1) if q.header.hop_by_hop == m.header.hop_by_hop), 0)})

    def back(m):
        nested.append(m)
        log({"a": "send", "r": sub_of.get(m.header.hop_by_hop, 0)})
    w1.app = AppProxy(w1.app, front)
    w2.app = AppProxy(w2.app, back)
    if events is not None:
        def dlog(a, key, found):
            k = sub_of.get(key, 0)
            if a == "reg":
                log({"a": "reg", "r": k})
            elif a == "check":
                log({"a": "check", "r": k, "found": bool(found)})
            elif a == "pop":
                log({"a": "notify", "r": k})
        TracedDict.log = dlog
        w2.pending_answers = TracedDict()
        for w, kind in ((w1, "req"), (w2, "ans")):
            oget = w.recv_queue.get

            def get(*a, _o=oget, kind=kind, **kw):
                m = _o(*a, **kw)
                r = int(m.user_name_avp.data[4:]) if kind == "req" else sub_of.get(m.header.hop_by_hop, 0)
                log({"a": "take", "k": kind, "r": r})
                return m
            w.recv_queue.get = get
    lib = [s.spawn("send_handler1", w1.send_handler), s.spawn("send_handler2", w2.send_handler), s.spawn("bromelia_main", app.main)]
    reqs = [c13.make_request("a1", "c1", k, rng) for k in range(1, n + 1)]
    out = "ok"
    try:
        for r in reqs:
            w1.notify_incoming_message(r)
        s.run(until=lambda: len(nested) >= n, max_steps=300000)
        if len(nested) < n:
            out = f"only {len(nested)} of {n} route functions got as far as sending their own request"
        else:
            for sub in nested[:n]:
                log({"a": "backend", "r": sub_of.get(sub.header.hop_by_hop, 0)})
                w2.notify_incoming_message(DiameterAnswer(header=sub.header, avps=[ResultCodeAVP(2001)]))
            s.run(until=lambda: len([m for m in front_out if not m.header.is_request()]) >= n, max_steps=300000)
    except vsched.Deadlock as e:
        out = "deadlock: " + str(e)[:300]
    except (vsched.StepLimit, vsched.StepHang) as e:
        out = type(e).__name__ + ": " + str(e)[:200]
    answered = len([m for m in front_out if not m.header.is_request()])
    woken = sum(1 for v in got.values() if v)
    dead = [(t.name, f"{type(t.exc).__name__}: {t.exc}") for t in lib if t.done]
    s.kill_all()
    TracedDict.log = None
    if out != "ok" or answered != n or woken != n or dead:
        return (f"{n} route functions each waiting for the answer to a request of their own: {woken} were woken with their own answer, {answered} of the {n} "
                f"requests were answered ({out}); library loops that ended: {dead}")
    return None


def run_two_interfaces(seed, router_cls=c13.Router):
    """Two Diameter interfaces (two Worker objects) with the same Hop-by-Hop identifier outstanding on both at once (identifiers are
    unique per connection only): each caller must get the answer that arrived on ITS interface."""
    from engine import vsched
    import copy as _copy
    s = vsched.new_sched(seed, max_steps=40000)
    router = router_cls.__new__(router_cls)
    c13.InProcessManager, saved_mgr = SchedManager, c13.InProcessManager
    try:
        router.__init__()
    finally:
        c13.InProcessManager = saved_mgr
    app = router.app
    rng = random.Random(seed)
    r1 = c13.make_request("a1", "c1", 1, rng)
    r2 = c13.make_request("a2", "c1", 2, rng)
    r2.header.hop_by_hop = r1.header.hop_by_hop
    results = {}

    def caller(k, r):
        ans = app.send_message(r)
        results[k] = (ans is not None and not ans.header.is_request() and ans.header.application_id == r.header.application_id
                      and ans.header.end_to_end == r.header.end_to_end)

    def dispatcher(r):
        from bromelia.base import DiameterAnswer
        from bromelia.avps import ResultCodeAVP
        app.handler_pending_answers(DiameterAnswer(header=_copy.deepcopy(r.header), avps=[ResultCodeAVP(2001)]))
    handlers = []
    for key, w in {id(w): w for w in router.workers.values()}.items():
        w.app = AppProxy(w.app, lambda msg: s.spawn(f"dispatcher{len(s.threads)}", dispatcher, msg))
        handlers.append(s.spawn(f"send_handler{len(handlers)}", w.send_handler))
    s.spawn("caller1", caller, 1, r1)
    s.spawn("caller2", caller, 2, r2)
    chooser = vsched.PCT(seed, depth=1 + seed % 3, horizon=250) if seed % 3 else None
    try:
        out = s.run(until=lambda: all(t.done for t in s.threads if t not in handlers), chooser=chooser)
    except vsched.Deadlock as e:
        out = "deadlock: " + str(e)
    except (vsched.StepLimit, vsched.StepHang) as e:
        out = type(e).__name__ + ": " + str(e)
    ok = results == {1: True, 2: True} and not (isinstance(out, str) and out.startswith(("deadlock", "Step")))
    s.kill_all()
    return None if ok else f"two interfaces with the same Hop-by-Hop outstanding: callers got their own answer: {results} ({str(out)[:200]})"
