"""Introspection of the live AVP dictionary and typed command classes (rebuilt from /repo's
working tree on every run) plus type-driven value generators shared by several adapters."""
import datetime
import importlib
import inspect
import ipaddress
import pkgutil
import random

# (vendor, code) of Address classes that carry a bare packed IPv4 address (RFC 7155 Framed-IP-Address)
PACKED_V4 = {(None, 8)}

SESSION_ID_CLASSES = ("SessionIdAVP", "AcctMultiSessionIdAVP")

TYPE_ORDER = ["EnumeratedType", "Integer32Type", "Unsigned32Type", "Unsigned64Type", "GroupedType",
              "AddressType", "TimeType", "DiameterURIType", "DiameterIdentityType", "UTF8StringType",
              "OctetStringType"]


def import_all_avps():
    import bromelia.avps
    for pkg in ("bromelia.avps.ietf", "bromelia.avps.etsi_3gpp"):
        p = importlib.import_module(pkg)
        for m in pkgutil.iter_modules(p.__path__):
            try:
                importlib.import_module(pkg + "." + m.name)
            except BaseException:
                pass


def type_of(cls):
    names = [b.__name__ for b in cls.__mro__ if b.__module__ == "bromelia.types"]
    for t in TYPE_ORDER:
        if t in names:
            return t
    return None


def b2i(b):
    return None if b is None else int.from_bytes(b, "big")


class Desc:
    def __init__(self, cls):
        self.cls = cls
        self.name = cls.__name__
        self.module = cls.__module__
        self.type = type_of(cls)
        self.code = b2i(cls.code) if isinstance(cls.code, bytes) else cls.code
        self.vendor = b2i(cls.vendor_id) if isinstance(cls.vendor_id, bytes) else cls.vendor_id
        self.values = list(getattr(cls, "values", []) or []) if self.type == "EnumeratedType" else []
        self.mandatory = dict(getattr(cls, "mandatory", {}) or {}) if self.type == "GroupedType" else {}
        self.optionals = dict(getattr(cls, "optionals", {}) or {}) if self.type == "GroupedType" else {}

    def __repr__(self):
        return f"<{self.name} {self.vendor}/{self.code} {self.type}>"


_CACHE = None


def descriptors():
    """One descriptor per distinct DiameterAVP subclass object (direct subclasses = the registry)."""
    global _CACHE
    if _CACHE is None:
        import_all_avps()
        from bromelia.base import DiameterAVP
        seen, out = set(), []
        for c in DiameterAVP.__subclasses__():
            if id(c) in seen:
                continue
            seen.add(id(c))
            out.append(Desc(c))
        _CACHE = out
    return _CACHE


def by_name():
    return {d.name: d for d in descriptors()}


# ---------------------------------------------------------------- in-domain values per type

def sample_bytes(rng, n):
    return bytes(rng.randrange(1, 256) for _ in range(n))


def gen_value(d, rng, depth=0, length=None):
    """(constructor argument, expected data bytes or None when the data is a group) for an
    in-domain value of descriptor d.  Grouped: list of member AVP objects (mandatory members first)."""
    t = d.type
    if t == "EnumeratedType":
        v = rng.choice(d.values)
        return v, v
    if t == "Integer32Type":
        v = sample_bytes(rng, 4) if rng.random() < 0.8 else rng.choice([b"\x00" * 4, b"\xff" * 4, b"\x80\x00\x00\x00", b"\x7f\xff\xff\xff"])
        return v, v
    if t == "Unsigned32Type":
        if rng.random() < 0.5:
            n = rng.choice([0, 1, 255, 256, 65535, 65536, 2 ** 31 - 1, 2 ** 31, 2 ** 32 - 1, rng.getrandbits(32)])
            return n, n.to_bytes(4, "big")
        v = sample_bytes(rng, 4)
        return v, v
    if t == "Unsigned64Type":
        if rng.random() < 0.5:
            n = rng.choice([0, 1, 2 ** 32 - 1, 2 ** 32, 2 ** 63 - 1, rng.getrandbits(63)])
            return n, n.to_bytes(8, "big")
        v = sample_bytes(rng, 8)
        return v, v
    if t == "AddressType" and (d.vendor, d.code) in PACKED_V4:
        a = ipaddress.IPv4Address(rng.getrandbits(32) | 0x01000000)      # see C02 note on 0.1.x.x / 0.2.x.x
        if rng.random() < 0.5:
            return str(a), a.packed
        return a.packed, a.packed
    if t == "AddressType":
        if rng.random() < 0.5:
            a = ipaddress.IPv4Address(rng.getrandbits(32))
            return str(a), b"\x00\x01" + a.packed
        a = ipaddress.IPv6Address(rng.getrandbits(128))
        return str(a), b"\x00\x02" + a.packed
    if t == "TimeType":
        if rng.random() < 0.5:
            secs = rng.choice([0, 1, 255, 256, 65535, 65536, 2 ** 24, 2 ** 31 - 1, 2 ** 31, 2 ** 32 - 1, rng.getrandbits(32)])
            dt = datetime.datetime(1900, 1, 1) + datetime.timedelta(seconds=secs, microseconds=rng.choice([0, 1, 999999]))
            return dt, secs.to_bytes(4, "big")
        v = sample_bytes(rng, 4)
        return v, v
    if t == "DiameterURIType":
        host = "".join(rng.choice("abcdefghijklmnopqrstuvwxyz") for _ in range(rng.randint(3, 12))) + ".example"
        s = rng.choice(["aaa", "aaas"]) + "://" + host
        if rng.random() < 0.5:
            s += ":" + str(rng.choice([1, 9, 10, 99, 100, 999, 1000, 3868, 9999, 10000, 39999, 49151]))
        if rng.random() < 0.5:
            s += ";transport=" + rng.choice(["tcp", "udp", "sctp"])
            if rng.random() < 0.5:
                s += ";protocol=" + rng.choice(["diameter", "radius"])
        return s, s.encode()
    if t in ("DiameterIdentityType", "UTF8StringType"):
        n = length if length is not None else rng.randint(1, 23)
        s = "".join(rng.choice("abcdefghijklmnopqrstuvwxyz0123456789.-") for _ in range(n))
        if t == "UTF8StringType" and n >= 3 and rng.random() < 0.25:
            # white space is data like anything else: blanks, tabs, line breaks at either end and inside, non-ASCII text
            w = rng.choice([" ", "\t", "\n", "\r\n", "  "])
            k = rng.randrange(4)
            s = (w + s[len(w):]) if k == 0 else (s[:-len(w)] + w) if k == 1 else (s[:1] + w + s[1 + len(w):]) if k == 2 else ("\u00e9" + s[2:])
        if rng.random() < 0.5 and d.name not in SESSION_ID_CLASSES:     # a str makes these generate a Session-Id (C16)
            return s, s.encode()
        return s.encode(), s.encode()
    if t == "OctetStringType":
        n = length if length is not None else rng.randint(1, 23)
        v = sample_bytes(rng, n)
        return v, v
    if t == "GroupedType":
        members = gen_members(d, rng, depth)
        return members, None
    raise AssertionError(t)


def _desc_of_class(cls):
    for d in descriptors():
        if d.cls is cls:
            return d
    return Desc(cls)


def make_avp(d, rng, depth=0, length=None):
    """A real AVP object of class d with an in-domain value, together with its abstract content
    [code, flags, vendor, data | members] read back from the *arguments*, not from the object."""
    arg, data = gen_value(d, rng, depth, length)
    if d.type == "GroupedType":
        objs = [m[0] for m in arg]
        avp = d.cls(objs)
        return avp, {"cls": d.name, "members": [m[1] for m in arg]}
    avp = d.cls(arg)
    return avp, {"cls": d.name, "data": data}


def gen_members(d, rng, depth):
    """members of a Grouped AVP: every mandatory member once, then 0..2 optional members or
    generic AVPs; nested groups allowed while depth < 3"""
    out = []
    for _k, mc in d.mandatory.items():
        out.append(make_avp(_desc_of_class(mc), rng, depth + 1))
    pool = [c for c in d.optionals.values()]
    extra = rng.randint(0, 2)
    for _ in range(extra):
        if pool and rng.random() < 0.7:
            mc = rng.choice(pool)
            md = _desc_of_class(mc)
            if md.type == "GroupedType" and depth >= 3:
                continue
            try:
                out.append(make_avp(md, rng, depth + 1))
            except BaseException:
                continue
        else:
            out.append(make_generic(rng))
    if not out:
        out.append(make_generic(rng))
    return out


def make_generic(rng, code=None, vendor="rand", length=None):
    """generic DiameterAVP with an unknown code"""
    from bromelia.base import DiameterAVP
    if code is None:
        code = rng.choice([99990, 99991, 16777000, 4294967295])
    if vendor == "rand":
        vendor = rng.choice([None, None, 99999, 4294967295])
    n = length if length is not None else rng.randint(1, 13)
    data = sample_bytes(rng, n)
    flags = rng.choice([0x00, 0x40, 0x20, 0x60]) | (0x80 if vendor is not None else 0)
    avp = DiameterAVP(code=code, vendor_id=vendor, flags=flags, data=data)
    return avp, {"cls": None, "code": code, "vendor": vendor, "flags": flags, "data": data}


# ---------------------------------------------------------------- typed commands

def command_classes():
    """All DiameterRequest/DiameterAnswer subclasses defined under bromelia.lib."""
    import bromelia.lib
    from bromelia.base import DiameterRequest, DiameterAnswer
    out = []
    for m in pkgutil.iter_modules(bromelia.lib.__path__):
        try:
            mod = importlib.import_module(f"bromelia.lib.{m.name}.messages")
        except BaseException:
            continue
        for name, c in sorted(vars(mod).items()):
            if inspect.isclass(c) and c.__module__ == mod.__name__ and issubclass(c, (DiameterRequest, DiameterAnswer)):
                out.append(c)
    return out
