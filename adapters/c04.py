"""C04 -- inbound messages are delivered once, in order, however the stream is fragmented.

Specification: spec/RecvPath.tla (network with arbitrary segmentation, transport thread, receive worker with
reassembly, state machine thread, 1..2 consumers; one action per scheduler step).  TLC checks InOrderOnce,
PerConsumerOrder, BaseInOrder, AllDelivered, TerminalOk for 3 messages (application and base mixed) under every
segmentation and interleaving, and shows that the three historic deviations (no reassembly, unlocked receive
buffer, blocking get with the locks held) violate them.
Binding:
 monitors -- the real node under the deterministic scheduler: the peer's messages are fed in random
      segmentations (and, exhaustively, every single split point -- every pair in the thorough tier -- of a
      two-message stream, and one byte at a time); consumers call get_message(); the delivered sequence must
      equal the application messages sent, the DWAs on the socket must echo the DWRs in order; one-preemption
      sweeps stop one thread after every opcode / line of its critical section and run the conflicting operation
      of another thread to completion (transport/worker, worker/transport, consumer/psm, psm/consumer,
      consumer/consumer);
 T -- executions with unit-aligned segmentations are recorded at the data-flow operations and validated by
      TLC as behaviours of RecvPath (lock and program-counter steps are inferred by TLC).
"""
import json
import os
import random
import re

from engine import tlc, tlaval, vsched
from . import assoc, node as nodemod

T = tlc.tla


def cfg(n, base, consumers, dev="{}"):
    return (f"SPECIFICATION Spec\nCONSTANTS N = {n}\n Base = {{{', '.join(map(str, base))}}}\n Consumers = {{{', '.join(map(str, consumers))}}}\n"
            f" Deviations = {dev}\nINVARIANT InOrderOnce\nINVARIANT PerConsumerOrder\nINVARIANT BaseInOrder\nINVARIANT AllDelivered\n"
            "INVARIANT TerminalOk\nCHECK_DEADLOCK FALSE\n")


TRACE_MODULE = r"""---- MODULE Trace_RecvPath ----
EXTENDS RecvPath, Json, TLCExt, IOUtils
Traces == JsonDeserialize(TRACEFILE)
VARIABLES tid, l
Max2(a, b) == IF a[1] > b[1] \/ (a[1] = b[1] /\ a[2] >= b[2]) THEN a ELSE b
Progress == TLCSet(1, Max2(<<tid, l>>, TLCGet(1)))
TraceInit == tid = 1 /\ l = 0 /\ Init /\ TLCSet(1, <<1, 0>>)
Act(e) == CASE e.a = "net" -> NetDeliver(e.n)
            [] e.a = "t_recv" -> (TRecv /\ Len(tloc') = e.n)
            [] e.a = "t_store" -> TStore
            [] e.a = "w_take" -> (WTake /\ Len(wmsgs') = e.n)
            [] e.a = "w_put" -> (WPut /\ Last(recvQ') = e.m)
            [] e.a = "p_get" -> (PGet /\ pmsg' = e.m)
            [] e.a = "p_post" -> (PDeliver /\ Last(postQ') = e.m)
            [] e.a = "c_take" -> (CTake(e.c) /\ (IF e.m = 0 THEN postQ = <<>> ELSE postQ # <<>> /\ Head(postQ) = e.m))
Silent == WAcq \/ WTimeout \/ WRel \/ PAcq \/ (\E c \in Consumers : CCheck(c) \/ CWait(c) \/ CAcq(c))
TraceNext == \/ /\ l < Len(Traces[tid]) /\ l' = l + 1 /\ tid' = tid /\ Act(Traces[tid][l + 1])
             \/ /\ l < Len(Traces[tid]) /\ Silent /\ UNCHANGED <<tid, l>>
             \/ /\ l = Len(Traces[tid]) /\ tid < Len(Traces) /\ tid' = tid + 1 /\ l' = 0
                /\ sent' = 0 /\ sockIn' = <<>> /\ rbuf' = <<>> /\ avail' = FALSE /\ tlock' = Free /\ alock' = Free /\ plock' = Free
                /\ tpc' = "select" /\ tloc' = <<>> /\ pending' = <<>> /\ wpc' = "wait" /\ wdata' = <<>> /\ wmsgs' = <<>>
                /\ recvQ' = <<>> /\ postQ' = <<>> /\ ready' = FALSE /\ ppc' = "idle" /\ pmsg' = 0
                /\ cpc' = [c \in Consumers |-> "check"] /\ cgot' = [c \in Consumers |-> <<>>] /\ answered' = <<>> /\ taken' = <<>>
TraceSpec == TraceInit /\ [][TraceNext]_<<vars, tid, l>>
Accepted == PrintT(<<"PROGRESS", TLCGet(1), Len(Traces), Len(Traces[Len(Traces)])>>)
====
"""


def record_run(seed, kinds, cuts, consumers):
    """kinds: list of 'app'/'base' (3 messages); cuts: unit counts per segment (sum = 3 * len(kinds))"""
    rng = random.Random(seed)
    sc = assoc.Scenario("client", seed)
    try:
        if not sc.open():
            return None, "connection did not open", {}
        n = sc.n
        a, tr = n.assoc, n.assoc.transport
        msgs = []
        for k, kind in enumerate(kinds, 1):
            if kind == "base":
                m = n.make("DWR", True, 1 + k % 3)
            else:
                m = n.make(rng.choice(["REQ", "ANS"]), True, 1)
                m.header.hop_by_hop, m.header.end_to_end = 0x3000 + k, 0x4000 + k
            msgs.append(m)
        raws = [m.dump() for m in msgs]
        units = []
        for r in raws:
            units += [r[:10], r[10:20], r[20:]]
        segs, i = [], 0
        for c in cuts:
            segs.append(b"".join(units[i:i + c]))
            i += c
        key = {(m.header.hop_by_hop, m.header.end_to_end): k for k, m in enumerate(msgs, 1)}

        def idx(m):
            return key.get((m.header.hop_by_hop, m.header.end_to_end), -1) if m is not None else 0
        events = []
        names = {}
        s_ = sc.s

        def role():
            return names.get(id(s_.cur), ("other", 0))

        def wrap(obj, meth, fn):
            orig = getattr(obj, meth)

            def w(*args, **kw):
                r = orig(*args, **kw)
                fn(args, kw, r)
                return r
            setattr(obj, meth, w)
        unit_of = {}
        for u in units:
            unit_of[len(u)] = None

        def count_units(data):
            # data is a concatenation of whole units starting at a unit boundary of the stream
            k, j, pos = 0, 0, count_units.pos
            while j < len(data):
                j += len(units[pos + k])
                k += 1
            count_units.pos += k
            return k if j == len(data) else -1
        count_units.pos = 0
        wrap(n.sock, "recv", lambda args, kw, r: events.append({"a": "t_recv", "n": count_units(r)}) if role()[0] == "tr" and r else None)

        def avail_set(args, kw, r):
            if role()[0] == "tr":
                events.append({"a": "t_store"})
        wrap(tr._recv_data_available, "set", avail_set)

        def avail_clear(args, kw, r):
            if role()[0] == "wk":
                events.append({"a": "w_take", "n": -1})
        wrap(tr._recv_data_available, "clear", avail_clear)

        def rq_put(args, kw, r):
            if role()[0] == "wk":
                # the number of messages framed by this take becomes known with the puts: patch the last w_take
                for e in reversed(events):
                    if e["a"] == "w_take":
                        e["n"] = e["n"] + 1 if e["n"] >= 0 else 1
                        break
                events.append({"a": "w_put", "m": idx(args[0])})
        wrap(a._recv_messages, "put", rq_put)
        wrap(a._recv_messages, "get", lambda args, kw, r: events.append({"a": "p_get", "m": idx(r)}) if role()[0] == "psm" else None)
        wrap(a.postprocess_recv_messages, "put", lambda args, kw, r: events.append({"a": "p_post", "m": idx(args[0])}) if role()[0] == "psm" else None)

        def post_get(args, kw, r):
            if role()[0] == "cons":
                events.append({"a": "c_take", "c": role()[1], "m": idx(r)})
        orig_gn = a.postprocess_recv_messages.get_nowait

        def gn():
            try:
                r = orig_gn()
            except BaseException:
                if role()[0] == "cons":
                    events.append({"a": "c_take", "c": role()[1], "m": 0})
                raise
            post_get((), {}, r)
            return r
        a.postprocess_recv_messages.get_nowait = gn
        for t in s_.threads:
            if t.name.endswith("psm_thread"):
                names[id(t)] = ("psm", 0)
            elif t.name == "transport_layer_thread":
                names[id(t)] = ("tr", 0)
            elif t.name == "recv_message_monitor":
                names[id(t)] = ("wk", 0)
        app = [m for m, k in zip(msgs, kinds) if k == "app"]
        got = {c: [] for c in consumers}
        share = {c: len(app) // len(consumers) + (1 if i < len(app) % len(consumers) else 0) for i, c in enumerate(consumers)}

        def consumer(c):
            for _ in range(share[c]):
                got[c].append(n.d.get_message())
        cons = []
        for c in consumers:
            t = s_.spawn(f"consumer{c}", consumer, c)
            names[id(t)] = ("cons", c)
            cons.append(t)
        pending = list(zip(segs, cuts))

        def feeder():
            while pending:
                seg, c = pending.pop(0)
                n.feed(seg)
                events.append({"a": "net", "n": c})
                vsched.SCHED.yield_op(("op", None, "net"), write=True)
        s_.spawn("net", feeder)
        nbase = kinds.count("base")
        try:
            sc.run(until=lambda: all(c.done for c in cons) and sc.complete_messages(n.sock.sent) >= nbase and not pending, limit=40000)
            end = sc.settle(limit=4000)
        except vsched.Deadlock as e:
            end = "deadlock: " + str(e)
        except (vsched.StepLimit, vsched.StepHang) as e:
            end = type(e).__name__ + ": " + str(e)
        delivered = sorted((m.dump() for c in consumers for m in got[c] if m is not None))
        ok = delivered == sorted(m.dump() for m in app) and all(c.done for c in cons) and not n.dead_threads()
        for e in events:
            if e["a"] == "w_take" and e["n"] < 0:
                e["n"] = 0
        verdict = None if ok else f"delivered {len(delivered)} of {len(app)} application messages; consumers done: {[c.done for c in cons]}; end {end}; dead {n.dead_threads()}"
        return events, verdict, {"end": end}
    finally:
        sc.close_scenario()


def validate(rep, groups, selftest=False):
    for (n, base, consumers), items in groups.items():
        wd = tlc.workdir("Trace_RecvPath")
        try:
            tf = os.path.join(wd, "traces.json")
            json.dump([ev for ev, _m in items], open(tf, "w"))
            c = cfg(n, base, consumers).replace("SPECIFICATION Spec", "SPECIFICATION TraceSpec")
            c = c.replace("INVARIANT AllDelivered\n", "").replace("INVARIANT TerminalOk\n", "") + "CONSTRAINT Progress\nPOSTCONDITION Accepted\n"
            res, _ = tlc.run("Trace_RecvPath", c, extra_modules={"Trace_RecvPath": TRACE_MODULE.replace("TRACEFILE", T(tf))}, wd=wd, workers=1,
                             timeout=2400, java_opts=("-Dtlc2.tool.queue.IStateQueue=StateDeque",))
            rep.tlc(f"Trace_RecvPath {len(items)} traces", res)
            if res.violated in ("InOrderOnce", "PerConsumerOrder", "BaseInOrder"):
                rep.violation(f"TLC: invariant {res.violated} is false in a state matched by a recorded execution", items[0][1])
                continue
            m = re.search(r'<<\s*"PROGRESS"', res.out)
            if not m:
                tlc.must_ok(res, "Trace_RecvPath")
            val, _ = tlaval.parse_at(res.out, m.start())
            (t, l), nt, nl = val[1], val[2], val[3]
            if selftest:
                return (t, l) == (nt, nl)
            rep.traces_validated += t if (t, l) == (nt, nl) else t - 1
            if (t, l) != (nt, nl):
                rep.nonprop_differences += 1
                ev = items[t - 1][0]
                rep.notes.setdefault("unexplained_divergences", []).append({"trace": t, "event": l + 1, "next_event": ev[l] if l < len(ev) else None,
                                                                             "previous": ev[max(0, l - 4):l], "replay": items[t - 1][1]})
        finally:
            tlc.cleanup(wd)


def run(rep):
    nodemod.ensure_installed(rep.seed)
    quick = rep.tier == "quick"
    rep.rule = ("TLC: inbound path model, 3 messages (application and base mixed), every segmentation, 1 and 2 consumers (+ 3 deviations shown to "
                "violate the invariants); monitors: random segmentations and schedules, every single split point of a two-message stream (every "
                "pair in the thorough tier), one byte at a time; recorded unit-aligned executions validated by TLC. distinct = executions")
    for consumers in ([1], [1, 2]):
        res, _ = tlc.run("RecvPath", cfg(3, [2], consumers), workers=16, timeout=2400)
        tlc.must_ok(res, f"RecvPath consumers={consumers}")
        rep.tlc(f"RecvPath N=3 Base={{2}} consumers={consumers}", res)
    if not quick:
        res, _ = tlc.run("RecvPath", cfg(4, [1, 3], [1, 2]), workers=16, timeout=3000)
        tlc.must_ok(res, "RecvPath N=4")
        rep.tlc("RecvPath N=4 Base={1,3} consumers=[1,2]", res)
    for dev in ("D_NoReassembly", "D_UnlockedBuffer", "D_BlockingGet"):
        r2, _ = tlc.run("RecvPath", cfg(3, [2], [1, 2], dev='{"%s"}' % dev), workers=8, timeout=1200)
        if not r2.violated:
            raise tlc.TlcError(f"vacuity self-test: deviation {dev} violates nothing")
        rep.notes.setdefault("deviations_shown_to_violate", {})[dev] = r2.violated
    rng = random.Random(rep.seed * 7919 + 4)
    # ---- monitors: random segmentations
    nruns = 120 if quick else 3000
    for i in range(nruns):
        seed = rng.getrandbits(30)
        args = (seed, rng.choice([2, 3, 4]), ["whole", "one", "random", "random"][i % 4], 1 + (i % 5 == 0))
        verdict, info = assoc.run_recv(*args)
        rep.case(("recv", i))
        if verdict:
            rep.violation(f"{args[1]} messages, segmentation '{args[2]}', {args[3]} consumer(s): {verdict}", {"kind": "recv", "args": list(args)})
            if len(rep.violations) >= 10:
                return
    # the first bytes of the peer's first message ride in the segment that completes the capabilities exchange (both roles)
    for i in range(5 if quick else 60):
        for early in (1, 19, 20, 28, 60):
            seed = rng.getrandbits(30)
            verdict, info = assoc.run_recv(seed, 2, "random", 1, early=early)
            rep.case(("early", i, early))
            if verdict:
                rep.violation(f"{early} bytes of the first message arrive with the CEA / CER: {verdict}", {"kind": "recv", "args": [seed, 2, "random", 1], "early": early})
                break
    # a burst that fills the transport's read buffer exactly (4 x 64 KiB)
    for hs in range(1, 9 if rep.tier == "quick" else 60):
        # (several schedules: the receive worker may or may not look at the buffer between the two reads)
        verdict, info = assoc.run_recv(hs, 0, "huge", 1, fine=False)
        rep.case(("huge", hs))
        if verdict:
            rep.violation(f"a message of 325,084 bytes (more than one socket read) followed by two small ones: {verdict}", {"kind": "recv", "args": [hs, 0, "huge", 1], "fine": False})
            break
    verdict, info = assoc.run_recv(5, 0, "buffer", 1, fine=False)
    rep.case(("buffer",))
    if verdict:
        rep.violation(f"a burst of exactly 262144 bytes (4 messages of 64 KiB in one segment): {verdict}", {"kind": "recv", "args": [5, 0, "buffer", 1], "fine": False})
    # every split point of a two-message stream (the stream is 2 x ~100 bytes)
    probe = assoc.Scenario("client", 1)
    try:
        ln = len(probe.n.make("REQ", True, 1).dump()) * 2
    finally:
        probe.close_scenario()
    step = 3 if quick else 1
    for cut in range(1, ln, step):
        verdict, info = assoc.run_recv(1000 + cut, 2, "cut", 1, mix_base=False, cut=cut)
        rep.case(("cut", cut))
        if verdict:
            rep.violation(f"two messages split after byte {cut}: {verdict}", {"kind": "recv-cut", "cut": cut})
            break
    verdict, info = assoc.run_recv(4242, 2, "bytes", 1, mix_base=False)
    rep.case(("bytes",))
    if verdict:
        rep.violation(f"two messages delivered one byte at a time: {verdict}", {"kind": "recv", "args": [4242, 2, "bytes", 1]})
    # one-preemption sweeps at opcode / line granularity over the conflicting critical sections
    nsweep = 0
    for kind in ("transport/worker", "worker/transport", "consumer/psm", "psm/consumer", "psm2/consumer", "consumer/consumer"):
        for k in range(0, 400):
            verdict, info = assoc.run_recv_sweep(kind, k)
            rep.case(("sweep", kind, k))
            nsweep += 1
            if verdict:
                rep.violation(f"{kind.split('/')[0]} preempted after {k} steps of its critical section by the {kind.split('/')[1]}: {verdict}",
                              {"kind": "sweep", "pair": kind, "k": k})
                break
            if info["ended"]:
                break
    rep.notes["preemption_sweep_executions"] = nsweep
    for fine_many in range(20 if quick else 400):
        seed = rng.getrandbits(30)
        verdict, info = assoc.run_recv(seed, 3, "many", 1, fine=True)
        rep.case(("many", fine_many))
        if verdict:
            rep.violation(f"3 messages in many small segments, opcode-level preemption: {verdict}", {"kind": "recv", "args": [seed, 3, "many", 1], "fine": True})
            break
    rep.notes["monitored_executions"] = nruns + len(range(1, ln, step)) + 1 + nsweep
    # ---- T
    ntr = 50 if quick else 800
    groups = {}
    for i in range(ntr):
        seed = rng.getrandbits(30)
        kinds = [["app", "base", "app"], ["app", "app", "app"], ["base", "app", "app"]][i % 3]
        base = [k for k, x in enumerate(kinds, 1) if x == "base"]
        consumers = [1, 2] if i % 4 == 0 else [1]
        total, cuts = 9, []
        while total > 0:
            c = rng.randint(1, min(total, 5))
            cuts.append(c)
            total -= c
        events, verdict, info = record_run(seed, kinds, cuts, consumers)
        rep.case(("trace", i))
        replay = {"kind": "trace", "seed": seed, "kinds": kinds, "cuts": cuts, "consumers": consumers}
        if verdict:
            rep.violation(verdict, replay)
            continue
        groups.setdefault((3, tuple(base), tuple(consumers)), []).append((events, replay))
    if groups:
        rep.sample({"trace_prefix": next(iter(groups.values()))[0][0][:12]})
        validate(rep, groups)
        # binding self-test: a recorded execution with one corrupted field must be rejected
        key, items = next(iter(groups.items()))
        ev = json.loads(json.dumps(items[0][0]))
        tgt = next(e for e in ev if e["a"] == "p_post")
        tgt["m"] = tgt["m"] % 3 + 1
        before = rep.traces_validated
        if validate(rep, {key: [(ev, items[0][1])]}, selftest=True):
            raise tlc.TlcError("binding self-test: a corrupted trace was accepted by Trace_RecvPath")
        rep.traces_validated = before
        rep.notes["binding_selftest"] = "trace with a corrupted p_post event rejected"
    rep.assumptions += ["trace validation uses segment boundaries aligned to the model's units (10 / 10 / rest bytes of each message); arbitrary byte "
                        "boundaries are covered by the monitors", "the peer's messages are well-formed (malformed input: C03)"]


def replay(rep, path):
    r = json.load(open(path))["replay"]
    nodemod.ensure_installed(0)
    if r["kind"] == "recv":
        verdict, info = assoc.run_recv(*r["args"], fine=r.get("fine"), early=r.get("early", 0))
    elif r["kind"] == "sweep":
        verdict, info = assoc.run_recv_sweep(r["pair"], r["k"])
    elif r["kind"] == "recv-cut":
        verdict, info = assoc.run_recv(1000 + r["cut"], 2, "cut", 1, mix_base=False, cut=r["cut"])
    else:
        events, verdict, info = record_run(r["seed"], r["kinds"], r["cuts"], r["consumers"])
    if verdict:
        rep.violation(verdict, r)
    rep.case(str(r)[:80])
    rep.states, rep.transitions = 1, 1
    rep.sample(r)
    return rep.finish()
