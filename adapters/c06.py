"""C06 -- the peer state machine follows RFC 6733 and opens only for the configured peer.
(C07 -- base answers echo the identifiers of the request they answer -- reuses this module.)

Specification: spec/Psm.tla (one Tick = run() + get_next_state, environment actions for every event of the
property's alphabet).  TLC explores both roles until the reachable set closes and checks the action
properties OpenOnlyAfterCapx, DeliveredOnlyWhileOpen, OneDPR, NoDPRWhileClosing, DPRAnswered, PeerDiscCloses,
NonCeaCloses, WatchdogOnIdle, KeepsTicking, AnswersEcho and the invariant ClosedImpliesReleased; each historic
deviation is shown to violate one of them.
 G: the dumped state graph is covered by edge-covering tours on the REAL node: a real Diameter object with
    all its threads under the deterministic scheduler, the state machine thread advanced one tick at a time,
    events injected as real (encoded and decoded) messages / socket conditions / API calls; after every step
    the projection (reported state, receive queue, flags, messages written to the socket, messages handed to
    the application, thread liveness, transport release) must equal a TLC successor.
 Pair: spec/Pair.tla composes a client and a server instance of Psm through two FIFO channels (the scenario of the
    repository's tests/test_setup.py with every interleaving); TLC checks OpenOrder, DeliveredWereSent, the agreement of
    the two ends in every resting state and, under fairness, that both open and that a stop closes both; the graph is
    toured on TWO real nodes in one scheduler whose sockets the harness cross-wires frame by frame (adapters/pair.py).
"""
import json
import os

from engine import tlc, graphwalk, vsched
from . import node as nodemod

T = tlc.tla

ALL_KINDS = ["CER", "CEA", "DWR", "DWA", "DPR", "DPA", "REQ", "ANS", "MIS"]
PROPS = ["OpenOnlyAfterCapx", "DeliveredOnlyWhileOpen", "OneDPR", "NoDPRWhileClosing", "StopQueuesDPR", "BacklogLeaves", "DPRAnswered",
         "PeerDiscCloses", "NonCeaCloses", "WatchdogOnIdle", "KeepsTicking", "AnswersEcho"]
DEVIATIONS = {"D_NoReturnAfterRelease": "OneDPR", "D_MisaddressedKills": "KeepsTicking", "D_EofIgnored": "PeerDiscCloses",
              "D_RefusedSpins": "KeepsTicking", "D_ClosingKeepsBacklog": "BacklogLeaves"}

LIMIT = 600          # batch limit used on the real node (bromelia.setup.SEND_BUFFER_MAXIMUM_SIZE) and in the model
APP_SIZE = 330       # Class AVP payload of the application messages submitted by AppSend
_sizes = {}


def sizes():
    """encoded sizes of the messages a node emits, measured on the real objects (they are constants of the model)"""
    if not _sizes:
        from . import assoc
        for role in ("client", "server"):
            n = nodemod.Node(role, seed=0)
            try:
                b = n.d._base
                _sizes[role] = {"SzCER": len(b.cer.dump()), "SzCEA": len(b.cea.dump()), "SzDWR": len(b.dwr.dump()), "SzDWA": len(b.dwa.dump()),
                                "SzDPR": len(b.dpr.dump()), "SzDPA": len(b.dpa.dump()), "SzApp": len(assoc.app_request(1, APP_SIZE).dump())}
            finally:
                n.s.kill_all()
    return _sizes


def cfg(role, kinds, ids, maxq, dev="{}", props=True, valid_only=False, maxs=0):
    sz = sizes()[role]
    c = (f'SPECIFICATION Spec\nCONSTANTS Role = "{role}"\n Kinds = {{{", ".join(T(k) for k in kinds)}}}\n IdSet = {{{", ".join(map(str, ids))}}}\n'
         f" MaxQ = {maxq}\n ValidOnly = {'TRUE' if valid_only else 'FALSE'}\n MaxS = {maxs}\n Limit = {LIMIT}\n"
         + "".join(f" {k} = {v}\n" for k, v in sz.items()) +
         f" Deviations = {dev}\nINVARIANT TypeOK\nINVARIANT ClosedImpliesReleased\n")
    if props:
        c += "".join(f"PROPERTY {p}\n" for p in PROPS)
    return c + "CHECK_DEADLOCK FALSE\n"


class Handle:
    pass


class PsmAdapter:
    def __init__(self, role, watchdog=2):
        self.role, self.watchdog = role, watchdog
        self.flavour = role

    def fresh(self):
        import bromelia.setup as bs
        bs.SEND_BUFFER_MAXIMUM_SIZE = LIMIT
        h = Handle()
        h.node = nodemod.Node(self.role, seed=0, watchdog=self.watchdog)
        h.objs = {}
        h.n = 0
        return h

    def dispose(self, h):
        h.node.s.kill_all()

    def apply(self, h, op, args, spec):
        n = h.node
        h.n += 1
        if op == "Start":
            n.start(refused=bool(args[0]))
            psm = n.psm_thread
            k = 0
            while not psm.done and not n.at_ticker(psm):
                n.s.step(psm)
                k += 1
                if k > 200:
                    raise vsched.StepLimit("state machine thread does not reach its ticker")
            n.pump()
        elif op == "Inject":
            m = args[0]
            obj = n.make(m["k"], m["valid"], m["id"], variant=h.n)
            h.objs[id(obj)] = (m["k"], m["valid"], m["id"])
            h.keep = getattr(h, "keep", []) + [obj]
            n.inject(obj)
        elif op == "AppSend":
            from . import assoc
            n.d.send_message(assoc.app_request(1, APP_SIZE))
        elif op == "LocalStop":
            n.d.close()
        elif op == "PeerDisc":
            n.peer_close()
            n.pump()
        elif op == "IdleReached":
            if not n.idle_rounds(self.watchdog):
                raise vsched.Deadlock("transport thread is not waiting in select(): " + n.s.describe_blocked())
        elif op == "Tick":
            n.tick()
        else:
            raise AssertionError(op)

    def project(self, h):
        n = h.node
        a = n.assoc
        tr = a.transport if a is not None else None
        psm = n.psm_thread
        out = []
        for m in n.take_sent():
            k = n.classify(m)
            if k in ("REQ", "ANS"):
                k = "APP"                # submitted by the application
            i = 0 if k in ("CER", "DWR", "DPR", "APP") else n.id_of(m)
            if k in ("CEA", "DWA", "DPA") and not self.answer_ok(n, m):
                i = -9          # a base answer without the local origin / a Result-Code / with the R flag
            out.append((k, i))
        dlv = [(n.classify(m), n.id_of(m)) for m in n.take_delivered()]
        recvq = [h.objs.get(id(x), ("?", False, -1)) for x in (a._recv_messages.items if a is not None else [])]
        sendq = []
        for m in (a._send_messages.items if a is not None else []):
            k = n.classify(m)
            k = "APP" if k in ("REQ", "ANS") else k
            sendq.append((k, 0 if k in ("CER", "DWR", "DPR", "APP") else n.id_of(m)))
        return {"st": n.state(), "recvQ": recvq, "sendQ": sendq, "active": bool(a.state_is_active) if a is not None else False,
                "peerGone": bool(tr is not None and tr._stop_threads),
                "connected": bool(a is not None and a.is_connected()),
                "refused": bool(n.sock.refused) if n.sock is not None else False,
                "idle": bool(tr is not None and not getattr(tr, "events", None) and tr.tracking_events_count >= self.watchdog),
                "running": bool(psm is not None and not psm.done),
                "released": bool(a is None or (a.transport is None and (n.sock is None or n.sock.closed))),
                "out": out, "dlv": dlv,
                "dead": n.dead_threads(), "alive": n.alive_threads()}

    @staticmethod
    def answer_ok(n, m):
        from bromelia.avps import OriginHostAVP, OriginRealmAVP, ResultCodeAVP
        def one(cls):
            xs = [a for a in m.avps if isinstance(a, cls)]
            return xs[0].data if len(xs) == 1 else None
        return (not m.header.is_request() and one(OriginHostAVP) == n.local[0].encode() and one(OriginRealmAVP) == n.local[1].encode()
                and one(ResultCodeAVP) is not None and m.header.get_length() == len(m.dump()))

    @staticmethod
    def spec_view(s):
        return {"st": s["st"], "recvQ": [(m["k"], m["valid"], m["id"]) for m in s["recvQ"]], "sendQ": [(m["k"], m["id"]) for m in s["sendQ"]], "active": s["active"], "peerGone": s["peerGone"],
                "connected": s["connected"], "refused": s["refused"], "idle": s["idle"], "running": s["running"], "released": s["released"],
                "out": [(m["k"], m["id"]) for m in s["out"]], "dlv": [(m["k"], m["id"]) for m in s["dlv"]]}

    def same(self, spec, p):
        v = self.spec_view(spec)
        return all(v[k] == p[k] for k in v)

    def judge(self, h, p, before, op, args, succs):
        exp = [self.spec_view(s) for s in succs]
        e = exp[0]
        bad = []
        if p["dead"]:
            bad.append(f"thread(s) died: {p['dead']}")
        for k, what in (("st", "reported state"), ("out", "messages written to the socket"), ("dlv", "messages handed to the application"),
                        ("running", "state machine thread alive"), ("released", "transport released"), ("recvQ", "receive queue"),
                        ("sendQ", "send queue")):
            if all(x[k] != p[k] for x in exp):
                bad.append(f"{what}: node {p[k]}, specification {e[k]}")
        if not bad:
            return None               # only internal flags differ: recorded, not alarmed
        return f"{self.role} node after {op}{tuple(args) if args else ''} from state {before['st']}: " + "; ".join(bad)

    def judge_exception(self, exc, before, op, args):
        return f"{self.role} node: {op}{tuple(args) if args else ''} from state {before['st']} raised {type(exc).__name__}: {str(exc)[:300]}"


def model_check(rep, role, kinds, ids, maxq, dump=None, wd=None):
    args = ["-dump", "dot,actionlabels", dump] if dump else []
    res, _ = tlc.run("Psm", cfg(role, kinds, ids, maxq, maxs=2), wd=wd, workers=8, args=args, timeout=2400)
    tlc.must_ok(res, f"Psm {role}")
    rep.tlc(f"Psm {role} kinds={len(kinds)} ids={len(ids)} MaxQ={maxq} MaxS=2", res)
    return res


def deviations_violate(rep):
    for dev, prop in DEVIATIONS.items():
        res, _ = tlc.run("Psm", cfg("client", ALL_KINDS, [1], 2, dev='{"%s"}' % dev, maxs=2), workers=4, timeout=900)
        if not res.violated or res.violated in ("TypeOK", "deadlock"):
            raise tlc.TlcError(f"vacuity self-test: deviation {dev} violates {res.violated}, expected a property such as {prop}")
        rep.notes.setdefault("deviations_shown_to_violate", {})[dev] = res.violated


def _tour_job(job):
    dot, role, max_total = job
    if role == "pair":
        from . import pair
        ad = pair.PairAdapter()
    else:
        ad = PsmAdapter(role)
    res = graphwalk.tour(dot, ad, max_steps_per_run=80 if role == "pair" else 60, max_total=max_total)
    return role, res.__dict__


def pair_cfg(maxq, maxs, dev, invs=(), props=(), fair=False):
    from . import pair
    sz = pair.sizes()
    if sz["client"] != sz["server"]:
        raise tlc.TlcError("pair harness: the two nodes' base messages must have equal sizes (one set of size constants in Pair.tla)")
    return (f"SPECIFICATION {'FairSpec' if fair else 'Spec'}\nCONSTANTS MaxQ = {maxq}\n MaxS = {maxs}\n Limit = {LIMIT}\n"
            + "".join(f" {k} = {v}\n" for k, v in sz["client"].items()) + f" PairDeviations = {dev}\n"
            + "".join(f"INVARIANT {i}\n" for i in invs) + "".join(f"PROPERTY {q}\n" for q in props) + "CHECK_DEADLOCK FALSE\n")


def pair_stage(rep, wd, quick):
    """spec/Pair.tla: client and server composed through two channels, model-checked, and toured on two real nodes"""
    asis = '{"D_NoClosingTimeout"}'
    big = (1, 0) if quick else (2, 1)
    # the tree as it is (no timeout in Closing): the only resting state in which the two ends disagree is a simultaneous stop
    res, _ = tlc.run("Pair", pair_cfg(big[0], big[1], asis, invs=("OpenOrder", "DeliveredWereSent", "AgreeButSimultaneousStop")), workers=16, timeout=3000)
    tlc.must_ok(res, "Pair as-is safety")
    rep.tlc(f"Pair as-is MaxQ={big[0]} MaxS={big[1]} safety", res)
    res, _ = tlc.run("Pair", pair_cfg(1, 0, asis, props=("BothOpen", "StopEndsButSimultaneous"), fair=True), workers=16, timeout=3000)
    tlc.must_ok(res, "Pair as-is liveness")
    rep.tlc("Pair as-is MaxQ=1 MaxS=0 liveness", res)
    # vacuity / documentation: Agree itself fails without a timeout in Closing, and holds with one
    res, _ = tlc.run("Pair", pair_cfg(1, 0, asis, invs=("Agree",)), workers=8, timeout=1200)
    if res.violated != "Agree":
        raise tlc.TlcError(f"Pair: expected Agree to fail on the tree as it is (simultaneous stop), got {res.violated}")
    res, _ = tlc.run("Pair", pair_cfg(1, 0, "{}", invs=("Agree",), props=("StopClosesBoth",), fair=True), workers=16, timeout=1200)
    tlc.must_ok(res, "Pair with a Closing timeout")
    rep.tlc("Pair with a timeout in Closing (RFC 6733): Agree, StopClosesBoth", res)
    rep.notes["pair_observation"] = ("two bromelia nodes that both call close() at the same moment stay in Closing for ever: Closing drops the other "
                                     "side's DPR and has no timeout (RFC 6733 leaves Closing by timeout). Outside the listed statements (each node "
                                     "alone follows the machine as implemented; the peer of C08 answers a DPR or disconnects); shown by TLC on "
                                     "spec/Pair.tla (Agree fails only in that state) and reproduced on two real nodes by the tours.")
    dot = os.path.join(wd, "pair.dot")
    small = (1, 0) if quick else (1, 1)
    res, _ = tlc.run("Pair", pair_cfg(small[0], small[1], asis), wd=wd, workers=8, args=["-dump", "dot,actionlabels", dot], timeout=2400)
    tlc.must_ok(res, "Pair dump")
    rep.tlc(f"Pair dump MaxQ={small[0]} MaxS={small[1]}", res)
    return (dot, "pair", 1500 if quick else None)


def run_tours(rep, jobs):
    import multiprocessing
    with multiprocessing.get_context("fork").Pool(len(jobs)) as pool:
        results = pool.map(_tour_job, jobs)
    for role, r in results:
        rep.notes.setdefault("tours", []).append({"role": role, "graph_states": r["graph_states"], "graph_edges": r["graph_edges"],
                                                   "reached_states": r["states"], "groups_exercised": r["groups"],
                                                   "non_property_differences": r["nonprop"]})
        rep.nonprop_differences += r["nonprop"]
        rep.evaluations += r["groups"]
        rep.distinct_count_extra += r["groups"]
        rep.traces_validated += r["groups"]
        for hist, label, verdict, detail in r["mismatches"]:
            rep.violation(f"after {' ; '.join(hist[-8:]) or '(start)'} then {label}: {detail}",
                          {"kind": "history", "role": role, "ops": hist + [label]})
        if role == "pair":
            rep.notes["pair_tour"] = {"groups": r["groups"], "reached_states": r["states"]}


def run(rep, for_c07=False):
    nodemod.ensure_installed(rep.seed)
    quick = rep.tier == "quick"
    rep.rule = ("TLC: peer state machine with its send queue, both roles, 14 injectable message values (valid/invalid base messages, application "
                "request/answer, misaddressed request), receive queue <= 2, up to 2 application messages waiting to be sent (batch limit "
                "600 bytes), all events enabled in every state, 13 action properties; G: every (reached state, "
                "event) group of the dumped graph exercised on the real threaded node by edge-covering tours. distinct = (state, event) groups")
    deviations_violate(rep)
    if not for_c07:
        from . import validate
        validate.stage(rep)              # what `valid` means: spec/Validate.tla against the real validators
        watchdog_pacing(rep)
        dpr_with_followers(rep)
    else:
        two_node_objects(rep)
        back_to_back(rep)
        answer_behind_submissions(rep)
    wd = tlc.workdir("MC_Psm")
    try:
        jobs = []
        for role in ("client", "server"):
            # full alphabet with queue bound 2 is model-checked; the graph that is toured uses the tier's bound
            model_check(rep, role, ALL_KINDS, [1], 2)
            if for_c07:
                # two graphs: every identifier pair with a short receive queue (toured completely), and two pairs with the deeper queue
                # and a send-queue backlog (quick: capped number of tour steps, coverage is reported)
                kinds = ["CER", "DWR", "DPR", "REQ", "CEA"]
                for tag, ids, maxq, maxs, cap in (("ids", [1, 2, 3, 4], 1 if quick else 2, 0, None), ("backlog", [1, 2], 2, 2, 2500 if quick else None)):
                    dot = os.path.join(wd, f"psm_{role}_{tag}.dot")
                    res, _ = tlc.run("Psm", cfg(role, kinds, ids, maxq, props=True, valid_only=True, maxs=maxs), wd=wd, workers=8,
                                     args=["-dump", "dot,actionlabels", dot], timeout=2400)
                    tlc.must_ok(res, f"Psm dump {role} {tag}")
                    rep.tlc(f"Psm dump {role} {tag} ids={ids} MaxQ={maxq} MaxS={maxs}", res)
                    jobs.append((dot, role, cap))
                continue
            dot = os.path.join(wd, f"psm_{role}.dot")
            kinds = ALL_KINDS
            maxq = 1 if quick else 2
            res, _ = tlc.run("Psm", cfg(role, kinds, [1], maxq, props=False, maxs=2), wd=wd, workers=8,
                             args=["-dump", "dot,actionlabels", dot], timeout=2400)
            tlc.must_ok(res, f"Psm dump {role}")
            rep.tlc(f"Psm dump {role}", res)
            jobs.append((dot, role, None))
        if not for_c07:
            jobs.append(pair_stage(rep, wd, quick))
        run_tours(rep, jobs)
    finally:
        tlc.cleanup(wd)
    rep.exhaustive = True
    rep.assumptions += ["messages are injected into the association's receive queue as decoded objects (the receive worker's output); "
                        "the byte-level inbound path is C04's", "long timers fire only at quiescence (DESIGN 2.4)",
                        "only a DPR with Disconnect-Cause REBOOTING is 'valid' for the implementation and answered (as implemented)"]


def replay(rep, path):
    r = json.load(open(path))["replay"]
    nodemod.ensure_installed(0)
    if r.get("kind") == "dpr-with-followers":
        dpr_with_followers(rep)
        rep.states, rep.transitions = 1, 1
        rep.sample(r)
        return rep.finish()
    if r.get("kind") == "back-to-back":
        back_to_back(rep)
        rep.states, rep.transitions = 1, 1
        rep.sample(r)
        return rep.finish()
    if r.get("kind") == "answer-behind-submissions":
        answer_behind_submissions(rep)
        rep.states, rep.transitions = 1, 1
        rep.sample(r)
        return rep.finish()
    if r.get("kind") == "two-node-objects":
        two_node_objects(rep)
        rep.states, rep.transitions = 1, 1
        rep.sample(r)
        return rep.finish()
    if r.get("kind") == "watchdog-pacing":
        watchdog_pacing(rep)
        rep.states, rep.transitions = 1, 1
        rep.sample(r)
        return rep.finish()
    if r.get("kind") == "validate":
        from . import validate
        validate.replay_one(rep, r)
        rep.case(str(r)[:80])
        rep.states, rep.transitions = 1, 1
        rep.sample(r)
        return rep.finish()
    if r.get("role") == "pair":
        from . import pair
        ad = pair.PairAdapter()
    else:
        ad = PsmAdapter(r.get("role", "client"))
    h = ad.fresh()
    p = None
    try:
        for lab in r["ops"]:
            op, args = graphwalk.parse_label(lab)
            ad.apply(h, op, args, None)
            p = ad.project(h)
            if "st" in p:
                rep.notes.setdefault("replayed", []).append({"op": lab, "st": p["st"], "out": p["out"], "dlv": p["dlv"], "running": p["running"]})
            else:
                rep.notes.setdefault("replayed", []).append({"op": lab, "client": p["c"]["st"], "server": p["s"]["st"], "c2s": p["c"]["wire"], "s2c": p["s"]["wire"]})
        if p and p["dead"]:
            rep.violation(f"thread(s) died: {p['dead']}", r)
    except BaseException as e:
        rep.violation(f"{lab} raised {type(e).__name__}: {str(e)[:300]}", r)
    rep.notes["replay_note"] = "the replay shows the node's behaviour along the recorded history; ./check C06 compares it with the specification"
    rep.case(str(r)[:80])
    rep.states, rep.transitions = 1, 1
    rep.sample(r)
    return rep.finish()



def two_node_objects(rep):
    """Two node objects with different identities in one process (a client and a server, each talking to the harness), their
    exchanges interleaved: every answer carries the identity of the node that emits it and the identifiers of the request that
    node has just processed (the answer templates belong to a node object, not to the process)."""
    from . import node as nm
    A = {"LOCAL_NODE_HOSTNAME": "alpha.first.example", "LOCAL_NODE_REALM": "first.example"}
    B = {"LOCAL_NODE_HOSTNAME": "beta.second.example", "LOCAL_NODE_REALM": "second.example"}
    for order in (0, 1):
        c = nm.Node("client", seed=order, cfg_override=A if order == 0 else B)
        sv = nm.Node("server", seed=order, cfg_override=B if order == 0 else A, sched=c.s)
        c.foreign_psm, sv.foreign_psm = ("server_psm_thread",), ("client_psm_thread",)
        problems = []

        def expect(n, kind, i, what):
            got = [m for m in n.take_sent() if n.classify(m) == kind]
            if len(got) != 1:
                problems.append(f"{what}: {len(got)} {kind} emitted")
                return
            m = got[0]
            ident = (m.origin_host_avp.data.decode("utf-8", "replace"), m.origin_realm_avp.data.decode("utf-8", "replace")) if m.has_avp("origin_host_avp") and m.has_avp("origin_realm_avp") else None
            if ident != n.local:
                problems.append(f"{what}: the {kind} carries the identity {ident}, the node is {n.local}")
            if (m.header.get_hop_by_hop(), m.header.get_end_to_end()) != n.ids(i):
                problems.append(f"{what}: the {kind} carries identifiers {m.header.hop_by_hop.hex()}/{m.header.end_to_end.hex()}, the request had {n.ids(i)}")
        try:
            first, second = (c, sv) if order == 0 else (sv, c)
            for n in (first, second):
                n.start()
                psm, k = n.psm_thread, 0
                while not psm.done and not n.at_ticker(psm) and k < 300:
                    n.s.step(psm)
                    k += 1
                n.pump()
                if n.role == "client":
                    n.tick()
                    n.tick()
                    n.take_sent()
                    n.inject(n.make("CEA", True, 1))
                    n.tick()
                else:
                    n.inject(n.make("CER", True, 3))
                    n.tick()
                    expect(n, "CEA", 3, f"{n.role} {n.local[0]} (object created {'first' if n is first else 'second'})")
                if n.state() != "Open":
                    problems.append(f"{n.role} {n.local[0]} did not open")
            for rnd, (n, i) in enumerate(((first, 2), (second, 3), (second, 1), (first, 4), (second, 2))):
                n.inject(n.make("DWR", True, i))
                n.tick()
                expect(n, "DWA", i, f"{n.role} {n.local[0]}, watchdog round {rnd + 1}")
            for n, i in ((second, 4), (first, 1)):
                n.inject(n.make("DPR", True, i))
                n.tick()
                expect(n, "DPA", i, f"{n.role} {n.local[0]}, disconnect")
        except (vsched.Deadlock, vsched.StepLimit, vsched.StepHang) as e:
            problems.append(f"{type(e).__name__}: {str(e)[:200]}")
        finally:
            c.s.kill_all()
        rep.case(("two-node-objects", order))
        for pr in problems[:3]:
            rep.violation(f"two node objects in one process ({'client' if order == 0 else 'server'} created first): {pr}", {"kind": "two-node-objects", "order": order})


def back_to_back(rep):
    """Requests that arrive together (one segment): consecutive ticks answer them while the transport thread is not scheduled in
    between - every answer still leaves once, with the identifiers of its own request, in the order of the requests."""
    for role in ("server", "client"):
        for seq in ((("DWR", 2), ("DWR", 3)), (("DWR", 4), ("DWR", 1), ("DWR", 2)), (("CER", 3), ("DWR", 2))):
            n = nodemod.Node(role, seed=len(seq))
            problems = []
            try:
                n.start()
                psm, g = n.psm_thread, 0
                while not psm.done and not n.at_ticker(psm) and g < 600:
                    n.s.step(psm)
                    g += 1
                n.pump()
                if role == "client":
                    n.tick()
                    n.tick()
                    n.take_sent()
                    n.inject(n.make("CEA", True, 1))
                else:
                    n.inject(n.make("CER", True, 1))
                n.tick()
                n.take_sent()
                if n.state() != "Open":
                    raise tlc.TlcError(f"back-to-back: the {role} node did not open")
                for kind, i in seq:
                    n.inject(n.make(kind, True, i))
                for _ in range(len(seq)):
                    # one tick of the state machine thread alone (others run only when it waits for one of them)
                    psm, first, g = n.psm_thread, True, 0
                    while g < 3000 and not psm.done and (first or not n.at_ticker(psm)):
                        if n.s.enabled(psm) == "go":
                            n.s.step(psm)
                            first = False
                        elif not n.run_one_other():
                            break
                        g += 1
                n.pump()
                for _ in range(3):
                    n.tick()
                got = [(n.classify(m), m.header.get_hop_by_hop(), m.header.get_end_to_end()) for m in n.take_sent() if n.classify(m) in ("DWA", "CEA")]
                want = [("DWA" if kind == "DWR" else "CEA",) + n.ids(i) for kind, i in seq]
                if got != want:
                    problems.append(f"answers on the wire {[(k, hex(h), hex(e)) for k, h, e in got]}, expected {[(k, hex(h), hex(e)) for k, h, e in want]}")
            except (vsched.Deadlock, vsched.StepLimit, vsched.StepHang) as e:
                problems.append(f"{type(e).__name__}: {str(e)[:200]}")
            finally:
                n.s.kill_all()
            rep.case(("back-to-back", role, str(seq)))
            if problems:
                rep.violation(f"{role}: {[k for k, _i in seq]} arriving together, answered by consecutive ticks before the transport thread runs: {problems[0]}",
                              {"kind": "back-to-back", "role": role})
                return


def answer_behind_submissions(rep):
    """The application submits messages while the state machine thread is in the middle of the tick that answers a DWR (stopped
    after k source lines of Open.run and of what it calls): the answer may be queued behind them and leave in a later batch.
    It still carries the identifiers of ITS request, and so does the answer to the next DWR (other identifiers)."""
    import bromelia.setup as bs
    from . import assoc
    saved = bs.SEND_BUFFER_MAXIMUM_SIZE
    bs.SEND_BUFFER_MAXIMUM_SIZE = LIMIT
    n_exec = 0
    try:
        for role in ("server", "client"):
            for k in range(0, 70, 1 if rep.tier == "thorough" else 2):
                n = nodemod.Node(role, seed=k)
                n.s.line_funcs = {"run", "event_open_rcv_dwr", "send_message", "create_answer", "put_message_into_send_queue", "has_send_queue_message",
                                  "has_recv_queue_message", "get_message", "event_send_message", "send_message_from_queue"}
                n.s.line_budget = 4000
                problems, finished_early = [], False
                try:
                    n.start()
                    psm, g = n.psm_thread, 0
                    while not psm.done and not n.at_ticker(psm) and g < 600:
                        n.s.step(psm)
                        g += 1
                    n.pump()
                    if role == "client":
                        n.tick()
                        n.tick()
                        n.take_sent()
                        n.inject(n.make("CEA", True, 1))
                    else:
                        n.inject(n.make("CER", True, 1))
                    n.tick()
                    n.take_sent()
                    if n.state() != "Open":
                        raise tlc.TlcError(f"answer-behind-submissions: the {role} node did not open")
                    n.inject(n.make("DWR", True, 2))
                    # the tick that answers the DWR, interrupted after k line-level steps
                    g = 0
                    psm = n.psm_thread
                    first = True
                    while g < k:
                        if not first and n.at_ticker(psm):
                            finished_early = True
                            break
                        if n.s.enabled(psm) != "go":
                            break
                        n.s.step(psm)
                        first = False
                        g += 1
                    # message sizes: the first fills the batch so that the answer queued behind it does not fit any more
                    big = APP_SIZE
                    while len(assoc.app_request(10, big + 4, local=n.local, dest_realm=n.peer[1]).dump()) <= LIMIT - 24:
                        big += 4
                    sub = n.s.spawn("sender", lambda: [n.d.send_message(assoc.app_request(10 + j, (big, APP_SIZE, 40)[(j + k // 2) % 3], local=n.local, dest_realm=n.peer[1]))
                                                       for j in range(3)])
                    n.run_others(until=lambda: sub.done)          # (as far as it gets while the state machine thread stands still)
                    for _ in range(10):
                        n.tick()
                    if not sub.done:
                        problems.append("the submitting thread did not return")
                    sent = n.take_sent()
                    dwas = [m for m in sent if n.classify(m) == "DWA"]
                    if len(dwas) != 1 or (dwas[0].header.get_hop_by_hop(), dwas[0].header.get_end_to_end()) != n.ids(2):
                        problems.append(f"first DWR (identifiers {n.ids(2)}): DWA(s) emitted with {[(m.header.hop_by_hop.hex(), m.header.end_to_end.hex()) for m in dwas]}")
                    for i in (3, 1):
                        n.inject(n.make("DWR", True, i))
                        for _ in range(3):
                            n.tick()
                        dwas = [m for m in n.take_sent() if n.classify(m) == "DWA"]
                        if len(dwas) != 1 or (dwas[0].header.get_hop_by_hop(), dwas[0].header.get_end_to_end()) != n.ids(i):
                            problems.append(f"a later DWR (identifiers {n.ids(i)}) was answered with {[(m.header.hop_by_hop.hex(), m.header.end_to_end.hex()) for m in dwas]}")
                            break
                except (vsched.Deadlock, vsched.StepLimit, vsched.StepHang) as e:
                    problems.append(f"{type(e).__name__}: {str(e)[:200]}")
                finally:
                    n.s.kill_all()
                n_exec += 1
                rep.case(("answer-behind-submissions", role, k))
                if problems:
                    rep.violation(f"{role}: three messages submitted while the tick answering a DWR was stopped after {k} source lines: {problems[0]}",
                                  {"kind": "answer-behind-submissions", "role": role, "k": k})
                    break
                if finished_early:
                    break
    finally:
        bs.SEND_BUFFER_MAXIMUM_SIZE = saved
    rep.notes["answer_behind_submissions_executions"] = n_exec


def dpr_with_followers(rep):
    """A DPR that arrives together with later messages (one segment): the DPR is answered and closes the connection; what stands
    behind it in the receive queue is neither delivered to the application nor answered, and the node reaches Closed with its
    transport released (the quick tier's graphs have a receive queue of one: this is the two-deep case of the thorough tier)."""
    for role in ("client", "server"):
        for followers in (("REQ",), ("DWR",), ("REQ", "DWR")):
            ad = PsmAdapter(role, watchdog=50)
            h = ad.fresh()
            n = h.node
            problems = []
            try:
                ad.apply(h, "Start", [False], None)
                if role == "client":
                    ad.apply(h, "Tick", [], None)
                    ad.apply(h, "Tick", [], None)
                    ad.apply(h, "Inject", [{"k": "CEA", "valid": True, "id": 1}], None)
                else:
                    ad.apply(h, "Inject", [{"k": "CER", "valid": True, "id": 1}], None)
                ad.apply(h, "Tick", [], None)
                n.take_sent()
                if n.state() != "Open":
                    raise tlc.TlcError(f"dpr-with-followers: the {role} node did not open")
                n.inject(n.make("DPR", True, 2))
                for j, k in enumerate(followers):
                    n.inject(n.make(k, True, 3 + j))
                for _ in range(4):
                    n.tick()
                sent = [(n.classify(m), n.id_of(m)) for m in n.take_sent()]
                delivered = [n.classify(m) for m in n.take_delivered()]
                if sent != [("DPA", 2)]:
                    problems.append(f"emitted {sent}, expected exactly the DPA of the DPR")
                if delivered:
                    problems.append(f"{delivered} handed to the application after the DPR")
                if n.state() != "Closed":
                    problems.append(f"state {n.state()}, expected Closed")
                elif not n.sock.closed:
                    problems.append("Closed but the socket is still open")
            except (vsched.Deadlock, vsched.StepLimit, vsched.StepHang) as e:
                problems.append(f"{type(e).__name__}: {str(e)[:200]}")
            finally:
                ad.dispose(h)
            rep.case(("dpr-with-followers", role, followers))
            if problems:
                rep.violation(f"{role}: a DPR arriving together with {list(followers)} behind it: " + "; ".join(problems[:3]), {"kind": "dpr-with-followers", "role": role})
                return


def watchdog_pacing(rep):
    """An idle open connection: one watchdog request per configured period, not more (the model's IdleReached abstracts the
    counting of selector rounds; this stage drives the real counter for several periods, the peer answering every DWR)."""
    W, rounds = 6, 25
    most = rounds // (W - 2) + 1        # selector rounds that carry the DWR / DWA themselves count towards the period too
    for role in ("client", "server"):
        ad = PsmAdapter(role, watchdog=W)
        h = ad.fresh()
        n = h.node
        try:
            ad.apply(h, "Start", [False], None)
            if role == "client":
                ad.apply(h, "Tick", [], None)
                ad.apply(h, "Tick", [], None)
                ad.apply(h, "Inject", [{"k": "CEA", "valid": True, "id": 1}], None)
            else:
                ad.apply(h, "Inject", [{"k": "CER", "valid": True, "id": 1}], None)
            ad.apply(h, "Tick", [], None)
            ad.project(h)
            if n.state() != "Open":
                raise tlc.TlcError(f"watchdog pacing: the {role} node did not open")
            ndwr = 0
            for r in range(rounds):
                n.idle_rounds(1)
                n.tick()
                for m in n.take_sent():
                    if n.classify(m) == "DWR":
                        ndwr += 1
                        dwa = n.make("DWA", True, 1)
                        dwa.header.hop_by_hop, dwa.header.end_to_end = m.header.hop_by_hop, m.header.end_to_end
                        n.inject(dwa)
                        n.tick()
            rep.case(("watchdog-pacing", role))
            if ndwr < 1 or ndwr > most:
                rep.violation(f"{role}: an idle open connection with WATCHDOG_TIMEOUT {W} emitted {ndwr} watchdog requests in {rounds} idle selector rounds "
                              f"(one per period expected: 1..{most})", {"kind": "watchdog-pacing", "role": role})
            rep.notes.setdefault("watchdog_pacing", {})[role] = {"rounds": rounds, "timeout": W, "dwr": ndwr}
        finally:
            ad.dispose(h)
