"""C02 -- decoding preserves every field on the wire and re-encodes byte-identically.

Specification: Wire.DecMsgs + the dictionary view Wire.DecodeView / ReDump (spec/Wire.tla), with the
dictionary K (key -> class name, default flags, grouped) taken from the frozen reference table.
 V: TLC builds wire images from enumerated content (1..3 concatenated messages; header flags; all
    128 values of the non-V AVP flag bits; known keys of every data type, unknown code, known code
    under an unknown vendor, unknown code under a known vendor; Grouped nesting) and computes what
    decoding must return and what re-serialising must give; the harness runs DiameterMessage.load
    and compares field by field.
 T: random streams over every dictionary class with random flag bytes, produced by a small
    generator-side encoder; the decoded projection and the re-dump are recorded and TLC validates
    them against DecodeView/ReDump of the recorded bytes (TLC decodes the bytes itself).

Known finding F-C02-reflag (deviation D_Reflag of the specification): a known AVP is re-created
from its data only, so M/P/reserved flag bits on the wire are replaced by the class defaults.  The
decoder is compared with Spec({D_Reflag}): everything else (count, order, header, code, V bit,
Vendor-ID, data, class, nesting, re-dump) is still demanded.
"""
import json
import random

from engine import vectors, tlc
from engine.report import guard
from . import dictx, wirex
from .c01 import LEAF_REPS, GROUP_REPS, rep_defs

T = tlc.tla
REFLAG = "F-C02-reflag"


def known_defs(ref):
    rows = []
    for name, e in sorted(ref.items()):
        rows.append(f'[key |-> <<{T(wirex.vend(e["vendor"]))}, {T(wirex.b4(e["code"]))}>>, name |-> {T(name)}, '
                    f'flags |-> {e["flags"]}, grouped |-> {T(e["type"] == "Grouped")}]')
    return ("KRows == {" + ",\n  ".join(rows) + "}\n"
            "K == [k \\in {r.key : r \\in KRows} |-> LET r == CHOOSE r \\in KRows : r.key = k IN "
            "[name |-> r.name, flags |-> r.flags, grouped |-> r.grouped]]\n")


GEN = r"""
DataOfLen(n) == [i \in 1..n |-> 96 + i]
StrDatas == {DataOfLen(n) : n \in {0, 1, 2, 3, 4, 7}}
W32 == {<<0,0,0,0>>, <<128,0,0,0>>, <<255,255,255,255>>, <<1,2,3,4>>}
W64 == {<<0,0,0,0,0,0,0,0>>, <<255,255,255,255,255,255,255,255>>, <<1,2,3,4,5,6,7,8>>}
AddrDatas == {<<0,1,10,0,0,1>>, <<0,2, 32,1,13,184, 0,0,0,0, 0,0,0,0, 0,0,0,1>>}
%REPS%
V(r) == IF r.vendor = <<>> THEN 0 ELSE 128
Leaf(r, f, d) == [code |-> r.code, flags |-> V(r) + f, vendor |-> r.vendor, data |-> d, members |-> <<>>, group |-> FALSE]
FewFlags(r) == {r.flags % 128, 0, 64, 32, 96, (r.flags % 128) + 1, 127}
AllFlags == 0..127
FullReps == {r \in LeafReps : r.cls \in {"ClassAVP", "AfApplicationIdentifierAVP", "ResultCodeAVP"}}
DictLeaves == UNION {{Leaf(r, f, d) : f \in FewFlags(r), d \in r.datas} : r \in LeafReps}
              \cup UNION {{Leaf(r, f, CHOOSE d \in r.datas : TRUE) : f \in AllFlags} : r \in FullReps}
\* unknown code; known code (User-Name = 1, 3GPP 1400-range) under an unknown vendor; unknown code under a known vendor
Unk == {[code |-> <<0,1,134,150>>, vendor |-> <<>>], [code |-> <<0,1,134,150>>, vendor |-> <<0,0,40,175>>],
        [code |-> <<0,0,0,1>>, vendor |-> <<0,1,134,159>>], [code |-> <<0,0,5,120>>, vendor |-> <<0,1,134,159>>],
        [code |-> <<255,255,255,255>>, vendor |-> <<255,255,255,255>>]}
GenericLeaves == {[code |-> u.code, flags |-> (IF u.vendor = <<>> THEN 0 ELSE 128) + f, vendor |-> u.vendor, data |-> DataOfLen(n),
                   members |-> <<>>, group |-> FALSE] : u \in Unk, f \in {0, 64, 32, 96, 1, 127}, n \in {0, 1, 2, 3, 4, 5}}
                 \cup {[code |-> <<0,1,134,150>>, flags |-> f, vendor |-> <<>>, data |-> DataOfLen(3), members |-> <<>>, group |-> FALSE] : f \in AllFlags}
Leaves == DictLeaves \cup GenericLeaves
Grp(g, f, ms) == [code |-> g.code, flags |-> V(g) + f, vendor |-> g.vendor, data |-> <<>>, members |-> ms, group |-> TRUE]
Few == {l \in Leaves : Len(l.data) \in {1, 3, 4} /\ (l.flags % 128) \in {0, 64, 33} /\ l.code \in {<<0,0,0,25>>, <<0,0,1,12>>, <<0,1,134,150>>, <<0,0,1,248>>}}
H0 == [version |-> 1, flags |-> 128, cmd |-> <<0,1,60>>, app |-> <<1,0,0,35>>, hbh |-> <<18,52,86,120>>, e2e |-> <<0,0,0,7>>]
B4 == {<<0,0,0,0>>, <<127,255,255,255>>, <<128,0,0,0>>, <<255,255,255,255>>}
Hdrs == {[H0 EXCEPT !.flags = x] : x \in 0..255} \cup {[H0 EXCEPT !.version = x] : x \in {0, 2, 255}}
        \cup {[H0 EXCEPT !.cmd = x] : x \in {<<0,0,0>>, <<0,1,1>>, <<255,255,255>>}}
        \cup {[H0 EXCEPT !.app = x, !.hbh = y, !.e2e = x] : x \in B4, y \in B4}
Msg(h, as) == [h |-> h, avps |-> as]
RECURSIVE Deep(_, _, _, _)
Deep(g, f, l, k) == IF k = 0 THEN l ELSE Grp(g, f, <<Deep(g, f, l, k - 1)>>)
S1 == {<<Msg(h, <<>>)>> : h \in Hdrs} \cup {<<Msg(h, <<l>>)>> : h \in {x \in Hdrs : x.flags \in {0, 64, 255}}, l \in Few}
S2 == {<<Msg(H0, <<l>>)>> : l \in Leaves}
S3 == {<<Msg(H0, <<Deep(g, f, l, k)>>)>> : g \in GroupReps, f \in {0, 64, 33}, l \in Few, k \in 1..MaxDepth}
S4 == {<<Msg(H0, <<a, b>>)>> : a \in Few, b \in Few} \cup {<<Msg(H0, <<Grp(g, g.flags % 128, <<a, b>>), b>>)>> : g \in GroupReps, a \in Few, b \in Few}
M1 == Msg(H0, <<CHOOSE l \in Few : TRUE>>)
S5 == {<<Msg(h, <<a>>), M1>> : h \in {x \in Hdrs : x.flags \in {0, 255}}, a \in Few}
      \cup {<<M1, Msg(H0, <<a, b>>), Msg(H0, <<>>)>> : a \in Few, b \in Few}
      \cup {<<Msg(H0, <<>>), Msg(H0, <<>>), Msg(H0, <<a>>)>> : a \in Few}
\* a Grouped class with mandatory members: Vendor-Specific-Application-Id {Vendor-Id, Auth-Application-Id}
VSAI(f1, f2, f3) == [code |-> <<0,0,1,4>>, flags |-> f1, vendor |-> <<>>, data |-> <<>>, group |-> TRUE,
                     members |-> <<[code |-> <<0,0,1,10>>, flags |-> f2, vendor |-> <<>>, data |-> <<0,0,40,175>>, members |-> <<>>, group |-> FALSE],
                                   [code |-> <<0,0,1,2>>, flags |-> f3, vendor |-> <<>>, data |-> <<1,0,0,35>>, members |-> <<>>, group |-> FALSE]>>]
S6 == {<<Msg(H0, <<VSAI(f1, f2, f3)>>)>> : f1 \in {64, 0, 96}, f2 \in {64, 0, 32}, f3 \in {64, 0}}
All == S1 \cup S2 \cup S3 \cup S4 \cup S5 \cup S6
Vec(ms) == LET b == EncMsgs(ms) IN [bytes |-> b, view |-> DecodeView(b, K, Dev, 8), redump |-> ReDump(b, K, Dev, 8)]
Vecs == SetToSeq({Vec(ms) : ms \in All})
"""

THEOREMS = [
    "\\A ms \\in All : WellFormed(EncMsgs(ms))",
    "\\A ms \\in All : ThmReDumpIdentity(EncMsgs(ms), K, 8)",                      # Spec({}) satisfies C02
    "\\A ms \\in S2 \\cup S4 : DecMsgs(EncMsgs(ms)).val = [i \\in 1..Len(ms) |-> FlattenMsg(ms[i])]",
]


def norm(a):
    return {"code": list(a["code"]), "flags": a["flags"], "vendor": list(a["vendor"]), "data": list(a["data"]),
            "group": a["group"], "cls": a["cls"], "members": [norm(m) for m in a["members"]]}


def diff_view(exp, got, path="msg"):
    """first difference between the specification's view and the projection of the decoded objects"""
    if len(exp) != len(got):
        return f"{path}: {len(got)} message(s) decoded, {len(exp)} on the wire"
    for i, (e, g) in enumerate(zip(exp, got)):
        if g["h"] != e["h"]:
            return f"{path}[{i}] header {g['h']} on the wire {e['h']}"
        d = diff_avps(e["avps"], g["avps"], f"{path}[{i}].avps")
        if d:
            return d
    return None


def diff_avps(exp, got, path):
    if len(exp) != len(got):
        return f"{path}: {len(got)} AVP(s) decoded, {len(exp)} on the wire"
    for j, (e, g) in enumerate(zip(exp, got)):
        for k in ("code", "vendor", "flags", "cls", "group", "data"):
            if e[k] != g[k]:
                return f"{path}[{j}].{k}: decoded {g[k]!r}, specification {e[k]!r} (AVP {e['cls']} code {int.from_bytes(bytes(e['code']), 'big')})"
        d = diff_avps(e["members"], g["members"], f"{path}[{j}].members")
        if d:
            return d
    return None


def decode_and_project(raw):
    from bromelia.base import DiameterMessage
    with guard(20, "load"):
        msgs = DiameterMessage.load(bytes(raw))
    proj = [{"h": wirex.abstract_header(m.header), "avps": [norm(wirex.project_avp(a)) for a in m.avps]} for m in msgs]
    redump = b"".join(m.dump() for m in msgs)
    return proj, redump


def check_vector(rep, v, replay):
    exp = [{"h": m["h"], "avps": [norm(a) for a in m["avps"]]} for m in v["view"]]
    try:
        got, redump = decode_and_project(v["bytes"])
    except BaseException as e:
        rep.violation(f"decoding a well-formed stream raised {type(e).__name__}: {e} ({bytes(v['bytes']).hex()[:160]})", replay)
        return False
    d = diff_view(exp, got)
    if d:
        rep.violation(f"{d}; stream {bytes(v['bytes']).hex()[:200]}", replay)
        return False
    if redump != bytes(v["redump"]):
        rep.violation(f"re-serialising the decoded message(s) gives {redump.hex()[:200]}, specification {bytes(v['redump']).hex()[:200]}", replay)
        return False
    return True


# ---- generator-side encoder for T (TLC re-decodes the bytes itself; a malformed stream is a harness bug)
def enc_avp(a):
    data = b"".join(enc_avp(m) for m in a["members"]) if a["group"] else bytes(a["data"])
    hl = 12 if a["vendor"] else 8
    out = bytes(a["code"]) + bytes([a["flags"]]) + (hl + len(data)).to_bytes(3, "big") + bytes(a["vendor"]) + data
    return out + bytes((4 - len(data) % 4) % 4)


def enc_msg(m):
    body = b"".join(enc_avp(a) for a in m["avps"])
    h = m["h"]
    return bytes([h["version"]]) + (20 + len(body)).to_bytes(3, "big") + bytes([h["flags"]]) + bytes(h["cmd"]) + \
        bytes(h["app"]) + bytes(h["hbh"]) + bytes(h["e2e"]) + body


def randomize_flags(a, rng, p):
    if rng.random() < p:
        a["flags"] = (a["flags"] & 0x80) | rng.choice([0, 0x40, 0x20, 0x60, rng.getrandbits(7)])
    for m in a["members"]:
        randomize_flags(m, rng, p)


PURITY_STREAM_A = None


def _stream(kind):
    """a well-formed stream with dictionary AVPs of several vendors, a Grouped AVP and an unknown AVP (built with the harness's own
    tiny encoder, checked against the specification by the T stage)"""
    def a(code, flags, data=b"", vendor=None, members=None):
        return {"code": code.to_bytes(4, "big"), "flags": flags | (0x80 if vendor is not None else 0), "vendor": vendor.to_bytes(4, "big") if vendor is not None else b"",
                "data": data, "members": members or [], "group": members is not None}
    oh = a(264, 0x40, b"host.example")
    orr = a(296, 0x40, b"example")
    un = a(1, 0x40, b"user@example")
    vsa = a(260, 0x40, members=[a(266, 0x40, (10415).to_bytes(4, "big")), a(258, 0x40, (16777251).to_bytes(4, "big"))])
    ulr = a(1405, 0x40, (34).to_bytes(4, "big"), 10415)
    unk = a(9999, 0x00, b"abc", 4242)
    avps = {"a": [oh, orr, un, vsa, ulr, unk], "b": [un, unk, vsa, orr, oh, ulr, a(268, 0x40, (2001).to_bytes(4, "big"))],
            "a2": [oh, ulr], "b2": [un, unk, orr]}[kind]
    return enc_msg({"h": {"version": 1, "flags": 0x80 if kind.startswith("a") else 0x00, "cmd": (316).to_bytes(3, "big"), "app": (16777251).to_bytes(4, "big"),
                          "hbh": (7).to_bytes(4, "big"), "e2e": (9).to_bytes(4, "big")}, "avps": avps})


def _decode_job(raw):
    def job():
        from bromelia.base import DiameterMessage
        msgs = DiameterMessage.load(bytes(raw))          # (no signal-based guard: this runs in a scheduler thread)
        proj = [{"h": wirex.abstract_header(m.header), "avps": [norm(wirex.project_avp(a)) for a in m.avps]} for m in msgs]
        return [proj, b"".join(m.dump() for m in msgs).hex()]
    return job


def purity(rep):
    """two threads decoding at the same time (the class registry is rebuilt by the look-up itself)"""
    from engine import concur
    try:
        ra, rb = _stream("a"), _stream("b")
    except Exception as e:
        raise RuntimeError(f"harness: cannot build the purity streams: {e}")
    pairs = [("two streams decoded at the same time", _decode_job(ra), _decode_job(rb))]
    small = [("two short streams decoded at the same time", _decode_job(_stream("a2")), _decode_job(_stream("b2")))]
    return concur.purity_stage(rep, "the decoder", pairs, ("/bromelia/base.py",), kmax=4000, stride=97 if rep.tier == "quick" else 5,
                               pct=40 if rep.tier == "quick" else 400, pct_pairs=small)


MALFORMED_IN_GROUPED = [
    # Vendor-Specific-Application-Id whose member claims more octets than the group holds
    "000001044000001500000102400000ff00",
    # Experimental-Result with a truncated member header
    "00000129400000100000012a40000000",
    # Vendor-Specific-Application-Id, member Vendor-Id of 5 octets (wrong width)
    "0000010440000018" + "0000010a4000000d0000000001000000",
    # Failed-AVP holding an Auth-Session-State with an unknown enumerator
    "0000011740000014" + "000001154000000c00000063",
]


def after_failures(rep, vecs):
    """the decoder must not depend on what it REFUSED before either: many streams that fail inside a Grouped AVP, then the
    well-formed vectors again"""
    from bromelia.base import DiameterMessage

    def wrap(body):
        return bytes([1]) + (20 + len(body)).to_bytes(3, "big") + bytes([0x80]) + (316).to_bytes(3, "big") + (16777251).to_bytes(4, "big") + bytes(8) + body
    refused = 0
    for rnd in range(3):
        for i in range(45):
            body = bytes.fromhex(MALFORMED_IN_GROUPED[i % len(MALFORMED_IN_GROUPED)])
            if rnd == 2:
                # nested: the failing Grouped AVP inside two more levels of Failed-AVP
                for _ in range(2):
                    body = (279).to_bytes(4, "big") + b"\x40" + (8 + len(body)).to_bytes(3, "big") + body
            try:
                with guard(20, "load"):
                    DiameterMessage.load(wrap(body + bytes(-len(body) % 4)))
            except BaseException:
                refused += 1
        sel = [v for v in vecs if any(a.get("members") for m in v["view"] for a in m["avps"])][:60] or vecs[:60]
        for v in sel:
            rep.case(("after-failures", rnd, bytes(v["bytes"])))
            before = len(rep.violations)
            check_vector(rep, v, {"kind": "stream-after-failures", "bytes": bytes(v["bytes"]).hex(), "round": rnd})
            if len(rep.violations) > before:
                rep.violations[-1]["what"] = f"after {45 * (rnd + 1)} refused streams (failures inside Grouped AVPs): " + rep.violations[-1]["what"]
                return
    rep.notes["refused_streams_before_second_pass"] = refused


def mutation_isolation(rep, vecs):
    """what the application does with the objects of one decode does not reach a later decode: AVPs of a decoded message are changed
    in place (data, P bit), then the same stream is decoded again and compared with the specification"""
    from bromelia.base import DiameterMessage

    def mutate(avps, depth=0):
        for a in avps:
            try:
                if isinstance(a.data, bytes) and a.data and not hasattr(a, "avps"):
                    a.data = bytes((b ^ 0x01) if 48 <= b < 58 or 97 <= b < 123 else b for b in a.data)
            except BaseException:
                pass
            try:
                a.set_protected_bit(not a.is_protected())
            except BaseException:
                pass
            inner = getattr(a, "avps", None)
            if inner and depth < 3:
                mutate(inner, depth + 1)
    sel = vecs[::max(1, len(vecs) // 150)][:150]
    for v in sel:
        rep.case(("mutation-isolation", bytes(v["bytes"])))
        try:
            with guard(20, "load"):
                for m in DiameterMessage.load(bytes(v["bytes"])):
                    mutate(m.avps)
        except BaseException:
            continue
        before = len(rep.violations)
        check_vector(rep, v, {"kind": "stream-after-mutation", "bytes": bytes(v["bytes"]).hex()})
        if len(rep.violations) > before:
            rep.violations[-1]["what"] = "after the AVP objects of an earlier decode of the same stream were changed in place: " + rep.violations[-1]["what"]
            return


def empty_data(rep, ref):
    """every string-typed dictionary AVP with zero octets of data (legal on the wire): when the stream is decoded, the AVP comes back
    with no data and the message re-encodes to the bytes received (a refusal is counted, not judged: C10's dispatch table does that)"""
    from bromelia.base import DiameterMessage
    refused = 0
    for name, e in sorted(ref.items()):
        if e["type"].replace("Type", "") not in ("OctetString", "UTF8String", "DiameterIdentity"):
            continue
        avp = e["code"].to_bytes(4, "big") + bytes([e["flags"]]) + (12 if e["vendor"] is not None else 8).to_bytes(3, "big") + \
            (e["vendor"].to_bytes(4, "big") if e["vendor"] is not None else b"")
        tail = (264).to_bytes(4, "big") + b"\x40" + (11).to_bytes(3, "big") + b"h.e" + b"\x00"
        raw = bytes([1]) + (20 + len(avp) + len(tail)).to_bytes(3, "big") + bytes([0x80]) + (316).to_bytes(3, "big") + (16777251).to_bytes(4, "big") + bytes(8) + avp + tail
        rep.case(("empty-data", name))
        try:
            with guard(20, "load"):
                msgs = DiameterMessage.load(raw)
        except BaseException:
            refused += 1
            continue
        replay = {"kind": "stream", "bytes": raw.hex()}
        if len(msgs) != 1 or len(msgs[0].avps) != 2:
            rep.violation(f"a message carrying {name} with zero octets of data decodes to {len(msgs)} message(s) / {len(msgs[0].avps) if msgs else 0} AVPs", replay)
            continue
        a = msgs[0].avps[0]
        if a.data not in (b"", None) or msgs[0].dump() != raw:
            rep.violation(f"{name} received with zero octets of data comes back with data {a.data!r}; the decoded message re-encodes to {len(msgs[0].dump())} bytes, "
                          f"{len(raw)} were received", replay)
    rep.notes["empty_data_avps_refused"] = refused


def run(rep):
    purity(rep)
    ref = wirex.ref_dictionary()
    empty_data(rep, ref)
    dev = "{\"D_Reflag\"}" if any(f["id"] == REFLAG for f in rep.findings) else "{}"
    rep.notes["specification_deviations_enabled"] = dev
    maxdepth = 2 if rep.tier == "quick" else 3
    rep.rule = ("V: TLC-built wire images (header flags 0..255, AVP non-V flag bits 0..127 on 4 shapes, 7 flag values on every "
                "representative of every data type, unknown code / foreign vendor / unknown code under 3GPP, Grouped nesting, "
                "1..3 messages per stream) decoded and compared field by field + re-dump; T: random streams over all dictionary "
                "classes with random flags, validated by TLC (which decodes the bytes itself). distinct = distinct streams")
    defs = "Dev == " + dev + "\n" + known_defs(ref) + GEN.replace("%REPS%", rep_defs(ref)).replace("MaxDepth", str(maxdepth))
    thms = list(THEOREMS)
    if dev != "{}":
        thms.append("\\E ms \\in All : ReDump(EncMsgs(ms), K, Dev, 8) # EncMsgs(ms)")     # the deviation breaks the property
    vecs, res = vectors.gen("Gen_Decode", ["Wire"], defs, "Vecs", theorems=thms, java_opts=("-Xmx8g",), timeout=1500)
    rep.tlc("Gen_Decode", res)
    reflag_seen = 0
    for k, v in enumerate(vecs):
        rep.case(bytes(v["bytes"]))
        check_vector(rep, v, {"kind": "stream", "bytes": bytes(v["bytes"]).hex()})
        if v["redump"] != v["bytes"]:
            reflag_seen += 1
        if len(rep.violations) >= 40:
            break
    if len(rep.violations) < 40:
        after_failures(rep, vecs)
    if len(rep.violations) < 40:
        mutation_isolation(rep, vecs)
    # the decoder must not depend on what it decoded before: second pass in reverse order
    if not rep.violations:
        for k, v in reversed(list(enumerate(vecs))):
            if rep.tier == "quick" and k % 2:
                continue
            rep.case(("second pass", k))
            check_vector(rep, v, {"kind": "stream", "bytes": bytes(v["bytes"]).hex(), "note": "second pass, reverse order"})
            if len(rep.violations) >= 10:
                break
    rep.notes["vectors"] = len(vecs)
    rep.notes["vectors_where_known_deviation_changes_the_expected_result"] = reflag_seen
    rep.sample({"vector": {"bytes": bytes(vecs[len(vecs) // 2]["bytes"]).hex(), "view": vecs[len(vecs) // 2]["view"]}})

    # ---- known finding witness: User-Name received with flags 0x00 comes back 0x40
    if dev != "{}":
        from bromelia.base import DiameterMessage
        w = bytes.fromhex("010000208000013c0100002312345678000000070000000100000009" + "61000000")
        w = bytes.fromhex("01000020" + "8000013c" + "01000023" + "12345678" + "00000007" + "00000001" + "00000009" + "61000000")
        try:
            m = DiameterMessage.load(w)[0]
            if m.avps[0].flags == b"\x40" and m.dump() != w:
                rep.known(REFLAG, "User-Name received with AVP flags 0x00 is returned with the class default 0x40 and re-serialises "
                                  "differently (known AVPs are re-created from their data only; 5 suite tests assert the re-flagging)")
            else:
                rep.notes["reflag_witness"] = "no longer reproduces -- remove F-C02-reflag from known_findings.json"
        except BaseException as e:
            rep.notes["reflag_witness"] = f"raised {type(e).__name__}"

    # ---- T
    rng = random.Random(rep.seed * 7919 + 2)
    n = 1200 if rep.tier == "quick" else 40000
    descs = [d for d in dictx.descriptors() if d.name in ref]
    known_keys = {(e["vendor"], e["code"]) for e in ref.values()}
    recs, meta = [], []
    for i in range(n):
        msgs = []
        for _ in range(rng.choice([1, 1, 1, 2, 3])):
            specs = []
            for _k in range(rng.randint(0, 4)):
                try:
                    if rng.random() < 0.8:
                        d = descs[(i * 3 + len(specs)) % len(descs)] if rng.random() < 0.6 else rng.choice(descs)
                        _o, s = dictx.make_avp(d, rng, length=rng.choice([None, 1, 2, 3, 4, 5, 8]))
                    elif rng.random() < 0.5:
                        _o, s = dictx.make_generic(rng, length=rng.choice([0, 1, 2, 3, 4, 7]))
                    else:
                        # a dictionary code under a foreign vendor / without its vendor: stays a generic AVP
                        d = rng.choice(descs)
                        vendor = rng.choice([99999, 13020, 4294967295]) if (d.vendor is None or rng.random() < 0.6) else None
                        if (vendor, d.code) in known_keys:
                            continue
                        _o, s = dictx.make_generic(rng, code=d.code, vendor=vendor, length=rng.choice([0, 1, 3, 4, 8]))
                    specs.append(s)
                except BaseException:
                    continue
            avps = [wirex.abstract_from_spec(s, ref) for s in specs]
            for a in avps:
                randomize_flags(a, rng, 0.5)
            msgs.append({"h": {"version": rng.choice([1, 1, 0, 255]), "flags": rng.getrandbits(8), "cmd": list(rng.getrandbits(24).to_bytes(3, "big")),
                               "app": wirex.b4(rng.getrandbits(32)), "hbh": wirex.b4(rng.getrandbits(32)), "e2e": wirex.b4(rng.getrandbits(32))},
                         "avps": avps, "classes": [s.get("cls") for s in specs]})
        raw = b"".join(enc_msg(m) for m in msgs)
        try:
            proj, redump = decode_and_project(raw)
            recs.append({"bytes": list(raw), "ok": True, "view": proj, "redump": list(redump)})
        except BaseException as e:
            recs.append({"bytes": list(raw), "ok": False, "view": [], "redump": [], })
            meta.append({"kind": "stream", "bytes": raw.hex(), "classes": [m["classes"] for m in msgs], "error": f"{type(e).__name__}: {e}"})
            rep.case(raw)
            continue
        meta.append({"kind": "stream", "bytes": raw.hex(), "classes": [m["classes"] for m in msgs]})
        rep.case(raw)
    tdefs = "Dev == " + dev + "\n" + known_defs(ref)
    ok_expr = "WellFormed(r.bytes) /\\ r.ok /\\ r.view = DecodeView(r.bytes, K, Dev, 8) /\\ r.redump = ReDump(r.bytes, K, Dev, 8)"
    bad, res = vectors.validate("Trace_Decode", ["Wire"], tdefs, recs, ok_expr, java_opts=("-Xmx8g",), timeout=1500)
    rep.tlc("Trace_Decode", res)
    rep.traces_validated += len(recs)
    for i in bad[:12]:
        # re-derive the first differing field with a single-stream vector so that the message is useful
        rep.violation(f"TLC rejects the recorded decode of a well-formed stream carrying {meta[i]['classes']}"
                      f"{' (load raised ' + meta[i]['error'] + ')' if 'error' in meta[i] else ''}: {meta[i]['bytes'][:200]}",
                      {"kind": "stream", "bytes": meta[i]["bytes"]})
    rep.sample({"trace_record": {"bytes": meta[0]["bytes"], "classes": meta[0]["classes"]}})
    rep.notes["classes_covered_T"] = len({c for m in meta for cl in m["classes"] for c in cl if c})
    rep.assumptions += ["the dictionary K (key -> class, default flags, grouped) is the frozen reference table",
                        "in-domain data only (wrong-width typed data and unknown enumerators belong to C03/C10)",
                        "V flag with Vendor-ID 0 is not produced (not a conformant peer)"]


def replay(rep, path):
    r = json.load(open(path))["replay"]
    if r.get("kind") == "purity":
        purity(rep)
        rep.sample(r)
        return rep.finish()
    ref = wirex.ref_dictionary()
    dev = "{\"D_Reflag\"}" if any(f["id"] == REFLAG for f in rep.findings) else "{}"
    raw = list(bytes.fromhex(r["bytes"]))
    defs = "Dev == " + dev + "\n" + known_defs(ref) + f"B == {T(raw)}\nV == <<[bytes |-> B, view |-> DecodeView(B, K, Dev, 8), redump |-> ReDump(B, K, Dev, 8), wf |-> WellFormed(B)]>>"
    vec, res = vectors.gen("Gen_replay", ["Wire"], defs, "V")
    rep.tlc("Gen_replay", res)
    rep.case(r["bytes"])
    if not vec[0]["wf"]:
        rep.notes["replay"] = "stream is not well-formed according to the specification"
    else:
        check_vector(rep, vec[0], r)
    rep.sample(r)
    return rep.finish()
