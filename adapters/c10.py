"""C10 -- the AVP dictionary is unambiguous and every class enforces its declared type.

C10a (spec/Dict.tla): the dictionary tables -- read from the working tree (class attributes and a
     default-constructed instance), the frozen reference, docs/list-of-avps.md, bromelia/definitions.py
     and the decode dispatch of every class -- are handed to TLC, which evaluates the table
     invariants (function-ness of (vendor, code), V flag <=> vendor, agreement between the tables,
     dispatch) and returns the offending rows.
C10b (spec/Types.tla Construct_*): TLC enumerates in-domain boundaries and out-of-domain values per data
     type and computes Accept(data) / Reject; every vector is applied to EVERY class of that type.
     Accept => the AVP carries exactly that data and serialises to a well-formed encoding;
     Reject => an exception, never a silently malformed or empty AVP.
 T:  seeded random values per class (inside and outside the domain) recorded and validated by TLC.
"""
import datetime
import importlib
import json
import os
import random
import re

from engine import vectors, tlc
from engine.report import guard, REPO
from . import dictx, wirex
from .c02 import enc_avp

T = tlc.tla
DOC_TYPE = {"IPFilterRule": "OctetString"}         # derived types map to their base (RFC 6733 4.3.1)


def norm_name(s):
    return re.sub(r"[^a-z0-9]", "", s.lower())


def tables(rep):
    ref = wirex.ref_dictionary()
    descs = dictx.descriptors()
    rng = random.Random(7)
    tree, dispatch, inst_err = [], [], []
    from bromelia.base import DiameterAVP
    for d in descs:
        try:
            avp, _ = dictx.make_avp(d, rng)
        except BaseException as e:
            inst_err.append((d.name, f"{type(e).__name__}: {e}"))
            continue
        row = {"name": d.name, "code": d.code if isinstance(d.code, int) else -1,
               "vendor": d.vendor if d.vendor is not None else -1, "type": (d.type or "").replace("Type", ""),
               "flags": avp.get_flags(), "src": "tree"}
        inst_code = int.from_bytes(avp.code, "big") if isinstance(avp.code, bytes) else -1
        inst_vendor = int.from_bytes(avp.vendor_id, "big") if isinstance(avp.vendor_id, bytes) else -1
        if inst_code != row["code"] or inst_vendor != row["vendor"]:
            row["code"], row["vendor"] = inst_code, inst_vendor           # what instances really carry
            row["src"] = "tree-instance-differs-from-class"
        tree.append(row)
        try:
            back = DiameterAVP.load(avp.dump())
            to = type(back[0]).__name__ if len(back) == 1 else f"{len(back)} AVPs"
        except BaseException as e:
            to = f"raised {type(e).__name__}"
        dispatch.append({"name": d.name, "to": to, "want": d.name})
        # the same code under a Vendor-ID for which nothing is defined: nobody's AVP, it stays generic
        e0 = ref.get(d.name)
        if e0:
            for fv in (9, 193, 4294967295):
                wire = e0["code"].to_bytes(4, "big") + bytes([0x80]) + (16).to_bytes(3, "big") + fv.to_bytes(4, "big") + b"\x00\x00\x00\x01"
                try:
                    back = DiameterAVP.load(wire)
                    to = type(back[0]).__name__ if len(back) == 1 else f"{len(back)} AVPs"
                except BaseException as ex:
                    to = f"raised {type(ex).__name__}"
                dispatch.append({"name": f"{d.name}'s code under the undefined vendor {fv}", "to": to, "want": "DiameterAVP", "foreign": fv})
        # the same (vendor, code) arriving with zero data octets: dispatched to the class (where the empty value
        # is in the type's domain) or rejected -- never handed back as some other / generic AVP
        e = ref.get(d.name)
        if e:
            hdr = e["code"].to_bytes(4, "big") + bytes([e["flags"]]) + (12 if e["vendor"] is not None else 8).to_bytes(3, "big") + \
                (e["vendor"].to_bytes(4, "big") if e["vendor"] is not None else b"")
            empty_ok = d.type in ("OctetStringType", "UTF8StringType", "DiameterIdentityType") and not hasattr(d.cls, "encode") \
                or (d.type == "GroupedType" and not e.get("mandatory"))
            try:
                back = DiameterAVP.load(hdr)
                to = type(back[0]).__name__ if len(back) == 1 else f"{len(back)} AVPs"
                if len(back) == 1 and back[0].data not in (b"", None) and back[0].dump() != hdr:
                    to += f" carrying {back[0].data!r} that is not on the wire"
            except BaseException as ex:
                to = d.name if not empty_ok else f"raised {type(ex).__name__}"
            dispatch.append({"name": d.name, "to": to, "want": d.name, "empty": True})
    refrows = [{"name": n, "code": e["code"], "vendor": e["vendor"] if e["vendor"] is not None else -1,
                "type": e["type"], "flags": e["flags"], "src": "ref"} for n, e in ref.items()]
    docs = []
    for line in open(os.path.join(REPO, "docs", "list-of-avps.md")):
        m = re.match(r"\|\d+\|`([^`]+)`\|(\d+)\|(\w+)\|([^|]*)\|([^|]*)\|[^|]*\|(\w+)", line)
        if m:
            docs.append({"name": m.group(6), "code": int(m.group(2)), "vendor": 0, "type": DOC_TYPE.get(m.group(3), m.group(3)),
                         "flags": 0, "src": "docs", "published": m.group(1)})
    defs = importlib.import_module("bromelia.definitions")
    iana_by_name = {norm_name(a["name"]): a["id"] for a in defs.diameter_avps}
    iana = []
    for n, e in ref.items():
        pub = e.get("published", {}).get("name")
        if e["vendor"] is None and pub and norm_name(pub) in iana_by_name:
            iana.append({"name": n, "code": iana_by_name[norm_name(pub)], "vendor": -1, "type": e["type"], "flags": 0, "src": "iana"})
    return tree, refrows, docs, iana, dispatch, inst_err


def rows_tla(rows, fields=("name", "code", "vendor", "type", "flags", "src")):
    return "{" + ",\n ".join("[" + ", ".join(f"{k} |-> {T(r[k])}" for k in fields) + "]" for r in rows) + "}"


def check_tables(rep):
    tree, ref, docs, iana, dispatch, inst_err = tables(rep)
    for name, err in inst_err:
        rep.violation(f"{name}: no instance can be built from an in-domain value: {err}", {"kind": "table", "cls": name})
    defs = (f"Tree == {rows_tla(tree)}\nRef == {rows_tla(ref)}\nDocs == {rows_tla(docs)}\nIana == {rows_tla(iana)}\n"
            f"Disp == {rows_tla(dispatch, ('name', 'to', 'want'))}\n"
            "Out == [collisions |-> SetToSeq(Collisions(Tree)), vflag |-> SetToSeq(VFlagBad(Tree)), "
            "ref |-> SetToSeq(Disagree(Tree, Ref)), missing |-> SetToSeq(Missing(Ref, Tree)), "
            "docs |-> SetToSeq(DisagreeCodeType(Docs, Tree)), iana |-> SetToSeq(DisagreeCode(Iana, Tree)), "
            "dispatch |-> SetToSeq(DispatchBad(Disp)), function |-> IsFunction(Tree), "
            "sizes |-> <<Cardinality(Tree), Cardinality(Ref), Cardinality(Docs), Cardinality(Iana), Cardinality(Disp)>>]\n")
    out, res = vectors.gen("Gen_Dict", ["Dict"], defs, "<<Out>>",
                           theorems=["IsFunction(Ref) /\\ VFlagRule(Ref)"], java_opts=("-Xmx4g",))   # the reference itself is sane
    rep.tlc("Gen_Dict", res)
    o = out[0]
    rep.notes["tables"] = dict(zip(("tree", "ref", "docs", "iana", "dispatch"), o["sizes"]))
    bytree = {r["name"]: r for r in tree}
    byref = {r["name"]: r for r in ref}
    bydocs = {r["name"]: r for r in docs}
    byiana = {r["name"]: r for r in iana}
    bydisp = {}
    for r in dispatch:
        if r["want"] != r["to"] or r["name"] not in bydisp:
            bydisp[r["name"]] = r
    for pair in o["collisions"]:
        a, b = pair
        if a < b:
            rep.violation(f"two different AVP definitions share (vendor, code) = ({bytree[a]['vendor']}, {bytree[a]['code']}): {a} and {b}",
                          {"kind": "table", "cls": a, "other": b})
    for n in o["vflag"]:
        rep.violation(f"{n}: V flag of a default instance ({bytree[n]['flags']:#x}) does not agree with vendor {bytree[n]['vendor']}", {"kind": "table", "cls": n})
    for n in o["ref"]:
        rep.violation(f"{n}: wire identity {({k: bytree[n][k] for k in ('code', 'vendor', 'type', 'flags')})} differs from the reference dictionary "
                      f"{({k: byref[n][k] for k in ('code', 'vendor', 'type', 'flags')})}", {"kind": "table", "cls": n})
    for n in o["missing"]:
        rep.violation(f"{n}: dictionary class of the reference table no longer exists", {"kind": "table", "cls": n})
    for n in o["docs"]:
        rep.violation(f"{n}: docs/list-of-avps.md publishes {bydocs[n]['published']} as code {bydocs[n]['code']} type {bydocs[n]['type']}, "
                      f"the class has code {bytree[n]['code']} type {bytree[n]['type']}", {"kind": "table", "cls": n, "table": "docs"})
    for n in o["iana"]:
        rep.violation(f"{n}: bromelia/definitions.py lists code {byiana[n]['code']}, the class has {bytree[n]['code']}", {"kind": "table", "cls": n, "table": "iana"})
    for n in o["dispatch"]:
        rep.violation(f"{n}: decoding {'its (vendor, code) with zero data octets' if bydisp[n].get('empty') else 'it' if bydisp[n].get('foreign') else 'a dumped instance'} "
                      f"gives {bydisp[n]['to']}" + (" instead of a generic AVP" if bydisp[n].get("foreign") else ""), {"kind": "table", "cls": n})
    rep.case(("tables",), n=len(tree))
    rep.sample({"tree_row": tree[0], "docs_row": docs[0]})


# ------------------------------------------------------------------------------------------- C10b

CONSTRUCT_DEFS = r"""
DataOfLen(n) == [i \in 1..n |-> 64 + i]
BytesIn == {[py |-> "bytes", b |-> DataOfLen(n)] : n \in 0..9} \cup {[py |-> "bytes", b |-> x] : x \in {<<0,0,0,0>>, <<255,255,255,255>>, <<0,0,0,0,0,0,0,0>>, <<255,255,255,255,255,255,255,255>>}}
Mags == {<<>>, <<1>>, <<127,255,255,255>>, <<128,0,0,0>>, <<255,255,255,255>>, <<1,0,0,0,0>>,
         <<127,255,255,255,255,255,255,255>>, <<128,0,0,0,0,0,0,0>>, <<255,255,255,255,255,255,255,255>>, <<1,0,0,0,0,0,0,0,0>>}
IntsIn == {[py |-> "int", neg |-> FALSE, mag |-> m] : m \in Mags} \cup {[py |-> "int", neg |-> TRUE, mag |-> m] : m \in {<<1>>, <<128,0,0,0>>, <<128,0,0,0,0,0,0,0>>}}
Others == {[py |-> "none"], [py |-> "float"], [py |-> "list"], [py |-> "str", s |-> <<97,98,99>>], [py |-> "str", s |-> <<>>]}
DatesIn == {[py |-> "datetime", days |-> d, secs |-> s] : d \in {-1, 0, 1, 24855, 49710, 49711, 60000}, s \in {0, 11648, 23295, 23296, 86399}}
AddrBytes == {[py |-> "bytes", b |-> <<0, f>> \o DataOfLen(n)] : f \in {0, 1, 2, 3, 8}, n \in {0, 3, 4, 5, 15, 16, 17}}
             \cup {[py |-> "bytes", b |-> DataOfLen(n)] : n \in {0, 1, 2}}
AddrLits == {[py |-> "literal", fam |-> 4, packed |-> <<10,0,0,1>>], [py |-> "literal", fam |-> 6, packed |-> <<32,1,13,184,0,0,0,0,0,0,0,0,0,0,0,1>>]}
Universe == BytesIn \cup IntsIn \cup Others
Vec(t, v, out) == [type |-> t, v |-> v, out |-> out]
Vecs == SetToSeq( {Vec("Unsigned32", v, ConstructU32(v)) : v \in Universe}
             \cup {Vec("Unsigned64", v, ConstructU64(v)) : v \in Universe}
             \cup {Vec("Integer32", v, ConstructI32(v)) : v \in BytesIn \cup Others}
             \cup {Vec("Time", v, ConstructTime(v)) : v \in BytesIn \cup Others \cup DatesIn}
             \cup {Vec("Address", v, ConstructAddr(v)) : v \in AddrBytes \cup AddrLits \cup (Others \ {[py |-> "str", s |-> <<97,98,99>>], [py |-> "str", s |-> <<>>]})}
             \cup {Vec("String", v, ConstructStr(v)) : v \in BytesIn \cup Others \cup {[py |-> "int", neg |-> FALSE, mag |-> <<1>>]}} )
"""


def concretise(v):
    py = v["py"]
    if py == "bytes":
        return bytes(v["b"])
    if py == "int":
        n = int.from_bytes(bytes(v["mag"]), "big")
        return -n if v["neg"] else n
    if py == "str":
        return bytes(v["s"]).decode()
    if py == "none":
        return None
    if py == "float":
        return 1.5
    if py == "list":
        return []
    if py == "datetime":
        return datetime.datetime(1900, 1, 1) + datetime.timedelta(days=v["days"], seconds=v["secs"])
    if py == "literal":
        import ipaddress
        return str(ipaddress.ip_address(bytes(v["packed"])))
    raise AssertionError(py)


def outcome(cls, arg):
    try:
        with guard(5, cls.__name__):
            return "ok", cls(arg)
    except BaseException as e:
        return "exc", e


def judge(d, ref, arg, exp, got, literal_data=True):
    """exp: spec outcome {ok, v}; got: (kind, avp|exception). Returns problem text or None."""
    kind, val = got
    if not exp["ok"]:
        if kind == "ok":
            data = val.data
            return (f"{d.name}({arg!r}) is outside the {d.type[:-4]} domain but was accepted: data {data.hex() if isinstance(data, bytes) else data!r}, "
                    f"dump {val.dump().hex()}")
        return None
    if kind != "ok":
        # the statement allows "fails with an exception" for any value; a rejected in-domain value is
        # recorded as a non-property difference here (C01/C09 demand that in-domain values build)
        return ("nonprop", f"{d.name}({arg!r}) is in the {d.type[:-4]} domain but raised {type(val).__name__}: {val}")
    if not literal_data:
        return None if isinstance(val.data, bytes) and val.data else f"{d.name}({arg!r}) built an AVP without data"
    want = bytes(exp["v"])
    if val.data != want and not (want == b"" and not val.data):
        return f"{d.name}({arg!r}).data = {val.data.hex() if isinstance(val.data, bytes) else val.data!r}, specification {want.hex()}"
    e = ref.get(d.name)
    if e:
        a = {"code": wirex.b4(e["code"]), "flags": e["flags"], "vendor": wirex.vend(e["vendor"]), "data": list(want), "members": [], "group": False}
        if val.dump() != enc_avp(a):
            return f"{d.name}({arg!r}).dump() = {val.dump().hex()}, RFC 6733 encoding {enc_avp(a).hex()}"
    return None


SPEC_TYPE = {"Unsigned32Type": "Unsigned32", "Unsigned64Type": "Unsigned64", "Integer32Type": "Integer32", "TimeType": "Time",
             "AddressType": "Address", "OctetStringType": "String", "UTF8StringType": "String", "DiameterIdentityType": "String"}


def check_construct(rep):
    ref = wirex.ref_dictionary()
    descs = [d for d in dictx.descriptors()]
    vecs, res = vectors.gen("Gen_Construct", ["Types"], CONSTRUCT_DEFS, "Vecs")
    rep.tlc("Gen_Construct", res)
    bytype = {}
    for v in vecs:
        bytype.setdefault(v["type"], []).append(v)
    rep.notes["construct_vectors"] = {k: len(v) for k, v in bytype.items()}
    for d in descs:
        st = SPEC_TYPE.get(d.type)
        if not st:
            continue
        special = d.name in dictx.SESSION_ID_CLASSES or hasattr(d.cls, "encode")
        packed4 = (d.vendor, d.code) in dictx.PACKED_V4
        for v in bytype[st]:
            arg = concretise(v["v"])
            exp = v["out"]
            lit = True
            if packed4:
                # RFC 7155 Framed-IP-Address: 4 packed octets; the specification of its domain is PackedV4
                if v["v"]["py"] == "bytes":
                    exp = {"ok": len(arg) == 4, "v": list(arg)}
                elif v["v"]["py"] == "literal":
                    exp = {"ok": v["v"]["fam"] == 4, "v": v["v"]["packed"]}
            if special and v["v"]["py"] in ("str", "int"):
                lit = False
                if hasattr(d.cls, "encode"):
                    continue                    # MSISDN / STN-SR numbers: C18
                if v["v"]["py"] == "str" and arg == "":
                    continue
            rep.case((d.name, json.dumps(v["v"], sort_keys=True)))
            p = judge(d, ref, arg, exp, outcome(d.cls, arg), lit)
            if isinstance(p, tuple):
                rep.nonprop_differences += 1
                rep.notes.setdefault("in_domain_values_rejected", []).append(p[1]) if len(rep.notes.get("in_domain_values_rejected", [])) < 10 else None
            elif p:
                rep.violation(p, {"kind": "construct", "cls": d.name, "v": v["v"]})
        if len(rep.violations) >= 60:
            return
    rep.sample({"construct_vector": bytype["Unsigned32"][3]})

    # Enumerated: per class, membership (values from the frozen reference)
    enum = [d for d in descs if d.type == "EnumeratedType" and d.name in ref]
    edefs = ["DataOfLen(n) == [i \\in 1..n |-> 64 + i]"]
    rows = []
    for d in enum:
        vals = [list(bytes.fromhex(x)) for x in ref[d.name]["values"]]
        near = set()
        for x in vals:
            n = int.from_bytes(bytes(x), "big")
            for m in (n - 1, n + 1, n + 256, (n + 2 ** 31) % 2 ** 32):
                if 0 <= m < 2 ** 32:
                    near.add(tuple(m.to_bytes(4, "big")))
        near |= {(255, 255, 255, 255), (0, 0, 0, 0), (128, 0, 0, 0)}
        ins = [list(x) for x in sorted(near | {tuple(x) for x in vals})]
        rows.append(f'[cls |-> {T(d.name)}, values |-> {T(set(map(tuple, vals)))}, inputs |-> {T(set(map(tuple, ins)))}]')
    edefs.append("Classes == {" + ",\n ".join(rows) + "}")
    edefs.append('Widths == {[py |-> "bytes", b |-> DataOfLen(n)] : n \\in {0, 1, 3, 5, 8}} \\cup {[py |-> "none"], [py |-> "list"]}')
    edefs.append('EVecs == SetToSeq(UNION {{[cls |-> c.cls, v |-> v, out |-> ConstructEnum(v, c.values)] : '
                 'v \\in {[py |-> "bytes", b |-> x] : x \\in c.inputs} \\cup Widths} : c \\in Classes})')
    evecs, res = vectors.gen("Gen_Enum", ["Types"], "\n".join(edefs), "EVecs", java_opts=("-Xmx4g",))
    rep.tlc("Gen_Enum", res)
    byname = dictx.by_name()
    for v in evecs:
        d = byname[v["cls"]]
        arg = concretise(v["v"])
        rep.case((d.name, json.dumps(v["v"], sort_keys=True)))
        p = judge(d, ref, arg, v["out"], outcome(d.cls, arg))
        if isinstance(p, tuple):
            rep.nonprop_differences += 1
        elif p:
            rep.violation(p, {"kind": "construct", "cls": d.name, "v": v["v"]})
    # the class's own `values` must be the published enumeration
    for d in enum:
        if sorted(x.hex() for x in d.values) != sorted(ref[d.name]["values"]):
            rep.violation(f"{d.name}.values {sorted(x.hex() for x in d.values)} differ from the reference enumeration {sorted(ref[d.name]['values'])}",
                          {"kind": "table", "cls": d.name})

    # DiameterURI: the scheme rule
    uris = [("aaa://host.example", "aaa", True), ("aaas://host.example:3868;transport=tcp;protocol=diameter", "aaas", True),
            ("aaa://host.example:3868;transport=sctp", "aaa", True), ("http://host.example", "http", True), ("aaaa://host.example", "aaaa", True),
            ("aa://host.example", "aa", True), ("://host.example", "", True), ("host.example", "", False), ("", "", False),
            ("AAA://host.example", "AAA", True), ("sip://host.example:5060", "sip", True), ("aaass://host.example", "aaass", True),
            # text around a well-formed URI (a line read from a file, a padded field): not a DiameterURI
            ("aaa://host.example\n", "aaa", False), ("aaas://host.example:3868;transport=tcp;protocol=diameter\n", "aaas", False),
            ("aaa://host.example\r\n", "aaa", False), ("aaa://host.example ", "aaa", False), ("\naaa://host.example", "", False),
            ("aaa://host.example\naaa://other.example", "aaa", False), ("aaa://host.example\x00", "aaa", False)]
    udefs = "UVecs == <<" + ", ".join(
        f'[text |-> {T(list(u.encode()))}, out |-> ConstructURI([py |-> "str", scheme |-> {T(s)}, wellformed |-> {T(w)}, text |-> {T(list(u.encode()))}])]'
        for u, s, w in uris) + ">>"
    uvecs, res = vectors.gen("Gen_Uri", ["Types"], udefs, "UVecs")
    rep.tlc("Gen_Uri", res)
    for d in [x for x in descs if x.type == "DiameterURIType"]:
        for v in uvecs:
            text = bytes(v["text"]).decode()
            for arg in (text, text.encode()):
                rep.case((d.name, text, type(arg).__name__))
                p = judge(d, ref, arg, v["out"], outcome(d.cls, arg))
                if isinstance(p, tuple):
                    rep.nonprop_differences += 1
                elif p:
                    rep.violation(p, {"kind": "uri", "cls": d.name, "text": text})
        for arg in (None, 5, 1.5, []):
            p = judge(d, ref, arg, {"ok": False, "v": []}, outcome(d.cls, arg))
            if p:
                rep.violation(p, {"kind": "uri", "cls": d.name, "text": repr(arg)})

    # Grouped: mandatory members
    rng = random.Random(3)
    gvecs_in, meta = [], []
    for d in [x for x in descs if x.type == "GroupedType" and x.name in ref]:
        mand = ref[d.name].get("mandatory", {})
        mkeys = [f'{ref[c]["vendor"] if ref[c]["vendor"] is not None else -1}/{ref[c]["code"]}' for c in mand.values()]
        cases = [("all", list(mand.values()))] + [(f"without {k}", [c for kk, c in mand.items() if kk != k]) for k in mand]
        cases += [("all twice reversed", list(mand.values())[::-1] + list(mand.values()))] if mand else []
        if len(mand) >= 2:
            # as many members as there are mandatory ones, but all of the same kind
            for k in list(mand)[:2]:
                cases.append((f"{k} {len(mand)} times, the other mandatory members absent", [mand[k]] * len(mand)))
        for label, members in cases:
            objs = [dictx.make_avp(byname[c], rng)[0] for c in members if c in byname]
            if not objs:
                objs = [dictx.make_generic(rng)[0]]
            keys = [f'{int.from_bytes(o.vendor_id, "big") if isinstance(o.vendor_id, bytes) else -1}/{int.from_bytes(o.code, "big")}' for o in objs]
            gvecs_in.append(f"[i |-> {len(meta) + 1}, out |-> ConstructGrouped({T(set(keys))}, {T(set(mkeys))}, TRUE)]")
            meta.append((d, label, objs))
        gvecs_in.append(f"[i |-> {len(meta) + 1}, out |-> ConstructGrouped({{}}, {T(set(mkeys))}, FALSE)]")
        meta.append((d, "a list holding something that is not an AVP", [dictx.make_generic(rng)[0], "x"]))
    gout, res = vectors.gen("Gen_Grouped", ["Types"], "GVecs == <<" + ",\n ".join(gvecs_in) + ">>", "GVecs")
    rep.tlc("Gen_Grouped", res)
    for g in gout:
        d, label, objs = meta[g["i"] - 1]
        rep.case((d.name, label))
        got = outcome(d.cls, list(objs))
        if g["out"]["ok"]:
            if got[0] != "ok":
                rep.violation(f"{d.name}(members: {label}) rejected: {type(got[1]).__name__}: {got[1]}", {"kind": "grouped", "cls": d.name, "case": label})
            elif got[1].data != b"".join(o.dump() for o in objs):
                rep.violation(f"{d.name}(members: {label}): data is not the concatenation of the members", {"kind": "grouped", "cls": d.name, "case": label})
        elif got[0] == "ok":
            rep.violation(f"{d.name}(members: {label}) accepted although a mandatory member is missing / a member is not an AVP",
                          {"kind": "grouped", "cls": d.name, "case": label})
        # the same members given as wire data
        if all(hasattr(o, "dump") for o in objs):
            raw = b"".join(o.dump() for o in objs)
            got = outcome(d.cls, raw)
            if g["out"]["ok"] != (got[0] == "ok"):
                rep.violation(f"{d.name}(bytes of members: {label}) {'rejected' if g['out']['ok'] else 'accepted'}", {"kind": "grouped", "cls": d.name, "case": label + " (bytes)"})


def check_random(rep):
    """T: random values per class; the class's outcome is recorded and TLC validates it"""
    ref = wirex.ref_dictionary()
    rng = random.Random(rep.seed * 7919 + 10)
    descs = [d for d in dictx.descriptors() if d.type in ("Unsigned32Type", "Unsigned64Type", "Integer32Type", "TimeType") and d.name in ref]
    n = 1500 if rep.tier == "quick" else 60000
    recs, meta = [], []
    for i in range(n):
        d = descs[i % len(descs)]
        r = rng.random()
        if r < 0.45:
            b = bytes(rng.getrandbits(8) for _ in range(rng.choice([0, 1, 2, 3, 4, 4, 4, 5, 7, 8, 8, 9, 16])))
            v, arg = {"py": "bytes", "b": list(b)}, b
        elif r < 0.9:
            x = rng.getrandbits(rng.choice([1, 8, 31, 32, 33, 63, 64, 65]))
            neg = rng.random() < 0.15 and x > 0
            v, arg = {"py": "int", "neg": neg, "mag": list(x.to_bytes((x.bit_length() + 7) // 8, "big"))}, (-x if neg else x)
        else:
            v, arg = rng.choice([({"py": "none"}, None), ({"py": "float"}, 2.5), ({"py": "list"}, [])])
        if d.type in ("Integer32Type", "TimeType") and v["py"] == "int":
            continue
        got = outcome(d.cls, arg)
        ok = got[0] == "ok"
        data = list(got[1].data) if ok and isinstance(got[1].data, bytes) else []
        silent = ok and not isinstance(got[1].data, bytes)
        recs.append({"type": SPEC_TYPE[d.type], "v": v, "ok": ok, "data": data, "silent": silent})
        meta.append({"kind": "construct", "cls": d.name, "v": v, "got": "ok " + bytes(data).hex() if ok else f"{type(got[1]).__name__}"})
        rep.case((d.name, json.dumps(v, sort_keys=True)))
    ok_expr = ('LET out == CASE r.type = "Unsigned32" -> ConstructU32(r.v) [] r.type = "Unsigned64" -> ConstructU64(r.v) '
               '[] r.type = "Integer32" -> ConstructI32(r.v) [] r.type = "Time" -> ConstructTime(r.v) '
               'IN ~r.silent /\\ (r.ok => (out.ok /\\ r.data = out.v))')
    bad, res = vectors.validate("Trace_Construct", ["Types"], "", recs, ok_expr, java_opts=("-Xmx4g",))
    rep.tlc("Trace_Construct", res)
    rep.traces_validated += len(recs)
    for i in bad[:10]:
        rep.violation(f"TLC rejects the recorded construction {json.dumps(meta[i])[:300]}", meta[i])
    rep.sample({"trace_record": recs[0]})


def _construct_job(which):
    def job():
        from bromelia.avps import (ResultCodeAVP, HostIpAddressAVP, RedirectHostAVP, AuthSessionStateAVP, VendorSpecificApplicationIdAVP, VendorIdAVP,
                                   AuthApplicationIdAVP, EventTimestampAVP, OriginStateIdAVP)
        from bromelia.base import DiameterAVP
        out = []
        cases = [(ResultCodeAVP, 2001), (ResultCodeAVP, b"\x00\x00\x07"), (HostIpAddressAVP, "10.1.2.3"), (HostIpAddressAVP, b"\x00\x03abcd"),
                 (RedirectHostAVP, "aaa://host.example:3868;transport=tcp"), (RedirectHostAVP, "http://host.example"),
                 (AuthSessionStateAVP, b"\x00\x00\x00\x01"), (AuthSessionStateAVP, b"\x00\x00\x00\x63"), (OriginStateIdAVP, 7)]
        if which == "b":
            cases = cases[::-1] + [(VendorSpecificApplicationIdAVP, [VendorIdAVP(10415), AuthApplicationIdAVP(16777251)]), (VendorSpecificApplicationIdAVP, [VendorIdAVP(10415)])]
        for cls, arg in cases:
            try:
                a = cls(arg)
                out.append([cls.__name__, "ok", a.dump().hex()])
                back = DiameterAVP.load(a.dump())
                out.append([type(back[0]).__name__, back[0].data.hex() if isinstance(back[0].data, bytes) else repr(back[0].data)])
            except BaseException as e:
                out.append([cls.__name__, "raised", type(e).__name__])
        return out
    return job


def purity(rep):
    """constructors and the decode dispatch from two threads at once"""
    from engine import concur
    pairs = [("typed constructors and decode dispatch in both threads", _construct_job("a"), _construct_job("b"))]
    return concur.purity_stage(rep, "the typed constructors", pairs, ("/bromelia/types.py", "/bromelia/base.py"), kmax=6000,
                               stride=251 if rep.tier == "quick" else 7, pct=10 if rep.tier == "quick" else 200)


def run(rep):
    purity(rep)
    rep.rule = ("C10a: five dictionary tables (tree, reference, docs, definitions.py, decode dispatch) checked by TLC; C10b: per data type "
                "~25-60 in/out-of-domain inputs applied to every class of the type, enumerators +-1 around each class's values, URI "
                "schemes, Grouped mandatory members; T: random values validated by TLC. distinct = distinct (class, input) pairs")
    check_tables(rep)
    check_construct(rep)
    check_random(rep)
    rep.exhaustive = True
    rep.assumptions += ["booleans are excluded (Python treats them as integers)",
                        "Framed-IP-Address follows RFC 7155 (4 packed octets); MSISDN/STN-SR number arguments are covered by C18",
                        "docs/list-of-avps.md publishes 185 of the classes: agreement is demanded for the published ones; derived types (IPFilterRule) map to their base type"]


def replay(rep, path):
    r = json.load(open(path))["replay"]
    if r.get("kind") == "purity":
        purity(rep)
        rep.sample(r)
        return rep.finish()
    rep.notes["replay"] = r
    if r["kind"] == "table":
        check_tables(rep)
    else:
        check_construct(rep)
    rep.violations = [v for v in rep.violations if v["replay"].get("cls") == r.get("cls")] or rep.violations[:0]
    rep.sample(r)
    return rep.finish()
