"""Two real bromelia nodes (client and server, configured for each other) in ONE deterministic scheduler, their
fake sockets cross-wired by the harness: the binding of spec/Pair.tla.  Every thread of both nodes runs; the two
state machine threads are advanced tick by tick, the bytes one node wrote are moved to the other node frame by
frame (SDeliver / CDeliver), dropped (SDrop / CDrop) or followed by a disconnect (SSeesEof / CSeesEof)."""
from engine import vsched
from . import node as nodemod, assoc
from .c06 import LIMIT, APP_SIZE

# each node names the other as its peer
CLIENT = {"LOCAL_NODE_HOSTNAME": "client.lefty.example", "LOCAL_NODE_REALM": "lefty.example",
          "PEER_NODE_HOSTNAME": "server.right.example", "PEER_NODE_REALM": "right.example"}
SERVER = {"LOCAL_NODE_HOSTNAME": "server.right.example", "LOCAL_NODE_REALM": "right.example",
          "PEER_NODE_HOSTNAME": "client.lefty.example", "PEER_NODE_REALM": "lefty.example"}


class Handle:
    pass


_sizes = {}


def sizes():
    """encoded sizes of what the two nodes emit (constants of the model); the batch limit must separate the cases the same way for both"""
    if not _sizes:
        for role, over in (("client", CLIENT), ("server", SERVER)):
            n = nodemod.Node(role, seed=0, cfg_override=over)
            try:
                b = n.d._base
                _sizes[role] = {"SzCER": len(b.cer.dump()), "SzCEA": len(b.cea.dump()), "SzDWR": len(b.dwr.dump()), "SzDWA": len(b.dwa.dump()),
                                "SzDPR": len(b.dpr.dump()), "SzDPA": len(b.dpa.dump()),
                                "SzApp": len(assoc.app_request(1, APP_SIZE, local=n.local, dest_realm=n.peer[1]).dump())}
            finally:
                n.s.kill_all()
    return _sizes


class PairAdapter:
    flavour = "pair"

    def __init__(self, watchdog=2):
        self.watchdog = watchdog

    def fresh(self):
        import bromelia.setup as bs
        bs.SEND_BUFFER_MAXIMUM_SIZE = LIMIT
        h = Handle()
        h.c = nodemod.Node("client", seed=0, watchdog=self.watchdog, cfg_override=CLIENT)
        h.s = nodemod.Node("server", seed=0, watchdog=self.watchdog, cfg_override=SERVER, sched=h.c.s)
        h.c.foreign_psm = ("server_psm_thread",)
        h.s.foreign_psm = ("client_psm_thread",)
        h.n = 0
        return h

    def dispose(self, h):
        h.c.s.kill_all()

    # ---- helpers
    @staticmethod
    def to_ticker(n):
        psm = n.psm_thread
        k = 0
        while psm is not None and not psm.done and not n.at_ticker(psm):
            n.s.step(psm)
            k += 1
            if k > 300:
                raise vsched.StepLimit("state machine thread does not reach its ticker")

    @staticmethod
    def frames(n):
        fr, _rest = assoc.split_frames(bytes(n.sock.sent)) if n.sock is not None else ([], b"")
        return fr

    @staticmethod
    def move(src, dst, deliver):
        fr = PairAdapter.frames(src)
        if not fr:
            raise vsched.DoubleMisuse("nothing in flight")
        del src.sock.sent[:len(fr[0])]
        if deliver:
            dst.feed(fr[0])
        dst.pump()

    def apply(self, h, op, args, spec):
        c, s = h.c, h.s
        h.n += 1
        # the model's dlv is "handed to the application by this node's last action": it persists while the other node moves
        h.acted = {"c", "s"} if op == "StartBoth" else set() if op.endswith("Drop") else {op[0].lower()}
        if op == "StartBoth":
            s.start()
            c.start()
            self.to_ticker(s)
            self.to_ticker(c)
            c.pump()
        elif op == "CTick":
            c.tick()
        elif op == "STick":
            s.tick()
        elif op == "SDeliver":
            self.move(c, s, True)
        elif op == "CDeliver":
            self.move(s, c, True)
        elif op == "SDrop":
            self.move(c, s, False)
        elif op == "CDrop":
            self.move(s, c, False)
        elif op == "SSeesEof":
            s.peer_close()
            s.pump()
        elif op == "CSeesEof":
            c.peer_close()
            c.pump()
        elif op == "CStop":
            c.d.close()
        elif op == "SStop":
            s.d.close()
        elif op == "CApp":
            c.d.send_message(assoc.app_request(1, APP_SIZE, local=c.local, dest_realm=c.peer[1]))
        elif op == "SApp":
            s.d.send_message(assoc.app_request(1, APP_SIZE, local=s.local, dest_realm=s.peer[1]))
        elif op in ("CIdle", "SIdle"):
            n = c if op == "CIdle" else s
            if not n.idle_rounds(self.watchdog):
                raise vsched.Deadlock("transport thread is not waiting in select(): " + n.s.describe_blocked())
        else:
            raise AssertionError(op)

    @staticmethod
    def kind(n, m):
        k = n.classify(m)
        return k

    def side(self, n, wire_out):
        a = n.assoc
        tr = a.transport if a is not None else None
        psm = n.psm_thread
        from bromelia.base import DiameterMessage

        def view(objs, app_as):
            out = []
            for m in objs:
                k = n.classify(m)
                if k in ("REQ", "ANS"):
                    k = app_as
                out.append((k, 0))
            return out
        return {"st": n.state(),
                "recvQ": [(k, True, 0) for k, _ in view(a._recv_messages.items if a is not None else [], "REQ")],
                "sendQ": view(a._send_messages.items if a is not None else [], "APP"),
                "active": bool(a.state_is_active) if a is not None else False,
                "peerGone": bool(tr is not None and tr._stop_threads),
                "connected": bool(a is not None and a.is_connected()),
                "idle": bool(tr is not None and not getattr(tr, "events", None) and tr.tracking_events_count >= self.watchdog),
                "running": bool(psm is not None and not psm.done),
                "released": bool(a is None or (a.transport is None and (n.sock is None or n.sock.closed))),
                "dlv": view(n.take_delivered(), "REQ"),
                "wire": view([DiameterMessage.load(f)[0] for f in wire_out], "APP")}

    def project(self, h):
        pc = self.side(h.c, self.frames(h.c))
        ps = self.side(h.s, self.frames(h.s))
        last = getattr(h, "last_dlv", {"c": [], "s": []})
        for x, p in (("c", pc), ("s", ps)):
            if x not in getattr(h, "acted", {"c", "s"}):
                p["dlv"] = last[x] + p["dlv"]
        h.last_dlv = {"c": pc["dlv"], "s": ps["dlv"]}
        dead = [d for d in h.c.dead_threads()]
        return {"c": pc, "s": ps, "dead": dead}

    FIELDS = ("st", "recvQ", "sendQ", "active", "peerGone", "connected", "idle", "running", "released", "dlv")

    @staticmethod
    def spec_side(s, p, chan):
        return {"st": s[p + "st"], "recvQ": [(m["k"], m["valid"], m["id"]) for m in s[p + "recvQ"]], "sendQ": [(m["k"], m["id"]) for m in s[p + "sendQ"]],
                "active": s[p + "active"], "peerGone": s[p + "peerGone"], "connected": s[p + "connected"], "idle": s[p + "idle"],
                "running": s[p + "running"], "released": s[p + "released"], "dlv": [(m["k"], m["id"]) for m in s[p + "dlv"]],
                "wire": [(m["k"], m["id"]) for m in s[chan]]}

    def spec_view(self, s):
        return {"c": self.spec_side(s, "c", "c2s"), "s": self.spec_side(s, "s", "s2c")}

    def same(self, spec, p):
        v = self.spec_view(spec)
        return all(v[x][k] == p[x][k] for x in ("c", "s") for k in v[x])

    def judge(self, h, p, before, op, args, succs):
        exp = [self.spec_view(s) for s in succs]
        bad = []
        if p["dead"]:
            bad.append(f"thread(s) died: {p['dead']}")
        for x, who in (("c", "client"), ("s", "server")):
            for k, what in (("st", "reported state"), ("wire", "bytes in flight to the peer"), ("dlv", "messages handed to the application"),
                            ("running", "state machine thread alive"), ("released", "transport released"), ("recvQ", "receive queue"),
                            ("sendQ", "send queue")):
                if all(e[x][k] != p[x][k] for e in exp):
                    bad.append(f"{who} {what}: node {p[x][k]}, specification {exp[0][x][k]}")
        if not bad:
            return None
        return f"pair after {op} from ({before['cst']}, {before['sst']}): " + "; ".join(bad)

    def judge_exception(self, exc, before, op, args):
        return f"pair: {op} from ({before['cst']}, {before['sst']}) raised {type(exc).__name__}: {str(exc)[:300]}"
