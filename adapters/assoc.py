"""Live-association harness (C03b C04 C05 C08): a real node with all its threads under the deterministic
scheduler, driven by seeded random schedules with fault injection, with end-to-end monitors; executions are
recorded at scheduler-step granularity for TLC trace validation (spec/Assoc.tla)."""
import json
import os
import random

from engine import vsched
from . import node as nodemod


class Scenario:
    """an opened connection ready for traffic"""

    def __init__(self, role, seed, watchdog=50, send_buffer=None, preempt=None, apps=None, cfg_override=None):
        nodemod.ensure_installed()
        import bromelia.setup as bs
        self.saved_buf = bs.SEND_BUFFER_MAXIMUM_SIZE
        if send_buffer is not None:
            bs.SEND_BUFFER_MAXIMUM_SIZE = send_buffer
        self.bs = bs
        self.n = nodemod.Node(role, seed=seed, watchdog=watchdog, apps=apps, cfg_override=cfg_override)
        self.s = self.n.s
        self.role = role
        if preempt:
            # finer-grained preemption inside the named bromelia functions (must be set before the threads start)
            self.s.opcode_funcs, self.s.opcode_budget = set(preempt.get("opcode", ())), 6000
            self.s.line_funcs, self.s.line_budget = set(preempt.get("line", ())), 6000
        # two thirds of the scenarios use PCT scheduling (long delays of one thread), the rest uniform random
        self.chooser = vsched.PCT(seed, depth=1 + seed % 4, horizon=600) if seed % 3 else None

    def close_scenario(self):
        self.bs.SEND_BUFFER_MAXIMUM_SIZE = self.saved_buf
        self.s.kill_all()

    def open(self, extra=b""):
        """run the capabilities exchange with randomly scheduled threads; returns True when Open
        (extra: bytes of the peer's next message that ride in the same segment as its CEA / CER)"""
        from bromelia.base import DiameterMessage
        n = self.n
        n.start()
        if self.role == "client":
            # the CEA is sent once the node is in Wait-I-CEA: a CEA that overtakes the end of the Wait-Conn-Ack tick is
            # consumed (and dropped) by that state -- implemented behaviour, modelled in Psm.tla (RunWaitConnAck)
            ok = self.run(until=lambda: self.complete_messages(n.sock.sent) >= 1 and n.state() == "WaitICEA", limit=6000)
            if not ok:
                return False
            cer = DiameterMessage.load(bytes(n.sock.sent))[0]
            del n.sock.sent[:]
            cea = n.make("CEA", True, 1)
            cea.header.hop_by_hop, cea.header.end_to_end = cer.header.hop_by_hop, cer.header.end_to_end
            n.feed(cea.dump() + extra)
        else:
            n.feed(n.make("CER", True, 1).dump() + extra)
        ok = self.run(until=lambda: n.d.is_open(), limit=6000)
        if ok and self.role == "server":
            self.run(until=lambda: self.complete_messages(n.sock.sent) >= 1, limit=4000)
            del n.sock.sent[:]
        return ok

    @staticmethod
    def complete_messages(buf):
        b, i, k = bytes(buf), 0, 0
        while len(b) - i >= 20:
            ln = int.from_bytes(b[i + 1:i + 4], "big")
            if ln < 20 or len(b) - i < ln:
                break
            i += ln
            k += 1
        return k

    def run(self, until=None, limit=20000, timers=True):
        """random schedule; long timers fire at quiescence; returns True when `until` became true"""
        s = self.s
        start = s.steps
        while s.steps - start < limit:
            if until and until():
                return True
            c = s.choose(self.chooser)
            if c is None:
                return bool(until and until())
            t, fire = c
            if fire and not timers:
                return bool(until and until())
            s.step(t, fire)
        return bool(until and until())

    def settle(self, limit=20000, timer_rounds=6):
        """run until nothing but idle tickers and long timers remain, letting a few timers fire"""
        s = self.s
        start = s.steps
        fired = 0
        while s.steps - start < limit:
            c = s.choose()
            if c is None:
                if all(t.done for t in s.threads):
                    return "done"
                return "deadlock: " + s.describe_blocked()
            t, fire = c
            if fire or s.is_idle(t):
                fired += 1
                if fired > timer_rounds:
                    return "quiescent"
            s.step(t, fire)
        return "limit"


def app_request(k, size=None, local=("client.network", "network"), dest_realm="network"):
    from bromelia.base import DiameterRequest
    from bromelia.avps import SessionIdAVP, OriginHostAVP, OriginRealmAVP, DestinationRealmAVP, UserNameAVP, ClassAVP
    r = DiameterRequest(command_code=316, application_id=16777251)
    r.extend([SessionIdAVP(b"app;1;%d" % k), OriginHostAVP(local[0]), OriginRealmAVP(local[1]), DestinationRealmAVP(dest_realm), UserNameAVP("u%d" % k)])
    if size:
        r.append(ClassAVP(bytes((k + i) % 251 for i in range(size))))
    return r


def split_frames(raw):
    out, i = [], 0
    while len(raw) - i >= 20:
        ln = int.from_bytes(raw[i + 1:i + 4], "big")
        if ln < 20 or len(raw) - i < ln:
            break
        out.append(raw[i:i + ln])
        i += ln
    return out, raw[i:]


# ------------------------------------------------------------------------------------------- C05

def run_send(seed, nthreads, per_thread, plan_kind, inbound, send_buffer, big=False):
    """returns (verdict text or None, details)"""
    rng = random.Random(seed)
    sc = Scenario("client", seed, send_buffer=send_buffer)
    try:
        if not sc.open():
            return "connection did not open", {"blocked": sc.s.describe_blocked()}
        n = sc.n
        msgs = {}
        k = 0
        for t in range(nthreads):
            msgs[t] = []
            for j in range(per_thread):
                k += 1
                size = rng.choice([None, 7, 40]) if not big else rng.choice([None, 300])
                msgs[t].append(app_request(k, size))
        if plan_kind == "partial":
            n.sock.write_plan = [rng.choice([1, 3, 20, 21, 64, 150, 1000]) for _ in range(rng.randint(1, 6))]
        elif plan_kind == "blocked":
            n.sock.blocked_writes = rng.randint(1, 2)
        elif plan_kind == "stall":
            n.sock.stalled = True                  # the peer does not read for a while: the socket is not writable
        use_list = rng.random() < 0.3
        if use_list:
            # a bulk may mix requests and answers: the order of the bulk is the order on the wire
            from bromelia.base import DiameterAnswer
            from bromelia.avps import SessionIdAVP, ResultCodeAVP, OriginHostAVP, OriginRealmAVP
            for t in msgs:
                for j in range(len(msgs[t])):
                    if rng.random() < 0.4:
                        k += 1
                        ans = DiameterAnswer(command_code=316, application_id=16777251)
                        ans.extend([SessionIdAVP(b"peer;1;%d" % k), ResultCodeAVP(2001), OriginHostAVP("client.network"), OriginRealmAVP("network")])
                        ans.header.hop_by_hop, ans.header.end_to_end = 0x5000 + k, 0x6000 + k
                        msgs[t][j] = ans

        # a retransmission: the same message object submitted a second time is one more submission
        if rng.random() < 0.3:
            t0 = rng.randrange(nthreads)
            msgs[t0].append(msgs[t0][rng.randrange(len(msgs[t0]))])

        def submitter(t):
            if use_list and len(msgs[t]) > 1:
                n.d.send_messages(msgs[t])
            else:
                for m in msgs[t]:
                    n.d.send_message(m)
        subs = [sc.s.spawn(f"sender{t}", submitter, t) for t in range(nthreads)]
        for i in range(inbound):
            n.feed(n.make("REQ", True, 1).dump())
        total = sum(len(m.dump()) for ms in msgs.values() for m in ms)
        stalled = None
        if plan_kind == "stall":
            # while the socket is not writable the peer keeps sending: READ events alternate with the hand-over of new batches
            try:
                for w in range(4):
                    sc.run(limit=rng.randint(40, 250), timers=False)
                    n.feed(n.make("REQ", True, 1).dump())
                    sc.run(limit=rng.randint(40, 250), timers=False)
                    # one more submission per round: a new batch is handed over between two READ events
                    k += 1
                    late = app_request(k, rng.choice([None, 7]))
                    msgs.setdefault(nthreads + w, []).append(late)
                    subs.append(sc.s.spawn(f"sender_late{w}", lambda m=late: n.d.send_message(m)))
                sc.run(limit=rng.randint(100, 400), timers=False)
                total = sum(len(m.dump()) for ms in msgs.values() for m in ms)
            except (vsched.Deadlock, vsched.StepLimit, vsched.StepHang):
                pass
            n.sock.stalled = False
            sc.s.wake_idle()
        try:
            # first without firing any long timer: everything submitted must reach the socket on its own
            if not sc.run(until=lambda: all(x.done for x in subs) and len(n.sock.sent) >= total, limit=30000, timers=False):
                stalled = len(n.sock.sent)
            sc.run(until=lambda: all(x.done for x in subs) and len(n.sock.sent) >= total, limit=30000)
            end = sc.settle(limit=8000)
        except vsched.Deadlock as e:
            end = "deadlock: " + str(e)
        except (vsched.StepLimit, vsched.StepHang) as e:
            end = type(e).__name__ + ": " + str(e)
        sent = bytes(n.sock.sent)
        frames, rest = split_frames(sent)
        # base-protocol frames of the node itself (a watchdog request after a long wait) are not submissions
        frames = [f for f in frames if not (len(f) >= 8 and int.from_bytes(f[5:8], "big") in (257, 280, 282))]
        want = {t: [m.dump() for m in ms] for t, ms in msgs.items()}
        flat = [d for ds in want.values() for d in ds]
        problems = []
        dead = n.dead_threads()
        if dead:
            problems.append(f"threads died: {dead}")
        if not all(x.done for x in subs):
            problems.append("a submitter never returned: " + sc.s.describe_blocked())
        if rest:
            problems.append(f"{len(rest)} trailing bytes that are not a whole message (torn write)")
        for f in frames:
            if f not in flat:
                problems.append(f"a {len(f)}-byte frame on the socket is not one of the submitted messages (torn / interleaved)")
                break
        for d in set(flat):
            c, w = frames.count(d), flat.count(d)
            if c < w:
                problems.append(f"a {len(d)}-byte message submitted {w} time(s) reached the socket {c} time(s) (lost); {len(sent)} of {total} bytes written")
                break
            if c > w:
                problems.append(f"a message submitted {w} time(s) was written {c} times (duplicated)")
                break
        for t, ds in want.items():
            # each submitter's messages appear in its submission order (a retransmitted message counts at each of its positions)
            pos, used = [], {}
            for d in ds:
                start = used.get(d, -1) + 1
                if d in frames[start:]:
                    i = frames.index(d, start)
                    used[d] = i
                    pos.append(i)
            if pos != sorted(pos):
                problems.append(f"messages of submitter {t} were written out of submission order")
        if isinstance(end, str) and end.startswith(("deadlock", "Step")):
            problems.append(end)
        if not problems and stalled is not None and plan_kind != "blocked":
            problems.append(f"only {stalled} of {total} submitted bytes had been written when every thread had gone idle; the rest left the node only after "
                            "a timer caused another write")
        return ("; ".join(problems) if problems else None), {"end": end, "sent": len(sent), "expected": total, "frames": len(frames)}
    finally:
        sc.close_scenario()


SEND_PREEMPT = {"opcode": (), "line": ("_run", "write", "_write", "read", "_read", "_absorb_attached_stream", "_set_selector_events_mask",
                                       "_has_pending_stream", "send_message_from_queue", "put_message_into_send_queue")}


def run_send_sweep(kind, k, variant="plain", seed=1):
    """One-preemption sweep over the outbound hand-off.  kind 'transport/psm': the transport thread is stopped after k
    line-level steps of its event handling while the state machine thread hands over the next batch; 'psm/transport':
    the state machine thread is stopped inside its sending tick while the transport thread handles its events.
    variant: plain | inbound (peer data arrives, a READ event is pending) | partial (first write accepts 20 bytes)."""
    sc = Scenario("client", seed * 3, preempt=SEND_PREEMPT)
    try:
        if not sc.open():
            return "connection did not open", {"ended": True}
        n, s = sc.n, sc.s
        a = n.assoc
        tr = [t for t in s.threads if t.name == "transport_layer_thread"][-1]
        psm = n.psm_thread
        m1, m2 = app_request(1, 40), app_request(2, 7)
        want = m1.dump() + m2.dump()

        def solo(ts, cond, limit=6000):
            for _ in range(limit):
                if cond():
                    return True
                go = [t for t in ts if s.enabled(t) == "go"]
                if not go:
                    return cond()
                s.step(go[0])
            return cond()

        def attached():
            try:
                return a.transport.selector.get_key(n.sock).data is not None
            except (KeyError, ValueError):
                return False
        # start from a quiet connection: the transport thread parked in select() with nothing ready
        wk = [t for t in s.threads if t.name == "recv_message_monitor"][-1]
        for _ in range(3000):
            if tr.pending is not None and tr.pending[0] == "select" and s.enabled(tr) != "go" and n.at_ticker(psm):
                break
            go = [t for t in (tr, wk, psm) if s.enabled(t) == "go"]
            if not go:
                break
            s.step(go[0] if go[0] is not psm or len(go) == 1 else go[1] if go[1] is not psm else go[0])
        if variant == "partial" or kind == "transport/feed":
            n.sock.write_plan = [20] if kind != "transport/feed" else [20, 30, 9]
        if kind == "transport/feed":
            want = m1.dump()
        s1 = s.spawn("sender1", lambda: n.d.send_message(m1))
        solo([s1], lambda: s1.done)
        ended = False
        if kind == "transport-read/psm":
            # the transport thread is handling a READ event (nothing to write yet) when the state machine thread hands a stream over
            want = m1.dump()
            n.feed(n.make("ANS", True, 1).dump())
            v, others = tr, [psm]
            vend = lambda i: i > 0 and tr.pending is not None and tr.pending[0] == "select" and not n.sock.inbox
            ocond = lambda: not a._send_messages.items and n.at_ticker(psm)
        elif kind == "transport/feed":
            # one message, partial writes; the peer's data arrives after k steps of the transport thread
            solo([psm], lambda: attached() and n.at_ticker(psm))
            v, others = tr, []
            vend = lambda i: i > 0 and tr.pending is not None and tr.pending[0] == "select" and len(n.sock.sent) >= len(want)
            ocond = lambda: True
        elif kind == "transport/psm":
            solo([psm], lambda: attached() and n.at_ticker(psm))
            s2 = s.spawn("sender2", lambda: n.d.send_message(m2))
            solo([s2], lambda: s2.done)
            if variant == "inbound":
                n.feed(n.make("ANS", True, 1).dump())
            v, others = tr, [psm]
            vend = lambda i: i > 0 and tr.pending is not None and tr.pending[0] == "select" and not len(n.sock.sent) < len(m1.dump())
            ocond = lambda: not a._send_messages.items and n.at_ticker(psm)
        else:
            if variant == "inbound":
                n.feed(n.make("ANS", True, 1).dump())
            elif variant == "partial":
                pass
            v, others = psm, ([tr] if kind != "psm/submitter" else [])
            vend = lambda i: i > 0 and not a._send_messages.items and n.at_ticker(psm)
            ocond = (lambda: tr.pending is not None and tr.pending[0] == "select" and s.enabled(tr) != "go") if kind != "psm/submitter" else (lambda: True)
        for i in range(k):
            if v.done or s.enabled(v) != "go" or vend(i):
                ended = True
                if os.environ.get("VERIF_DEBUG"):
                    print("sweep ended at", i, v.name, v.pending[:1] + (getattr(v.pending[1], "vname", None), v.pending[2]), s.enabled(v), len(n.sock.sent), n.sock.write_plan)
                break
            s.step(v)
        if kind == "transport/feed":
            n.feed(n.make("ANS", True, 1).dump())
        solo(others, ocond, limit=3000)
        if kind == "psm/submitter":
            # an application thread submits the next message while the state machine thread stands in the middle of its sending tick
            # (as far as it gets: it may have to wait for the association lock)
            s2 = s.spawn("sender2", lambda: n.d.send_message(m2))
            solo([s2], lambda: s2.done, limit=2000)
        solo([v], lambda: v.done or (v.pending is not None and v.pending[0] in ("select",) and s.enabled(v) != "go") or (v is psm and n.at_ticker(psm) and not a._send_messages.items), limit=3000)
        if kind == "psm/transport":
            s2 = s.spawn("sender2", lambda: n.d.send_message(m2))
        stalled = None
        try:
            # first without firing any long timer: everything submitted must reach the socket on its own
            if not sc.run(until=lambda: len(n.sock.sent) >= len(want), limit=30000, timers=False):
                stalled = len(n.sock.sent)
            sc.run(until=lambda: len(n.sock.sent) >= len(want), limit=30000)
            end = sc.settle(limit=6000)
        except vsched.Deadlock as e:
            end = "deadlock: " + str(e)
        except (vsched.StepLimit, vsched.StepHang) as e:
            end = type(e).__name__ + ": " + str(e)
        sent = bytes(n.sock.sent)
        problems = []
        if n.dead_threads():
            problems.append(f"threads died: {n.dead_threads()}")
        frames, rest = split_frames(sent)
        mine = [f for f in frames if not (len(f) >= 8 and int.from_bytes(f[5:8], "big") in (257, 280, 282))]      # base-protocol frames aside
        expect = [m1.dump()] if kind in ("transport/feed", "transport-read/psm") else [m1.dump(), m2.dump()]
        if rest or mine != expect:
            problems.append(f"{len(sent)} bytes written for {len(want)} submitted: {len(frames)} whole frame(s), {len(rest)} trailing bytes; "
                            f"m1 x{frames.count(m1.dump())}, m2 x{frames.count(m2.dump())}")
        elif stalled is not None:
            problems.append(f"only {stalled} of {len(want)} submitted bytes were written when every thread had gone idle; the rest left the node only "
                            "after a timer (watchdog) caused another write")
        return ("; ".join(problems) if problems else None), {"ended": ended, "end": end}
    finally:
        sc.close_scenario()


# ------------------------------------------------------------------------------------------- C04

def segmentations(raw, rng, kind):
    if kind == "whole":
        return [raw]
    if kind == "bytes":
        return [raw[i:i + 1] for i in range(len(raw))]
    if kind == "one":
        c = rng.randrange(1, len(raw))
        return [raw[:c], raw[c:]]
    cuts = sorted(set(rng.randrange(1, len(raw)) for _ in range(rng.randint(1, 5) if kind != "many" else rng.randint(8, 14))))
    return [raw[a:b] for a, b in zip([0] + cuts, cuts + [len(raw)])]


RECV_PREEMPT = {"opcode": ("read", "take_recv_data_stream"),
                "line": ("recv_message_from_queue", "get_postprocess_recv_message", "get_message", "notify_postprocess_message")}


def sized_request(n, size, k):
    """a request from the peer whose encoding is exactly `size` bytes (a Class AVP takes the slack)"""
    from bromelia.avps import ClassAVP
    from bromelia.base import DiameterMessage
    m = n.make("REQ", True, 1)
    m.header.hop_by_hop, m.header.end_to_end = 0x1000 + k, 0x2000 + k
    base = len(m.dump())
    m.append(ClassAVP(bytes((k + i) % 251 for i in range(size - base - 8))))
    m.refresh()
    assert len(m.dump()) == size, (len(m.dump()), size)
    return DiameterMessage.load(m.dump())[0]


def run_recv(seed, nmsgs, seg_kind, consumers, mix_base=True, cut=None, fine=None, early=0):
    rng = random.Random(seed)
    fine = seed % 2 == 0 if fine is None else fine
    role = "client" if seed % 4 else "server"
    sc = Scenario(role if early else "client", seed, preempt=RECV_PREEMPT if fine else None)
    try:
        n = sc.n
        seq = []
        early_raw = b""
        if early:
            # the first `early` bytes of the first message arrive in the same segment as the CEA / CER that opens the connection
            n0 = n
            first = n0.make("REQ", True, 1)
            first.header.hop_by_hop, first.header.end_to_end = 0x0FFF, 0x1FFF
            early_raw = first.dump()
            seq.append(("REQ", first))
        if not sc.open(extra=early_raw[:early]):
            return "connection did not open", {"blocked": sc.s.describe_blocked()}
        if seg_kind == "huge":
            # a legal message larger than one socket read (and than the send buffer): 325 kB, then small ones; the reads come one by one
            mix_base = False
            seq += [("REQ", sized_request(n, 325084, 0)), ("REQ", sized_request(n, 200, 1)), ("REQ", sized_request(n, 300, 2))]
            nmsgs = 0
        if seg_kind == "buffer":
            # the peer's burst fills the read buffer exactly (4 messages of 64 KiB = the 256 KiB the transport asks recv() for)
            mix_base = False
            seq += [("REQ", sized_request(n, 65536, k)) for k in range(4)]
            nmsgs = 0
        for k in range(nmsgs):
            if mix_base and rng.random() < 0.3:
                seq.append(("DWR", n.make("DWR", True, 1 + k % 3)))
            else:
                kind = rng.choice(["REQ", "REQ", "ANS"])
                m = n.make(kind, True, 1)
                m.header.hop_by_hop = 0x1000 + k
                m.header.end_to_end = 0x2000 + k
                seq.append((kind, m))
        raw = b"".join(m.dump() for _k, m in seq)[early:]
        if cut is not None and not 0 < cut < len(raw):
            return None, {"skipped": "cut outside the stream"}
        segs = [raw[:cut], raw[cut:]] if cut is not None else [raw] if seg_kind in ("buffer", "huge") else segmentations(raw, rng, seg_kind)
        app = [m for k, m in seq if k != "DWR"]
        got = {c: [] for c in range(consumers)}
        share = [len(app) // consumers + (1 if c < len(app) % consumers else 0) for c in range(consumers)]

        def consumer(c):
            for _ in range(share[c]):
                got[c].append(n.d.get_message())
        cons = [sc.s.spawn(f"consumer{c}", consumer, c) for c in range(consumers)]
        pending = list(segs)

        slow = seed % 5 == 3 and len(segs) <= 12

        def feeder():
            # the network delivers the segments one by one, at arbitrary moments; in "slow" scenarios with pauses longer than any
            # timeout of the node's threads in between (a retransmission, a closed window: TCP may deliver the rest arbitrarily late)
            while pending:
                n.feed(pending.pop(0))
                vsched.SCHED.yield_op(("op", None, "net"), write=True)
                if slow and pending:
                    import bromelia.setup as _bs
                    _bs.time.sleep(2.5)
        sc.s.spawn("net", feeder)
        ndwr = sum(1 for k, _m in seq if k == "DWR")
        try:
            sc.run(until=lambda: all(c.done for c in cons) and sc.complete_messages(n.sock.sent) >= ndwr and not pending, limit=60000)
            end = sc.settle(limit=6000)
        except vsched.Deadlock as e:
            end = "deadlock: " + str(e)
        except (vsched.StepLimit, vsched.StepHang) as e:
            end = type(e).__name__ + ": " + str(e)
        problems = []
        dead = n.dead_threads()
        if dead:
            problems.append(f"threads died: {dead}")
        delivered = [m for c in range(consumers) for m in got[c]]
        if consumers == 1:
            if [m.dump() if m is not None else None for m in delivered] != [m.dump() for m in app]:
                problems.append(f"delivered {len(delivered)} of {len(app)} application messages "
                                f"({'in order' if all(d is not None and d.dump() in [a.dump() for a in app] for d in delivered) else 'with foreign/garbled content'})")
        else:
            dd = sorted(m.dump() for m in delivered if m is not None)
            if dd != sorted(m.dump() for m in app):
                problems.append(f"{consumers} consumers received {len(dd)} messages, {len(app)} sent (lost or duplicated)")
            for c in range(consumers):
                idx = [next((i for i, a in enumerate(app) if m is not None and a.dump() == m.dump()), -1) for m in got[c]]
                if idx != sorted(idx):
                    problems.append(f"consumer {c} received messages out of order")
        if not all(c.done for c in cons):
            problems.append("a consumer is still waiting although every message was sent: " + sc.s.describe_blocked()[:300])
        surplus = len(n.assoc.postprocess_recv_messages.items) + len(n.assoc._recv_messages.items) if n.assoc is not None else 0
        if surplus and not problems:
            problems.append(f"{surplus} more message(s) than the peer sent are waiting to be delivered (duplicated)")
        # base messages consumed in order: the DWAs on the socket echo the DWR identifiers in the order sent
        from bromelia.base import DiameterMessage
        try:
            dwas = [m for m in DiameterMessage.load(bytes(n.sock.sent)) if n.classify(m) == "DWA"]
        except BaseException:
            dwas = []
        want_ids = [(m.header.hop_by_hop, m.header.end_to_end) for k, m in seq if k == "DWR"]
        if [(m.header.hop_by_hop, m.header.end_to_end) for m in dwas] != want_ids:
            problems.append(f"{len(dwas)} DWA for {len(want_ids)} DWR, or not in the order sent")
        return ("; ".join(problems) if problems else None), {"end": end, "segments": len(segs), "messages": nmsgs}
    finally:
        sc.close_scenario()


def run_recv_sweep(kind, k, seed=1):
    """One-preemption sweep: the victim thread is stopped after k (opcode / line level) steps of its critical
    section, the intruder then runs its complete conflicting operation, then everything runs freely.
    kind: 'transport/worker' 'worker/transport' 'consumer/psm' 'psm/consumer' 'consumer/consumer'.
    Returns (verdict, info); info['ended'] is True when k is beyond the victim's section."""
    sc = Scenario("client", seed * 3, preempt=RECV_PREEMPT)         # seed * 3: uniform random free-running phase
    try:
        if not sc.open():
            return "connection did not open", {"ended": True}
        n, s = sc.n, sc.s
        a = n.assoc
        m1, m2 = n.make("REQ", True, 1), n.make("ANS", True, 1)
        m1.header.hop_by_hop, m1.header.end_to_end = 0x1001, 0x2001
        m2.header.hop_by_hop, m2.header.end_to_end = 0x1002, 0x2002
        victim_name, intruder_name = kind.split("/")
        nc = 2 if kind == "consumer/consumer" else 1
        if kind == "psm2/consumer":
            victim_name, intruder_name = "psm", "consumer"
        got = {c: [] for c in range(nc)}
        share = [1, 1] if nc == 2 else [2]

        def consumer(c):
            for _ in range(share[c]):
                got[c].append(n.d.get_message())
        cons = [s.spawn(f"consumer{c}", consumer, c) for c in range(nc)]
        byname = {"transport": "transport_layer_thread", "worker": "recv_message_monitor", "psm": "client_psm_thread"}

        def thread(nm, i=0):
            if nm == "consumer":
                return cons[i]
            return [t for t in s.threads if t.name == byname[nm]][-1]

        def solo(ts, cond, limit=4000):
            """run only the threads ts (first enabled first) until cond()"""
            for _ in range(limit):
                if cond():
                    return True
                go = [t for t in ts if s.enabled(t) == "go"]
                if not go:
                    return cond()
                s.step(go[0])
            return cond()
        tr, wk, psm = thread("transport"), thread("worker"), thread("psm")
        at_select = lambda: tr.pending is not None and tr.pending[0] == "select" and not n.sock.inbox
        wk_waiting = lambda: wk.pending is not None and wk.pending[0] == "wait" and not a.transport._recv_data_available.flag
        cons_waiting = lambda c: c.done or (c.pending is not None and c.pending[0] == "wait" and not c.pending[1].flag)
        # the consumers reach their wait
        solo(cons, lambda: all(cons_waiting(c) for c in cons))
        ended = False
        if kind == "transport/worker":
            n.feed(m1.dump())
            solo([tr], lambda: at_select() and a.transport._recv_data_available.flag)
            n.feed(m2.dump())
            for _ in range(k):
                if s.enabled(tr) != "go" or (at_select() and _ > 0):
                    ended = True
                    break
                s.step(tr)
            solo([wk], wk_waiting)
        elif kind == "worker/transport":
            n.feed(m1.dump())
            solo([tr], lambda: at_select() and a.transport._recv_data_available.flag)
            for _ in range(k):
                if s.enabled(wk) != "go" or (wk_waiting() and _ > 0):
                    ended = True
                    break
                s.step(wk)
            n.feed(m2.dump())
            solo([tr], at_select)
        elif kind in ("consumer/psm", "psm/consumer"):
            n.feed(m1.dump())
            solo([tr, wk], lambda: at_select() and a._recv_messages.items and wk_waiting())
            if kind == "consumer/psm":
                solo([psm], lambda: len(a.postprocess_recv_messages.items) >= 1 and n.at_ticker(psm))
                n.feed(m2.dump())
                solo([tr, wk], lambda: at_select() and a._recv_messages.items and wk_waiting())
                for _ in range(k):
                    if s.enabled(cons[0]) != "go" or len(got[0]) >= 1:
                        ended = True
                        break
                    s.step(cons[0])
                solo([psm], lambda: not a._recv_messages.items and n.at_ticker(psm))
            else:
                for _ in range(k):
                    if s.enabled(psm) != "go" or (len(a.postprocess_recv_messages.items) >= 1 and n.at_ticker(psm)):
                        ended = True
                        break
                    s.step(psm)
                solo([cons[0]], lambda: cons_waiting(cons[0]))
                n.feed(m2.dump())
        elif kind == "psm2/consumer":
            # one message is already queued for the application when the state machine thread hands over the next one
            n.feed(m1.dump())
            solo([tr, wk, psm], lambda: len(a.postprocess_recv_messages.items) >= 1 and n.at_ticker(psm))
            n.feed(m2.dump())
            solo([tr, wk], lambda: at_select() and a._recv_messages.items and wk_waiting())
            for _ in range(k):
                if s.enabled(psm) != "go" or (len(a.postprocess_recv_messages.items) + len(got[0]) >= 2 and n.at_ticker(psm)):
                    ended = True
                    break
                s.step(psm)
            solo([cons[0]], lambda: cons_waiting(cons[0]))
        else:                                                   # consumer/consumer: one message, two takers
            n.feed(m1.dump())
            solo([tr, wk, psm], lambda: len(a.postprocess_recv_messages.items) >= 1 and n.at_ticker(psm))
            for _ in range(k):
                if s.enabled(cons[0]) != "go" or cons[0].done:
                    ended = True
                    break
                s.step(cons[0])
            solo([cons[1]], lambda: cons_waiting(cons[1]))
            n.feed(m2.dump())
        try:
            sc.run(until=lambda: all(c.done for c in cons), limit=30000)
            end = sc.settle(limit=4000)
        except vsched.Deadlock as e:
            end = "deadlock: " + str(e)
        except (vsched.StepLimit, vsched.StepHang) as e:
            end = type(e).__name__ + ": " + str(e)
        problems = []
        if n.dead_threads():
            problems.append(f"threads died: {n.dead_threads()}")
        delivered = [m for c in range(nc) for m in got[c]]
        dd = [m.dump() if m is not None else None for m in delivered]
        want = [m1.dump(), m2.dump()]
        if (dd != want) if nc == 1 else (sorted(x or b"" for x in dd) != sorted(want)):
            problems.append(f"delivered {len(dd)} message(s) for 2 sent, or not the messages sent in the order sent")
        if not all(c.done for c in cons):
            problems.append("a consumer is still waiting although every message was sent: " + s.describe_blocked()[:300])
        return ("; ".join(problems) if problems else None), {"ended": ended, "end": end}
    finally:
        sc.close_scenario()


# ------------------------------------------------------------------------------------------- C08

def run_life(seed, role, cause, point, blocked_consumer, restart=True, hook=None):
    rng = random.Random(seed)
    # (outbound traffic waiting when the connection ends: a small send buffer, so that it takes several batches)
    sc = Scenario(role, seed, send_buffer=250 if point == "open-outbound" else None)
    n = sc.n
    if hook:
        hook(sc)
    try:
        problems = []
        consumer_result = []
        if point == "refused":
            # every other scenario lets the new state machine thread run while start() is still executing
            # the connection attempt fails: refused, timed out, host or network unreachable
            import errno as _errno
            n.start(refused=True, racing=(seed % 2 == 1),
                    refused_errno=[_errno.ECONNREFUSED, _errno.ETIMEDOUT, _errno.EHOSTUNREACH, _errno.ENETUNREACH][(seed // 2) % 4])
        else:
            if point in ("open", "open-inbound", "open-partial", "open-outbound", "closing"):
                if not sc.open():
                    return "connection did not open", {"blocked": sc.s.describe_blocked()}
            else:
                n.start(racing=(seed % 2 == 1 and point == "setup"))
                if point == "wait-cea" and role == "client":
                    sc.run(until=lambda: n.state() == "WaitICEA" and sc.complete_messages(n.sock.sent) >= 1, limit=4000)
        cons = None
        if blocked_consumer and n.assoc is not None:
            cons = sc.s.spawn("consumer1", lambda: consumer_result.append(n.d.get_message()))
            sc.run(until=lambda: cons.pending is not None and cons.pending[0] == "wait", limit=3000)
        if point == "open-inbound":
            n.feed(n.make("REQ", True, 1).dump() + n.make("REQ", True, 2).dump())
        if point == "open-partial":
            n.feed(n.make("REQ", True, 1).dump() + n.make("REQ", True, 2).dump()[:30])
            sc.run(limit=300, timers=False)
        if point == "open-outbound":
            sc.s.spawn("sender", lambda: [n.d.send_message(app_request(i)) for i in range(3)])
        if point == "closing":
            sc.s.spawn("closer0", n.d.close)
            sc.run(until=lambda: n.state() == "Closing", limit=4000)
        # a few random steps so that the fault lands at an arbitrary point
        sc.run(limit=rng.randint(0, 60), timers=False)
        # "Closed implies the transport has been released": what the application sees at ANY moment, not only at the end
        watch = {"left": n.state() != "Closed", "bad": None}

        def on_step(_t):
            st = n.state()
            if st != "Closed":
                watch["left"] = True
            elif watch["left"] and watch["bad"] is None and not n.sock.closed:
                watch["bad"] = "the node reported Closed while its socket was still open (the transport had not been released yet)"
        sc.s.on_step = on_step
        # the termination cause
        if cause == "local" and n.state() not in ("Closed",):
            def closer():
                try:
                    n.d.close()
                except BaseException as e:
                    if type(e).__name__ != "DiameterApplicationError":
                        raise
            sc.s.spawn("closer", closer)
            # the peer answers the DPR
            sc.run(until=lambda: any(n.classify(m) == "DPR" for m in frames_of(n)), limit=8000)
            dprs = [m for m in frames_of(n) if n.classify(m) == "DPR"]
            if dprs:
                # the peer's DPA: plain, or (every third scenario) a protocol-error answer with the E bit / one without a Result-Code;
                # the peer keeps the transport up, as the receiver of a DPR does
                dpa = n.make("DPA", seed % 3 != 1, 1, variant=1 + (seed // 3) % 2)
                dpa.header.hop_by_hop, dpa.header.end_to_end = dprs[0].header.hop_by_hop, dprs[0].header.end_to_end
                n.feed(dpa.dump())
        elif cause == "dpr":
            n.feed(n.make("DPR", True, 2).dump())
            if point == "closing":
                # simultaneous disconnect: the peer also answers the DPR it has received (Closing drops anything but the DPA);
                # it can only answer once the DPR has actually been written
                sc.run(until=lambda: any(n.classify(m) == "DPR" for m in frames_of(n)), limit=8000)
                dprs = [m for m in frames_of(n) if n.classify(m) == "DPR"]
                if dprs:
                    dpa = n.make("DPA", True, 1)
                    dpa.header.hop_by_hop, dpa.header.end_to_end = dprs[0].header.hop_by_hop, dprs[0].header.end_to_end
                    n.feed(dpa.dump())
        elif cause == "dpr-invalid":
            # a DPR the validator rejects (Disconnect-Cause BUSY): not answered, but the connection is closed all the same
            n.feed(n.make("DPR", False, 2, variant=2).dump())
        elif cause == "eof":
            n.peer_close()
        elif cause == "rst":
            n.peer_reset()
        elif cause == "refused":
            pass
        try:
            sc.run(until=lambda: n.state() == "Closed" and all(t.done for t in sc.s.threads if not t.name.startswith("consumer")), limit=40000)
            end = sc.settle(limit=6000, timer_rounds=12)
        except vsched.Deadlock as e:
            end = "deadlock: " + str(e)
        except (vsched.StepLimit, vsched.StepHang) as e:
            end = type(e).__name__ + ": " + str(e)
        sc.s.on_step = None
        if isinstance(end, str) and end.startswith(("deadlock", "Step")):
            problems.append(end[:400])
        if watch["bad"]:
            problems.append(watch["bad"])
        if n.state() != "Closed":
            problems.append(f"state is {n.state()}, not Closed")
        alive = [t.name for t in sc.s.threads if not t.done]
        if alive:
            problems.append(f"threads still alive: {alive} ({sc.s.describe_blocked()[:300]})")
        dead = n.dead_threads()
        if not n.sock.closed or (n.listen is not None and not n.listen.closed):
            problems.append("socket not closed")
        if cons is not None and not cons.done:
            problems.append("an application thread blocked in get_message() did not return")
        if n.assoc is not None:
            for nm, l in (("association lock", n.assoc.lock), ("delivery lock", n.assoc.postprocess_recv_messages_lock)):
                if l.held and l.owner is not None and l.owner.done:
                    problems.append(f"{nm} still held by finished thread {l.owner.name}")
        if restart and not problems:
            try:
                # the same object is started again: the new connection must open and carry traffic like the first one
                if not sc.open():
                    problems.append(f"after a second start() the connection does not open (state {n.state()}"
                                    + (f", start() raised {type(n.starter.exc).__name__}: {n.starter.exc}" if n.starter is not None and n.starter.exc else "") + ")")
                else:
                    m = n.make("REQ", True, 3)
                    n.feed(m.dump())
                    got2 = []
                    c2 = sc.s.spawn("consumer9", lambda: got2.append(n.d.get_message()))
                    sc.run(until=lambda: c2.done, limit=8000)
                    if not c2.done or got2[0] is None or got2[0].dump() != m.dump():
                        problems.append("on the second connection of the same object a message from the peer is not delivered intact")
            except BaseException as e:
                problems.append(f"second start() failed: {type(e).__name__}: {e}")
        return ("; ".join(problems) if problems else None), {"end": end, "threads_ended_by_exception": dead}
    finally:
        sc.close_scenario()


LIFE_PREEMPT = {"opcode": (), "line": ("recv_message_from_queue", "get_postprocess_recv_message", "get_message", "close", "set_closed_state",
                                       "get_next_state", "_run", "put_message_into_send_queue", "is_connected", "__is_connected")}


def life_verdict(sc, cons, end):
    n = sc.n
    problems = []
    if isinstance(end, str) and end.startswith(("deadlock", "Step")):
        problems.append(end[:400])
    if n.state() != "Closed":
        problems.append(f"state is {n.state()}, not Closed")
    alive = [t.name for t in sc.s.threads if not t.done and not t.name.startswith("consumer")]
    if alive:
        problems.append(f"threads still alive: {alive} ({sc.s.describe_blocked()[:300]})")
    if not n.sock.closed or (n.listen is not None and not n.listen.closed):
        problems.append("socket not closed")
    stuck = [c.name for c in cons if not c.done]
    if stuck:
        problems.append(f"application thread(s) blocked in get_message() did not return: {stuck}")
    return problems


def run_life_sweep(victim, k, cause="eof", seed=1):
    """One-preemption sweep over the teardown: the victim thread (worker / consumer) is stopped after k line-level
    steps, the connection then ends completely (transport + state machine threads run to the end), then everything
    runs freely.  Two consumers are blocked in get_message()."""
    sc = Scenario("client", seed * 3, preempt=LIFE_PREEMPT)
    try:
        if not sc.open():
            return "connection did not open", {"ended": True}
        n, s = sc.n, sc.s
        a = n.assoc
        got = {0: [], 1: []}
        cons = [s.spawn(f"consumer{c}", lambda c=c: got[c].append(n.d.get_message())) for c in range(2)]
        tr = [t for t in s.threads if t.name == "transport_layer_thread"][-1]
        wk = [t for t in s.threads if t.name == "recv_message_monitor"][-1]
        psm = n.psm_thread

        def solo(ts, cond, limit=6000):
            for _ in range(limit):
                if cond():
                    return True
                go = [t for t in ts if s.enabled(t) == "go"]
                if not go:
                    return cond()
                s.step(go[0])
            return cond()
        waiting = lambda c: c.done or (c.pending is not None and c.pending[0] == "wait" and not c.pending[1].flag)
        solo(cons, lambda: all(waiting(c) for c in cons))
        at_select = lambda: tr.pending is not None and tr.pending[0] == "select" and not n.sock.inbox
        m1 = n.make("REQ", True, 1)
        n.feed(m1.dump())
        ended = False
        if victim == "worker":
            solo([tr], lambda: at_select() and a.transport._recv_data_available.flag)
            v = wk
        elif victim == "sender":
            # an application thread inside send_message() while the connection ends
            def send():
                try:
                    n.d.send_message(app_request(5))
                except BaseException as e:
                    if type(e).__module__ != "bromelia.exceptions":
                        raise
            v = s.spawn("sender", send)
        else:
            solo([tr, wk, psm], lambda: len(a.postprocess_recv_messages.items) >= 1 and n.at_ticker(psm))
            v = cons[0]
        if victim == "psm":
            # the state machine thread is the victim: the cause first, then k steps of the tick that takes it
            solo([tr, wk, psm], lambda: len(a.postprocess_recv_messages.items) >= 1 and n.at_ticker(psm))
            if cause == "eof":
                n.peer_close()
                solo([tr], lambda: a.transport._stop_threads)
            elif cause == "cer-close":
                # the peer repeats its CER on the open connection; the application calls close() while the tick that handles it runs
                n.feed(n.make("CER", True, 2).dump())
                solo([tr, wk], lambda: len(a._recv_messages.items) >= 1 and wk.pending[0] == "wait")
            else:
                n.feed(n.make("DPR", True, 2).dump())
                solo([tr, wk], lambda: len(a._recv_messages.items) >= 1 and wk.pending[0] == "wait")
            v = psm
        for i in range(k):
            e = s.enabled(v)
            if v.done or e is None or (victim == "worker" and i > 0 and v.pending[0] == "wait" and not a.transport._recv_data_available.flag):
                ended = True
                break
            if e == "timer" and victim != "psm":
                ended = True
                break
            if victim == "psm" and cause == "cer-close" and i > 0 and n.at_ticker(psm) and not a._recv_messages.items:
                ended = True
                break
            s.step(v, fire_timeout=(e == "timer"))
        # the connection ends
        if victim == "psm":
            pass
        elif cause == "eof":
            n.peer_close()
        else:
            n.feed(n.make("DPR", True, 2).dump())
        others = [tr, psm] if victim == "worker" else [tr, wk, psm] if victim in ("consumer", "sender") else [wk] + cons
        if victim == "psm" and cause == "cer-close":
            others = [s.spawn("closer", n.d.close)]
        fired = 0
        for _ in range(6000):
            if psm.done and victim != "psm":
                break
            go = [t for t in others if s.enabled(t) == "go" and not s.is_idle(t)]
            if go:
                s.step(go[0])
                continue
            tm = [t for t in others if s.enabled(t) == "timer"]
            if not tm or fired >= 8:
                break
            fired += 1
            s.step(min(tm, key=lambda x: x.deadline), fire_timeout=True)
        solo([v], lambda: v.done)                   # the victim resumes first, then everybody
        if victim == "psm" and cause == "cer-close":
            # the peer answers the DPR that the close() must produce
            sc.run(until=lambda: any(n.classify(m) == "DPR" for m in frames_of(n)), limit=8000)
            dprs = [m for m in frames_of(n) if n.classify(m) == "DPR"]
            if dprs:
                dpa = n.make("DPA", True, 1)
                dpa.header.hop_by_hop, dpa.header.end_to_end = dprs[0].header.hop_by_hop, dprs[0].header.end_to_end
                n.feed(dpa.dump())
        try:
            sc.run(until=lambda: all(t.done for t in s.threads), limit=12000)
            end = sc.settle(limit=4000, timer_rounds=12)
        except vsched.Deadlock as e:
            end = "deadlock: " + str(e)
        except (vsched.StepLimit, vsched.StepHang) as e:
            end = type(e).__name__ + ": " + str(e)
        problems = life_verdict(sc, cons, end)
        for nm, l in (("association lock", a.lock), ("delivery lock", a.postprocess_recv_messages_lock)):
            if l.held and l.owner is not None and l.owner.done:
                problems.append(f"{nm} still held by finished thread {l.owner.name}")
        return ("; ".join(problems) if problems else None), {"ended": ended, "end": end, "threads_ended_by_exception": n.dead_threads()}
    finally:
        sc.close_scenario()


def run_start_sweep(k, refused=True, seed=1):
    """One-preemption sweep over Diameter.start(): the application thread is stopped after k line-level steps of
    start() (state machine thread created, transport being created / connected / registered / started) while the new
    state machine thread runs as far as it can (a refused connection is noticed at once), then resumed."""
    sc = Scenario("client", seed * 3, preempt={"opcode": (), "line": ("start", "run")})
    n, s = sc.n, sc.s
    try:
        n.generation += 1
        n.sock = vsched.FakeSock()
        n.sock.refused = refused
        vsched.NEXT_SOCKS.append(n.sock)
        starter = s.spawn("app_start1", n.d.start)
        n.starter = starter
        ended = False
        for i in range(k):
            if starter.done or s.enabled(starter) != "go":
                ended = True
                break
            s.step(starter)
        psm = n.psm_thread
        if psm is not None:
            for _ in range(3000):
                if psm.done or s.enabled(psm) != "go" or (s.is_idle(psm)):
                    break
                s.step(psm)
            if not refused:
                n.peer_close()
        for _ in range(3000):
            if starter.done or s.enabled(starter) != "go":
                break
            s.step(starter)
        if not refused and psm is None:
            n.peer_close()
        try:
            sc.run(until=lambda: n.state() == "Closed" and all(t.done for t in s.threads), limit=30000)
            end = sc.settle(limit=6000, timer_rounds=12)
        except vsched.Deadlock as e:
            end = "deadlock: " + str(e)
        except (vsched.StepLimit, vsched.StepHang) as e:
            end = type(e).__name__ + ": " + str(e)
        problems = life_verdict(sc, [], end)
        return ("; ".join(problems) if problems else None), {"ended": ended or starter.done and k > 0 and False, "end": end,
                                                              "start_raised": type(starter.exc).__name__ if starter.exc else None}
    finally:
        sc.close_scenario()


def frames_of(n):
    from bromelia.base import DiameterMessage
    fr, _rest = split_frames(bytes(n.sock.sent))
    out = []
    for f in fr:
        try:
            out += DiameterMessage.load(f)
        except BaseException:
            pass
    return out


# ------------------------------------------------------------------------------------------- C03b

def cex_with_vendor_257(n):
    from bromelia.base import DiameterAVP, DiameterMessage
    m = n.make("CER" if n.role == "server" else "CEA", True, 1)
    m.append(DiameterAVP(code=257, vendor_id=9999, flags=0xC0, data=b"\x00\x01"))
    m.refresh()
    return m.dump()


def deep_nesting(levels):
    body = b""
    for _ in range(levels):
        body = (279).to_bytes(4, "big") + b"\x40" + (8 + len(body)).to_bytes(3, "big") + body
    return body


def flip_v_bit(raw, code):
    """set the V bit in the flags of the first AVP with this code in a single-message stream"""
    b = bytearray(raw)
    i = 20
    while i + 8 <= len(b):
        ln = int.from_bytes(b[i + 5:i + 8], "big")
        if int.from_bytes(b[i:i + 4], "big") == code:
            b[i + 4] |= 0x80
            return bytes(b)
        if ln < 8:
            break
        i += ln + (-ln % 4)
    return bytes(b)


def cex_with_hostip(n, data):
    """the CER / CEA of the peer with its Host-IP-Address data replaced (lengths kept consistent)"""
    raw = bytearray(n.make("CER" if n.role == "server" else "CEA", True, 1).dump())
    i = 20
    while i + 8 <= len(raw):
        ln = int.from_bytes(raw[i + 5:i + 8], "big")
        if int.from_bytes(raw[i:i + 4], "big") == 257:
            new = bytes(raw[i:i + 5]) + (8 + len(data)).to_bytes(3, "big") + data + bytes(-len(data) % 4)
            out = bytes(raw[:i]) + new + bytes(raw[i + ln + (-ln % 4):])
            return out[:1] + len(out).to_bytes(3, "big") + out[4:]
        if ln < 8:
            break
        i += ln + (-ln % 4)
    return bytes(raw)


def garbage_segments(n, rng):
    good = n.make("REQ", True, 1, variant=1).dump()          # (with a Destination-Host AVP)
    u32x5 = bytes.fromhex("0000010c4000000d0000000001000000")
    bad_enum = bytes.fromhex("00000115400000") + b"\x0c" + b"\x00\x00\x00\x63"        # Auth-Session-State = 99
    def wrap(body, cmd=316, app=16777251, flags=0x80):
        return bytes([1]) + (20 + len(body)).to_bytes(3, "big") + bytes([flags]) + cmd.to_bytes(3, "big") + app.to_bytes(4, "big") + bytes(8) + body
    return {
        "length0": bytes([1, 0, 0, 0]) + bytes(16),
        "length19": bytes([1, 0, 0, 19]) + bytes(16),
        "short-header": b"\x01\x00\x00",
        "truncated": good[:37],
        "avp-length-too-big": good[:25] + b"\xff\xff\xff" + good[28:],
        "avp-length-zero": good[:25] + b"\x00\x00\x00" + good[28:],
        "u32-five-bytes": wrap(u32x5),
        "unknown-enumerator": wrap(bad_enum),
        "misaddressed": n.make("MIS", True, 1).dump(),
        # a request for somebody else whose Destination-Host / Destination-Realm is not even text
        "misaddressed-not-utf8-host": n.make("MIS", True, 1).dump().replace(b"other.host.example", b"\xfc" * 18),
        "misaddressed-not-utf8-realm": n.make("MIS", True, 1).dump().replace(b"elsewhere.example", b"\xff\xfe" + b"x" * 15),
        # well-formed base messages whose Origin-Host / Origin-Realm is not text (DiameterIdentity is an OctetString on the wire)
        "dwr-origin-host-not-utf8": n.make("DWR", True, 1).dump().replace(n.peer[0].encode(), b"\xff" * len(n.peer[0])),
        "cex-origin-realm-not-utf8": n.make("CER" if n.role == "server" else "CEA", True, 1).dump().replace(n.peer[1].encode(), b"\xfe" * len(n.peer[1])),
        # Grouped AVPs nested far deeper than the interpreter can follow (600 levels of Failed-AVP, 4.8 kB)
        "deep-nesting": wrap(deep_nesting(600)),
        # a request whose Destination-Host / Destination-Realm AVP has the V bit set (one flipped bit: four octets of the value
        # are read as a Vendor-ID, the AVP is nobody's Destination-Host any more)
        "request-dest-host-v-bit": flip_v_bit(good, 293),
        "request-dest-realm-v-bit": flip_v_bit(good, 283),
        "misaddressed-dest-host-v-bit": flip_v_bit(n.make("MIS", True, 1).dump(), 293),
        # a capabilities exchange whose Host-IP-Address carries another IANA address family (E.164) and two address octets
        "cex-hostip-other-family": cex_with_hostip(n, bytes([0, 8, 0x12, 0x34])),
        # a well-formed capabilities exchange in which another vendor's AVP uses code 257 (Host-IP-Address) with two data octets
        "cex-vendor-avp-code-257": cex_with_vendor_257(n),
        "bad-utf8-uri": wrap((292).to_bytes(4, "big") + b"\x40" + (14).to_bytes(3, "big") + b"aaa:\xff\xfe\0\0"),
        "random": bytes(rng.getrandbits(8) for _ in range(rng.choice([1, 19, 20, 33, 64]))),
        "garbage-then-good": bytes([1, 0, 0, 24, 0x80, 0, 1, 60]) + bytes(12) + b"\xde\xad\xbe\xef" + good,
        # a well-formed message first, the malformed bytes behind it in the same segment
        "good-then-length0": good + bytes([1, 0, 0, 0]) + bytes(16),
        "good-then-length19": good + bytes([1, 0, 0, 19]) + bytes(16) + bytes(8),
        "good-then-random": good + bytes(rng.getrandbits(8) for _ in range(33)),
        "dwr-then-length0": n.make("DWR", True, 2).dump() + bytes([1, 0, 0, 0]) + bytes(28),
    }


def run_garbage(seed, role, state, kind):
    rng = random.Random(seed)
    sc = Scenario(role, seed)
    n = sc.n
    try:
        if state in ("open", "closing"):
            if not sc.open():
                return "connection did not open", {}
        else:
            n.start()
            if role == "client":
                sc.run(until=lambda: n.state() == "WaitICEA" and sc.complete_messages(n.sock.sent) >= 1, limit=4000)
        if state == "closing":
            sc.s.spawn("closer0", n.d.close)
            sc.run(until=lambda: n.state() == "Closing", limit=4000)
        if kind == "answer-known-e2e-unknown-hbh":
            # the node has sent a request; the answer comes back with its End-to-End but a corrupted Hop-by-Hop
            from bromelia.base import DiameterAnswer
            from bromelia.avps import SessionIdAVP, ResultCodeAVP, OriginHostAVP, OriginRealmAVP
            seg = b""
            if state == "open":
                req = app_request(11, local=n.local, dest_realm=n.peer[1])
                t = sc.s.spawn("sender", lambda: n.d.send_message(req))
                sc.run(until=lambda: t.done and len(n.sock.sent) >= len(req.dump()), limit=6000)
                ans = DiameterAnswer(command_code=316, application_id=16777251)
                ans.extend([SessionIdAVP(b"app;1;11"), ResultCodeAVP(2001), OriginHostAVP(n.peer[0]), OriginRealmAVP(n.peer[1])])
                ans.header.end_to_end = req.header.end_to_end
                ans.header.hop_by_hop = bytes([req.header.hop_by_hop[0] ^ 0x01]) + req.header.hop_by_hop[1:]
                seg = ans.dump()
            if not seg:
                return None, {"skipped": "needs an open connection"}
        else:
            seg = garbage_segments(n, rng)[kind]
        n.feed(seg)
        try:
            sc.run(limit=3000, timers=False)
            end = sc.settle(limit=4000)
        except vsched.Deadlock as e:
            end = "deadlock: " + str(e)
        except (vsched.StepLimit, vsched.StepHang) as e:
            end = type(e).__name__ + ": " + str(e)
        problems = []
        if isinstance(end, str) and end.startswith("Step"):
            problems.append(end[:300])
        dead = n.dead_threads()
        a = n.assoc
        held = []
        if a is not None:
            for nm, l in (("association lock", a.lock), ("delivery lock", a.postprocess_recv_messages_lock)):
                if l.held and l.owner is not None and l.owner.done:
                    held.append(f"{nm} held by finished thread {l.owner.name}")
        if held:
            problems.append("; ".join(held))
        closed = n.state() == "Closed"
        if dead and not closed:
            problems.append(f"worker thread(s) died and the connection was not closed: {dead}")
        elif dead:
            # Closed is also the state a server starts in: "closed cleanly" means the transport is gone too
            alive = [t.name for t in sc.s.threads if not t.done]
            if alive or not n.sock.closed:
                problems.append(f"worker thread(s) died ({dead}); the state reads Closed but the connection was not released "
                                f"(socket closed: {n.sock.closed}, threads alive: {alive})")
        # the local API still returns
        api = []

        def use_api():
            if n.state() == "Open":
                n.d.send_message(app_request(77))
                api.append("send")
            if n.state() not in ("Closed",):
                n.d.close()
                api.append("close")
            else:
                api.append("already closed")
        t = sc.s.spawn("api", use_api)
        try:
            sc.run(until=lambda: t.done, limit=8000)
        except (vsched.Deadlock, vsched.StepLimit, vsched.StepHang) as e:
            problems.append(f"local API call did not return: {type(e).__name__}: {str(e)[:200]}")
        if not t.done:
            problems.append("local API call (send_message / close) did not return: " + sc.s.describe_blocked()[:300])
        elif t.exc is not None and type(t.exc).__module__ != "bromelia.exceptions":
            problems.append(f"local API call raised {type(t.exc).__name__}: {t.exc}")
        return ("; ".join(problems) if problems else None), {"end": end, "api": api}
    finally:
        sc.close_scenario()


def check_garbage(rep):
    rng = random.Random(rep.seed * 7919 + 33)
    kinds = ["length0", "length19", "short-header", "truncated", "avp-length-too-big", "avp-length-zero", "u32-five-bytes", "unknown-enumerator",
             "misaddressed", "misaddressed-not-utf8-host", "misaddressed-not-utf8-realm", "dwr-origin-host-not-utf8", "cex-origin-realm-not-utf8", "cex-vendor-avp-code-257", "cex-hostip-other-family", "deep-nesting", "request-dest-host-v-bit", "request-dest-realm-v-bit", "misaddressed-dest-host-v-bit", "bad-utf8-uri", "random", "garbage-then-good", "good-then-length0", "good-then-length19", "good-then-random", "dwr-then-length0",
             "answer-known-e2e-unknown-hbh"]
    cases = [("client", "open"), ("server", "open"), ("client", "wait-cea"), ("server", "before-cer"), ("client", "closing")]
    reps = 1 if rep.tier == "quick" else 10
    n = 0
    for role, state in cases:
        for kind in kinds:
            for r in range(reps):
                seed = rng.getrandbits(30)
                verdict, info = run_garbage(seed, role, state, kind)
                n += 1
                rep.case(("garbage", role, state, kind, r))
                if verdict:
                    rep.violation(f"malformed segment '{kind}' arriving at a {role} in state {state}: {verdict}",
                                  {"kind": "garbage", "seed": seed, "role": role, "state": state, "segment": kind})
                if len(rep.violations) >= 20:
                    return
    rep.notes["live_injections"] = n
    rep.traces_validated += n


def replay_garbage(rep, r):
    verdict, info = run_garbage(r["seed"], r["role"], r["state"], r["segment"])
    if verdict:
        rep.violation(f"malformed segment '{r['segment']}' at a {r['role']} in state {r['state']}: {verdict}", r)
    rep.states, rep.transitions = 1, 1
