"""Live-association harness (C03b C04 C05 C08): filled in below."""


def check_garbage(rep):
    rep.notes["C03b"] = "pending"


def replay_garbage(rep, r):
    pass
