"""C05 -- submitted messages are written to the socket exactly once, whole and in order.

Specification: spec/SendPath.tla (submitters, the state machine thread's flush, the transport thread; one
action per scheduler step; partial writes; inbound events interleaving).  TLC checks NoTear, NoDup, InOrder,
NoLoss for 2 submitters x 2 messages, batch limit 3 units, 1-2 partial writes, 1 inbound segment, and shows
that the three historic deviations (downgrade drops an attached stream, attached stream absorbed again,
re-queue behind) violate them.
Binding:
 monitors -- the real node (all threads) under the deterministic scheduler, random and PCT schedules, 1..3
      submitter threads, byte-level partial-write plans, inbound traffic, lowered batch limit so that the
      "does not fit" and "larger than the buffer" branches run: the bytes accepted by the fake socket must be
      an order-preserving merge of the submitted encodings;
 T -- executions with equal-sized messages and unit-aligned write plans are recorded at the observable
      operations (lock, queue, selector, socket) and validated by TLC as behaviours of SendPath.
"""
import json
import os
import random
import re

from engine import tlc, tlaval, vsched
from . import assoc, node as nodemod

T = tlc.tla
DEVS = {"D_DowngradeDrops": "NoLoss", "D_Reabsorb": "NoDup", "D_RequeueBehind": "InOrder"}


def cfg(subs, per, batch, partial, inbound, dev="{}"):
    return (f"SPECIFICATION Spec\nCONSTANTS Subs = {{{', '.join(map(str, subs))}}}\n PerSub = {per}\n Batch = {batch}\n MaxPartial = {partial}\n"
            f" Inbound = {inbound}\n Deviations = {dev}\nINVARIANT NoTear\nINVARIANT NoDup\nINVARIANT InOrder\nINVARIANT NoLoss\nCHECK_DEADLOCK FALSE\n")


TRACE_MODULE = r"""---- MODULE Trace_SendPath ----
EXTENDS SendPath, Json, TLCExt, IOUtils
Traces == JsonDeserialize(TRACEFILE)
VARIABLES tid, l
TraceInit == tid = 1 /\ l = 0 /\ Init /\ TLCSet(1, <<1, 0>>)
Act(e) == CASE e.a = "s_acq" -> SAcq(e.s) [] e.a = "s_put" -> (SPut(e.s) /\ Last(sendQ') = e.m) [] e.a = "s_rel" -> SRel(e.s)
            [] e.a = "p_acq" -> PAcq
            [] e.a = "p_get" -> (PTake /\ sendQ # <<>> /\ Head(sendQ) = e.m /\ sendQ' = Tail(sendQ))
            [] e.a = "p_tlock" -> PTLock [] e.a = "p_modify" -> (PModify /\ Len(regData') = e.n) [] e.a = "p_trel" -> PTRel
            [] e.a = "p_arel" -> PARel
            [] e.a = "t_select" -> (TSelect /\ tmask' = {e.mask[i] : i \in 1..Len(e.mask)})
            [] e.a = "t_alock" -> TAbsorbLock [] e.a = "t_arel" -> TAbsorb
            [] e.a = "t_send" -> (TSend /\ Len(out') - Len(out) = e.n)
            [] e.a = "t_wdown" -> TWDown [] e.a = "t_rdown" -> TRDown [] e.a = "t_recv" -> TRecv
\* steps without an observable operation: leaving the drain loop, skipping an empty attach, the check after a write
Silent == PDone \/ (PTake /\ UNCHANGED pstream) \/ PSkip \/ TWDone
TraceNext == \/ /\ l < Len(Traces[tid]) /\ l' = l + 1 /\ tid' = tid /\ Act(Traces[tid][l + 1])
             \/ /\ l < Len(Traces[tid]) /\ Silent /\ UNCHANGED <<tid, l>>
             \/ /\ l = Len(Traces[tid]) /\ tid < Len(Traces) /\ tid' = tid + 1 /\ l' = 0
                /\ sendQ' = <<>> /\ alock' = Free /\ tlock' = Free /\ regEv' = "r" /\ regData' = <<>> /\ ds' = <<>> /\ sb' = <<>>
                /\ queued' = FALSE /\ out' = <<>> /\ inAvail' = Inbound /\ partialLeft' = MaxPartial
                /\ spc' = [s \in Subs |-> "acq"] /\ snext' = [s \in Subs |-> 1] /\ ppc' = "idle" /\ pstream' = <<>>
                /\ tpc' = "select" /\ tmask' = {}
TraceSpec == TraceInit /\ [][TraceNext]_<<vars, tid, l>>
Max2(a, b) == IF a[1] > b[1] \/ (a[1] = b[1] /\ a[2] >= b[2]) THEN a ELSE b
Progress == TLCSet(1, Max2(<<tid, l>>, TLCGet(1)))
Accepted == PrintT(<<"PROGRESS", TLCGet(1), Len(Traces), Len(Traces[Len(Traces)])>>)
====
"""


def uniform_request(s, k, local):
    """equal-sized messages: every message has two units of the same number of bytes"""
    m = assoc.app_request(s * 10 + k, size=None, local=local)
    m.user_name_avp.data = b"u%03d" % (s * 10 + k)
    m.session_id_avp.data = b"app;1;%03d" % (s * 10 + k)
    m.refresh()
    return m


def record_run(seed, subs, per, batch_units, plan_units, inbound):
    """one execution with logging of the observable operations; returns (events, verdict, info)"""
    rng = random.Random(seed)
    sc = assoc.Scenario("client", seed)
    try:
        if not sc.open():
            return None, "connection did not open", {}
        n = sc.n
        a, tr = n.assoc, n.assoc.transport
        msgs = {s: [uniform_request(s, k, n.local) for k in range(1, per + 1)] for s in subs}
        size = len(msgs[subs[0]][0].dump())
        assert all(len(m.dump()) == size for ms in msgs.values() for m in ms) and size % 2 == 0
        unit = size // 2
        sc.bs.SEND_BUFFER_MAXIMUM_SIZE = batch_units * unit
        n.sock.write_plan = [u * unit for u in plan_units]
        byobj = {id(m): s * 10 + k for s, ms in msgs.items() for k, m in enumerate(ms, 1)}
        events = []
        names = {}
        state = {}
        # wrap the doubles of this connection
        s_ = sc.s

        def who():
            t = s_.cur
            return names.get(id(t), ("other", 0)), (t.where if t else [])

        def wrap(obj, meth, fn):
            orig = getattr(obj, meth)

            def w(*args, **kw):
                r = orig(*args, **kw)
                fn(args, kw, r)
                return r
            setattr(obj, meth, w)

        def lock_ev(lock, kind):
            def f(args, kw, r):
                (role, idx), where = who()
                if lock is a.lock:
                    if role == "sub" and "put_message_into_send_queue" in where:
                        events.append({"a": "s_acq" if kind == "acq" else "s_rel", "s": idx})
                    elif role == "psm" and "send_message_from_queue" in where and "put_message_into_send_queue" not in where:
                        events.append({"a": "p_acq" if kind == "acq" else "p_arel"})
                else:
                    if role == "psm" and "_set_selector_events_mask" in where:
                        events.append({"a": "p_tlock" if kind == "acq" else "p_trel"})
                    elif role == "tr" and "_absorb_attached_stream" in where:
                        if kind == "acq" and not (events and state.get("last_tr") == "t_select"):
                            # the select() that was already in progress when the recorder was attached
                            mask = tr.events[0][1] if getattr(tr, "events", None) else 0
                            events.append({"a": "t_select", "mask": (["r"] if mask & 1 else []) + (["w"] if mask & 2 else [])})
                        events.append({"a": "t_alock" if kind == "acq" else "t_arel"})
                        state["last_tr"] = events[-1]["a"]
                    elif role == "tr" and "_set_selector_events_mask" in where and kind == "acq":
                        events.append({"a": "t_wdown" if "write" in where else "t_rdown"})
            return f
        for lk in (a.lock, tr.lock):
            wrap(lk, "acquire", lock_ev(lk, "acq"))
            wrap(lk, "release", lock_ev(lk, "rel"))

        def put_ev(args, kw, r):
            (role, idx), where = who()
            if role == "sub":
                events.append({"a": "s_put", "s": idx, "m": byobj.get(id(args[0]), -1)})
        wrap(a._send_messages, "put", put_ev)

        def get_ev(args, kw, r):
            (role, idx), where = who()
            if role == "psm":
                events.append({"a": "p_get", "m": byobj.get(id(r), -1)})
        wrap(a._send_messages, "get", get_ev)

        def modify_ev(args, kw, r):
            (role, idx), where = who()
            if role == "psm":
                data = kw.get("data") or b""
                events.append({"a": "p_modify", "n": len(data) // unit})
        wrap(tr.selector, "modify", modify_ev)

        def select_ev(args, kw, r):
            (role, idx), where = who()
            if role == "tr" and r:
                mask = r[0][1]
                events.append({"a": "t_select", "mask": (["r"] if mask & 1 else []) + (["w"] if mask & 2 else [])})
                state["last_tr"] = "t_select"
        wrap(tr.selector, "select", select_ev)

        def send_ev(args, kw, r):
            (role, idx), where = who()
            if role == "tr" and args[0]:
                events.append({"a": "t_send", "n": r // unit, "exact": r % unit == 0})
        wrap(n.sock, "send", send_ev)

        def recv_ev(args, kw, r):
            (role, idx), where = who()
            if role == "tr":
                events.append({"a": "t_recv"})
        wrap(n.sock, "recv", recv_ev)
        for t in s_.threads:
            if t.name.endswith("psm_thread"):
                names[id(t)] = ("psm", 0)
            elif t.name == "transport_layer_thread":
                names[id(t)] = ("tr", 0)

        def submitter(s):
            for m in msgs[s]:
                n.d.send_message(m)
        subs_t = []
        for s in subs:
            t = s_.spawn(f"sender{s}", submitter, s)
            names[id(t)] = ("sub", s)
            subs_t.append(t)
        for i in range(inbound):
            n.feed(n.make("ANS", True, 1).dump())
        total = size * per * len(subs)
        try:
            sc.run(until=lambda: all(x.done for x in subs_t) and len(n.sock.sent) >= total, limit=30000)
            end = sc.settle(limit=6000)
        except vsched.Deadlock as e:
            end = "deadlock: " + str(e)
        except (vsched.StepLimit, vsched.StepHang) as e:
            end = type(e).__name__ + ": " + str(e)
        sent = bytes(n.sock.sent)
        want = b"".join(m.dump() for s in subs for m in msgs[s])
        frames, rest = assoc.split_frames(sent)
        flat = [m.dump() for s in subs for m in msgs[s]]
        ok = (not rest and sorted(frames) == sorted(flat)
              and all([frames.index(m.dump()) for m in msgs[s]] == sorted(frames.index(m.dump()) for m in msgs[s]) for s in subs))
        verdict = None if ok and not str(end).startswith(("deadlock", "Step")) else \
            f"bytes on the socket are not the submitted messages once each, whole, in order ({len(sent)} of {total} bytes, end: {end})"
        return events, verdict, {"unit": unit, "end": end}
    finally:
        sc.close_scenario()


def validate(rep, groups):
    for (subs, per, batch, partial, inbound), items in groups.items():
        wd = tlc.workdir("Trace_SendPath")
        try:
            tf = os.path.join(wd, "traces.json")
            json.dump([ev for ev, _m in items], open(tf, "w"))
            c = cfg(subs, per, batch, partial, inbound).replace("SPECIFICATION Spec", "SPECIFICATION TraceSpec").replace("INVARIANT NoLoss\n", "")
            c += "CONSTRAINT Progress\nPOSTCONDITION Accepted\n"
            mod = TRACE_MODULE.replace("TRACEFILE", T(tf))
            res, _ = tlc.run("Trace_SendPath", c, extra_modules={"Trace_SendPath": mod}, wd=wd, workers=1, timeout=2400,
                             java_opts=("-Dtlc2.tool.queue.IStateQueue=StateDeque",))
            rep.tlc(f"Trace_SendPath {len(items)} traces", res)
            if res.violated in ("NoTear", "NoDup", "InOrder"):
                rep.violation(f"TLC: invariant {res.violated} is false in a state matched by a recorded execution", items[0][1])
                continue
            m = re.search(r'<<\s*"PROGRESS"', res.out)
            if not m:
                tlc.must_ok(res, "Trace_SendPath")
            val, _ = tlaval.parse_at(res.out, m.start())
            (t, l), nt, nl = val[1], val[2], val[3]
            done = t if (t, l) == (nt, nl) else t - 1
            rep.traces_validated += done
            if (t, l) != (nt, nl):
                rep.nonprop_differences += 1
                ev = items[t - 1][0]
                rep.notes.setdefault("unexplained_divergences", []).append({"trace": t, "event": l + 1, "next_event": ev[l] if l < len(ev) else None,
                                                                             "previous": ev[max(0, l - 3):l], "replay": items[t - 1][1]})
        finally:
            tlc.cleanup(wd)


def run(rep):
    nodemod.ensure_installed(rep.seed)
    quick = rep.tier == "quick"
    rep.rule = ("TLC: outbound path model, 2 submitters x 2 messages, batch limit 3 units, 1 partial write, 1 inbound segment (+ 3 deviations shown "
                "to violate the invariants); monitors on 150/3000 scheduled executions of the real node (1..3 submitters, byte-level partial writes, "
                "inbound traffic, small batch limits, oversized messages); 60/1000 recorded executions validated by TLC. distinct = executions")
    res, _ = tlc.run("SendPath", cfg([1, 2], 2, 3, 1, 1), workers=16, timeout=2400)
    tlc.must_ok(res, "SendPath")
    rep.tlc("SendPath 2x2 batch3 partial1 inbound1", res)
    if not quick:
        res, _ = tlc.run("SendPath", cfg([1, 2], 2, 3, 2, 2), workers=16, timeout=3000)
        tlc.must_ok(res, "SendPath deeper")
        rep.tlc("SendPath 2x2 batch3 partial2 inbound2", res)
        res, _ = tlc.run("SendPath", cfg([1, 2, 3], 1, 2, 1, 1), workers=16, timeout=3000)
        tlc.must_ok(res, "SendPath 3 submitters")
        rep.tlc("SendPath 3x1 batch2 partial1 inbound1", res)
    for dev, inv in DEVS.items():
        r2, _ = tlc.run("SendPath", cfg([1, 2], 2, 3, 1, 1, dev='{"%s"}' % dev), workers=8, timeout=1200)
        if not r2.violated:
            raise tlc.TlcError(f"vacuity self-test: deviation {dev} violates nothing")
        rep.notes.setdefault("deviations_shown_to_violate", {})[dev] = r2.violated
    rng = random.Random(rep.seed * 7919 + 5)
    # ---- monitors on random executions
    nruns = 150 if quick else 3000
    for i in range(nruns):
        seed = rng.getrandbits(30)
        args = (seed, 1 + i % 3, rng.choice([1, 2, 3]), "stall" if i % 6 == 5 else ["none", "partial"][i % 2], i % 2, rng.choice([None, None, 400, 250, 120]), i % 5 == 0)
        verdict, info = assoc.run_send(*args)
        rep.case(("send", i))
        if verdict:
            rep.violation(f"{args[1]} submitter(s) x {args[2]} message(s), write plan '{args[3]}', inbound {args[4]}, batch limit {args[5]}: {verdict}",
                          {"kind": "send", "args": list(args)})
            if len(rep.violations) >= 10:
                return
    # one-preemption sweeps over the hand-off between the state machine thread and the transport thread
    nsweep = 0
    for kind, variants in (("transport/feed", ("plain",)), ("transport-read/psm", ("plain",)), ("transport/psm", ("plain", "inbound", "partial")), ("psm/transport", ("plain", "inbound", "partial")),
                           ("psm/submitter", ("plain", "partial"))):
        for variant in variants:
            for k in range(0, 500):
                verdict, info = assoc.run_send_sweep(kind, k, variant)
                rep.case(("sweep", kind, variant, k))
                nsweep += 1
                if verdict:
                    rep.violation(f"{kind.split('/')[0]} thread stopped after {k} line-level steps ({variant}) while the {kind.split('/')[1]} side proceeds: {verdict}",
                                  {"kind": "sweep", "pair": kind, "k": k, "variant": variant})
                    break
                if info["ended"]:
                    break
    rep.notes["preemption_sweep_executions"] = nsweep
    rep.notes["monitored_executions"] = nruns + nsweep
    # ---- T
    ntr = 60 if quick else 1000
    groups = {}
    for i in range(ntr):
        seed = rng.getrandbits(30)
        subs, per = ((1, 2), 2) if i % 2 else ((1,), 2)
        partial = i % 3
        inbound = i % 2
        plan = [rng.choice([1, 2, 3]) for _ in range(partial)]
        events, verdict, info = record_run(seed, list(subs), per, 3, plan, inbound)
        rep.case(("trace", i))
        replay = {"kind": "trace", "seed": seed, "subs": list(subs), "per": per, "plan": plan, "inbound": inbound}
        if verdict:
            rep.violation(verdict, replay)
            continue
        groups.setdefault((subs, per, 3, partial, inbound), []).append((events, replay))
    if groups:
        rep.sample({"trace_prefix": next(iter(groups.values()))[0][0][:12]})
        validate(rep, groups)
    rep.assumptions += ["a send() that raises EAGAIN after the selector reported the socket writable is treated by the library as a fatal "
                        "transport error (connection closed); it is not a partial write and is outside the statement",
                        "trace validation uses equal-sized messages and write plans aligned to half messages (the model's units); byte-level "
                        "plans and mixed sizes are covered by the monitors"]


def replay(rep, path):
    r = json.load(open(path))["replay"]
    nodemod.ensure_installed(0)
    if r["kind"] == "send":
        verdict, info = assoc.run_send(*r["args"])
    elif r["kind"] == "sweep":
        verdict, info = assoc.run_send_sweep(r["pair"], r["k"], r["variant"])
    else:
        events, verdict, info = record_run(r["seed"], r["subs"], r["per"], 3, r["plan"], r["inbound"])
    if verdict:
        rep.violation(verdict, r)
    rep.case(str(r)[:80])
    rep.states, rep.transitions = 1, 1
    rep.sample(r)
    return rep.finish()
