"""C20 -- typed AVP value accessors agree with the wire data for every value.

Specification: Types.BitTest/BitSet/BitClear, AddressData, TimeWord (spec/Types.tla).
 V: TLC enumerates (word, bit) over boundary words x bit -1..32, IPv4/IPv6 addresses by structure
    and instants around every byte boundary of the 32-bit seconds counter, and emits the expected
    results; the harness applies them to every Unsigned32 / Address / Time class of the live tree.
 T: seeded random words, addresses and instants through the real classes; TLC validates the records.
"""
import datetime
import ipaddress
import json
import random

from engine import vectors
from engine.report import guard, Hang
from . import dictx

BIT_DEFS = """
Single == {[j \\in 1..4 |-> IF j = BitByte(b) THEN Pow2(b % 8) ELSE 0] : b \\in 0..31}
Compl(w) == [j \\in 1..4 |-> 255 - w[j]]
Patterns == {<<0,0,0,0>>, <<255,255,255,255>>, <<128,0,0,0>>, <<0,128,0,0>>, <<0,0,128,0>>, <<0,0,0,128>>,
             <<127,255,255,255>>, <<1,1,1,1>>, <<128,128,128,128>>, <<255,0,255,0>>, <<0,255,0,255>>,
             <<18,52,86,120>>, <<1,0,0,0>>, <<0,1,0,0>>, <<0,0,1,0>>, <<0,0,0,1>>, <<0,0,1,128>>, <<0,1,128,0>>}
Words == Single \\cup {Compl(w) : w \\in Single} \\cup Patterns
BitVecs == SetToSeq({[w |-> w, i |-> i, test |-> BitTest(w, i), set |-> BitSet(w, i), clr |-> BitClear(w, i)]
                     : w \\in Words, i \\in (-1)..32})
"""
BIT_THEOREMS = [
    # set then test, clear then test, set/clear inverse, exactly one bit changes
    "\\A w \\in Words, i \\in 0..31 : BitSet(w, i).ok => (BitTest(BitSet(w, i).v, i).v = <<1>> /\\ BitClear(BitSet(w, i).v, i).v = w)",
    "\\A w \\in Words, i \\in 0..31 : BitClear(w, i).ok => (BitTest(BitClear(w, i).v, i).v = <<0>> /\\ BitSet(BitClear(w, i).v, i).v = w)",
    "\\A w \\in Words, i \\in 0..31 : BitSet(w, i).ok # BitClear(w, i).ok",
    "\\A w \\in Words, i \\in 0..31, j \\in 0..31 : (BitSet(w, i).ok /\\ j # i) => BitIsSet(BitSet(w, i).v, j) = BitIsSet(w, j)",
]
ADDR_DEFS = """
B5 == {0, 1, 127, 128, 255}
V4 == {[fam |-> 4, packed |-> <<a, b, c, d>>] : a \\in B5, b \\in B5, c \\in B5, d \\in B5}
Z(n) == [j \\in 1..n |-> 0]
G == {<<0,0>>, <<0,1>>, <<0,255>>, <<255,0>>, <<255,255>>, <<18,52>>}
V6 == {[fam |-> 6, packed |-> g1 \\o Z(4) \\o g2 \\o Z(4) \\o g3 \\o g4] : g1 \\in G, g2 \\in G, g3 \\in G, g4 \\in G}
      \\cup {[fam |-> 6, packed |-> Z(10) \\o <<255,255>> \\o v.packed] : v \\in {x \\in V4 : x.packed[2] = 0}}
      \\cup {[fam |-> 6, packed |-> g1 \\o g2 \\o g2 \\o g1 \\o g2 \\o g1 \\o g1 \\o g2] : g1 \\in G, g2 \\in G}
AddrVecs == SetToSeq({[a |-> a, data |-> AddressData(a), p4ok |-> PackedV4Ok(a), p4 |-> IF PackedV4Ok(a) THEN PackedV4Data(a) ELSE <<>>] : a \\in V4 \\cup V6})
"""
TIME_DEFS = """
Days == {0, 1, 2, 3, 194, 195, 24854, 24855, 24856, 36524, 45000, 49709, 49710}
Secs == {0, 1, 255, 256, 257, 11646, 11647, 11648, 11649, 23294, 23295, 23296, 65535, 65536, 65537, 86398, 86399}
TimeVecs == SetToSeq({[days |-> d, secs |-> s, data |-> TimeWord(d, s)] : d \\in Days, s \\in Secs} )
"""
TIME_THEOREMS = [
    # agreement with ordinary arithmetic wherever the result fits in TLC's integers
    "\\A d \\in {x \\in Days : x < 24855}, s \\in Secs : SmallVal(TimeWord(d, s)) = d * 86400 + s",
    "TimeWord(49710, 23295) = <<255,255,255,255>>",
    "TimeWord(24855, 11648) = <<128,0,0,0>>",
]


def is_library_error(e):
    return type(e).__module__ == "bromelia.exceptions"


def _outcome(f):
    """('ok', value) | ('rej', exception) | ('err', exception) | ('hang', msg)"""
    try:
        with guard(5):
            return ("ok", f())
    except Hang as e:
        return ("hang", str(e))
    except BaseException as e:
        return ("rej" if is_library_error(e) else "err", e)


def _bit_ops(cls, w, i):
    """run the three accessors on fresh instances; returns dict op -> spec-shaped outcome or error text"""
    out = {}
    wb = bytes(w)

    def shaped(r, conv):
        if r[0] == "ok":
            return {"ok": True, "v": conv(r[1])}
        if r[0] == "rej":
            return {"ok": False, "v": []}
        return f"{r[0]}: {type(r[1]).__name__ if not isinstance(r[1], str) else r[1]}"
    a = cls(wb)
    out["test"] = shaped(_outcome(lambda: a.is_bit_set(i)), lambda v: [1 if v else 0] if isinstance(v, bool) else ["?"])
    a = cls(wb)
    r = _outcome(lambda: a.set_bit(i))
    out["set"] = shaped(r, lambda v: list(a.data) if isinstance(a.data, bytes) else ["?"])
    if r[0] == "ok" and (a.data != r[1] or a.dump()[-4:] != a.data):
        out["set"] = f"set_bit returned {r[1]!r} but data/dump carry {a.data!r}"
    a = cls(wb)
    r = _outcome(lambda: a.unset_bit(i))
    out["clr"] = shaped(r, lambda v: list(a.data) if isinstance(a.data, bytes) else ["?"])
    if r[0] == "ok" and (a.data != r[1] or a.dump()[-4:] != a.data):
        out["clr"] = f"unset_bit returned {r[1]!r} but data/dump carry {a.data!r}"
    # a rejected operation changes nothing: the word, its serialisation and what the accessors report afterwards
    for op in ("set", "clr"):
        if isinstance(out[op], dict) and not out[op]["ok"]:
            b = cls(wb)
            _outcome(lambda: (b.set_bit if op == "set" else b.unset_bit)(i))
            again = _outcome(lambda: (b.set_bit if op == "set" else b.unset_bit)(i))
            if b.data != wb or b.dump()[-4:] != wb:
                out[op] = f"the rejected {'set_bit' if op == 'set' else 'unset_bit'}({i}) changed the word {wb.hex()} to {b.data.hex() if isinstance(b.data, bytes) else b.data!r}"
            elif again[0] != "rej":
                out[op] = f"{'set_bit' if op == 'set' else 'unset_bit'}({i}) on {wb.hex()} is rejected the first time and {again[0]} the second time"
            elif 0 <= i <= 31:
                t = _outcome(lambda: b.is_bit_set(i))
                if t[0] != "ok" or bool(t[1]) != (op == "set"):
                    out[op] = f"after the rejected {'set_bit' if op == 'set' else 'unset_bit'}({i}) on {wb.hex()} is_bit_set({i}) gives {t[1]!r}"
    return out


def fmt_v6(packed, form):
    groups = [int.from_bytes(bytes(packed[i:i + 2]), "big") for i in range(0, 16, 2)]
    if form == "exploded":
        return ":".join("%04x" % g for g in groups)
    if form == "upper":
        return ":".join("%X" % g for g in groups)
    return str(ipaddress.IPv6Address(bytes(packed)))      # compressed canonical form


PACKED_V4 = dictx.PACKED_V4


def addr_format(d):
    return "packed4" if (d.vendor, d.code) in PACKED_V4 else "rfc6733"


def _addr_check(cls, literal, fam, packed, data, fmt="rfc6733", p4ok=True):
    """list of discrepancy strings for one Address class and one literal; `data` is what the
    specification expects for this class's format (None: the value must be rejected)"""
    bad = []
    r = _outcome(lambda: cls(literal))
    if fmt == "packed4" and not p4ok:
        if r[0] != "rej":
            return [f"{cls.__name__}({literal!r}) is not an IPv4 address and must be rejected with a library error; got {r[0]} {r[1]!r}"]
        return []
    if r[0] != "ok":
        return [f"{cls.__name__}({literal!r}) -> {r[0]} {r[1]!r}"]
    a = r[1]
    if a.data != bytes(data):
        bad.append(f"{cls.__name__}({literal!r}).data = {a.data.hex() if isinstance(a.data, bytes) else a.data!r}, specification {bytes(data).hex()}")
        return bad
    r4, r6, rs = _outcome(a.is_ipv4), _outcome(a.is_ipv6), _outcome(a.get_ip_address)
    if r4[0] != "ok" or r6[0] != "ok" or bool(r4[1]) != (fam == 4) or bool(r6[1]) != (fam == 6):
        bad.append(f"{cls.__name__}({literal!r}): is_ipv4={r4[1]!r} is_ipv6={r6[1]!r}, family {fam}")
    try:
        back = ipaddress.ip_address(rs[1]) if rs[0] == "ok" else None
    except ValueError:
        back = None
    if back is None or back.packed != bytes(packed) or back.version != fam:
        bad.append(f"{cls.__name__}({literal!r}).get_ip_address() = {rs[1]!r}")
    return bad


def _time_check(cls, days, secs, micro, data):
    dt = datetime.datetime(1900, 1, 1) + datetime.timedelta(days=days, seconds=secs, microseconds=micro)
    r = _outcome(lambda: cls(dt))
    if r[0] != "ok":
        return [f"{cls.__name__}({dt.isoformat()}) -> {r[0]} {r[1]!r}"]
    a = r[1]
    if a.data != bytes(data) or a.dump()[-4:] != bytes(data):
        return [f"{cls.__name__}({dt.isoformat()}).data = {a.data.hex() if isinstance(a.data, bytes) else a.data!r}, specification {bytes(data).hex()}"]
    return []


def _accessor_job(kind):
    def job():
        from bromelia.avps import SupportedFeaturesAVP, HostIpAddressAVP, EventTimestampAVP, FeatureListAVP, OriginStateIdAVP
        import datetime as _dt
        out = []
        if kind in ("bits", "bits2"):
            for w, i in ((0x80000001, 0), (0x00000000, 31), (0x7fffffff, 17)) if kind == "bits" else ((0x00000100, 7), (0xa5a5a5a5, 8), (0xffffffff, 24)):
                a = OriginStateIdAVP(w.to_bytes(4, "big"))
                r = [a.is_bit_set(i)]
                try:
                    (a.unset_bit if r[0] else a.set_bit)(i)
                except BaseException as e:
                    r.append(type(e).__name__)
                r += [a.data.hex(), a.is_bit_set(i)]
                out.append(r)
        else:
            for lit in ("10.9.8.7", "2001:db8::1", "255.255.255.255", "::ffff:1.2.3.4"):
                a = HostIpAddressAVP(lit)
                out.append([a.data.hex(), a.is_ipv4(), a.is_ipv6(), a.get_ip_address()])
            t = EventTimestampAVP(_dt.datetime(2036, 2, 7, 6, 28, 15))
            out.append(t.data.hex())
        return out
    return job


def purity(rep):
    from engine import concur
    pairs = [("bit accessors in both threads (different AVP objects)", _accessor_job("bits"), _accessor_job("bits2")),
             ("bit accessors in one thread, address / time accessors in the other", _accessor_job("bits"), _accessor_job("addr"))]
    return concur.purity_stage(rep, "the typed accessors", pairs[:1 if rep.tier == "quick" else 2], ("/bromelia/types.py",), kmax=600, stride=3 if rep.tier == "quick" else 1)


def aware_datetimes(rep):
    """timezone-aware datetimes: the classes may refuse them; when they build an AVP it carries the instant's seconds since 1900-01-01 UTC"""
    from bromelia.avps import EventTimestampAVP
    for off in (0, 1, -8, 5.5, 14):
        tz = datetime.timezone(datetime.timedelta(hours=off))
        for y, mo, d, h, mi in ((1900, 1, 2, 0, 0), (1970, 1, 1, 0, 0), (2020, 6, 15, 12, 30), (2036, 2, 6, 6, 28)):
            dt = datetime.datetime(y, mo, d, h, mi, 7, tzinfo=tz)
            rep.case(("aware", off, y))
            try:
                a = EventTimestampAVP(dt)
            except BaseException:
                continue
            want = int((dt - datetime.datetime(1900, 1, 1, tzinfo=datetime.timezone.utc)).total_seconds())
            if not isinstance(a.data, bytes) or a.data != want.to_bytes(4, "big"):
                rep.violation(f"EventTimestampAVP({dt.isoformat()}) was accepted and carries {a.data.hex() if isinstance(a.data, bytes) else a.data!r}: the instant is "
                              f"{want} s after 1900-01-01T00:00Z ({want.to_bytes(4, 'big').hex()})", {"kind": "aware", "dt": dt.isoformat()})
                return


def run(rep):
    purity(rep)
    aware_datetimes(rep)
    descs = dictx.descriptors()
    u32 = [d for d in descs if d.type == "Unsigned32Type"]
    addr = [d for d in descs if d.type == "AddressType"]
    tim = [d for d in descs if d.type == "TimeType"]
    rep.notes["classes"] = {"Unsigned32": len(u32), "Address": len(addr), "Time": len(tim)}
    rep.rule = ("V: (word, bit) over 82 boundary words x bit -1..32 on every Unsigned32 class (full matrix on 6 classes in "
                "quick, all in thorough; every class sees all 34 indices on 12 words); IPv4 5^4 octet patterns and "
                "structured IPv6 addresses in 3 literal forms on every Address class; instants at every byte boundary of the "
                "seconds counter (with microseconds) on every Time class. T: random words/addresses/instants validated by TLC. "
                "distinct = distinct (class, input) pairs")
    bitv, res = vectors.gen("Gen_Bits", ["Types"], BIT_DEFS, "BitVecs", theorems=BIT_THEOREMS)
    rep.tlc("Gen_Bits", res)
    full = u32 if rep.tier == "thorough" else u32[:3] + u32[-3:]
    words_small = sorted({tuple(v["w"]) for v in bitv})[::7]
    for d in u32:
        for v in bitv:
            if d not in full and tuple(v["w"]) not in words_small:
                continue
            w, i = v["w"], v["i"]
            rep.case((d.name, tuple(w), i))
            got = _bit_ops(d.cls, w, i)
            for op in ("test", "set", "clr"):
                if got[op] != v[op]:
                    rep.violation(f"{d.name}({bytes(w).hex()}) bit {i} {op}: code {got[op]}, specification {v[op]}",
                                  {"kind": "bit", "cls": d.name, "w": w, "i": i})
            if len(rep.violations) >= 40:
                break
    rep.sample({"bit_vector": bitv[100]})

    addrv, res = vectors.gen("Gen_Addr", ["Types"], ADDR_DEFS, "AddrVecs",
                             theorems=["\\A a \\in V4 \\cup V6 : AddressOk(a) /\\ AddressBytesOk(AddressData(a))"])
    rep.tlc("Gen_Addr", res)
    for d in addr:
        for v in addrv:
            a = v["a"]
            lits = [".".join(map(str, a["packed"]))] if a["fam"] == 4 else \
                   [fmt_v6(a["packed"], f) for f in ("compressed", "exploded", "upper")]
            for lit in lits:
                rep.case((d.name, lit))
                fmt = addr_format(d)
                exp = v["data"] if fmt == "rfc6733" else v["p4"]
                for b in _addr_check(d.cls, lit, a["fam"], a["packed"], exp, fmt, v["p4ok"]):
                    rep.violation(b, {"kind": "addr", "cls": d.name, "literal": lit, "fam": a["fam"], "packed": a["packed"]})
        if len(rep.violations) >= 40:
            break
    rep.sample({"addr_vector": addrv[0]})

    timev, res = vectors.gen("Gen_Time", ["Types"], TIME_DEFS, "TimeVecs", theorems=TIME_THEOREMS)
    rep.tlc("Gen_Time", res)
    for d in tim:
        for v in timev:
            if not (v["days"] < 49710 or (v["days"] == 49710 and v["secs"] <= 23295)):
                continue                    # not representable: outside the statement
            for micro in (0, 1, 999999):
                rep.case((d.name, v["days"], v["secs"], micro))
                for b in _time_check(d.cls, v["days"], v["secs"], micro, v["data"]):
                    rep.violation(b, {"kind": "time", "cls": d.name, "days": v["days"], "secs": v["secs"], "micro": micro})
    rep.sample({"time_vector": timev[0]})
    rep.exhaustive = True

    # ---- T
    rng = random.Random(rep.seed * 7919 + 20)
    n = 2500 if rep.tier == "quick" else 100000
    recs, meta = [], []
    for k in range(n):
        kind = k % 3
        if kind == 0:
            d = rng.choice(u32)
            w = list(rng.getrandbits(32).to_bytes(4, "big"))
            i = rng.randint(-2, 33)
            got = _bit_ops(d.cls, w, i)
            clean = all(isinstance(got[o], dict) for o in got)
            recs.append({"k": "bit", "w": w, "i": i, "clean": clean,
                         "test": got["test"] if clean else {"ok": False, "v": []},
                         "set": got["set"] if clean else {"ok": False, "v": []},
                         "clr": got["clr"] if clean else {"ok": False, "v": []}})
            meta.append({"kind": "bit", "cls": d.name, "w": w, "i": i, "got": str(got)})
        elif kind == 1:
            d = rng.choice(addr)
            fmt = addr_format(d)
            fam = rng.choice([4, 6])
            packed = list(rng.getrandbits(32 if fam == 4 else 128).to_bytes(4 if fam == 4 else 16, "big"))
            if fam == 6 and rng.random() < 0.4:       # runs of zero groups exercise '::' compression
                z = rng.randrange(0, 7) * 2
                for j in range(z, min(16, z + 2 * rng.randint(1, 4))):
                    packed[j] = 0
            lit = ".".join(map(str, packed)) if fam == 4 else fmt_v6(packed, rng.choice(["compressed", "exploded", "upper"]))
            r = _outcome(lambda: d.cls(lit))
            data = list(r[1].data) if r[0] == "ok" and isinstance(r[1].data, bytes) else []
            if fmt == "packed4":
                acc = _addr_check(d.cls, lit, fam, packed, data, fmt, fam == 4) if (r[0] == "ok" or fam == 6) else ["construction failed"]
                recs.append({"k": "addr4", "fam": fam, "packed": packed, "data": data, "rejected": r[0] == "rej", "clean": not acc})
            else:
                acc = _addr_check(d.cls, lit, fam, packed, data) if r[0] == "ok" else ["construction failed"]
                recs.append({"k": "addr", "fam": fam, "packed": packed, "data": data, "clean": not acc})
            meta.append({"kind": "addr", "cls": d.name, "literal": lit, "fam": fam, "packed": packed, "got": str(acc)})
        else:
            d = rng.choice(tim)
            s = rng.choice([rng.getrandbits(32), rng.getrandbits(32), (1 << rng.randint(1, 32)) - rng.randint(0, 2)]) % (1 << 32)
            days, secs = divmod(s, 86400)
            dt = datetime.datetime(1900, 1, 1) + datetime.timedelta(days=days, seconds=secs, microseconds=rng.randrange(10 ** 6))
            r = _outcome(lambda: d.cls(dt))
            data = list(r[1].data) if r[0] == "ok" and isinstance(r[1].data, bytes) else []
            recs.append({"k": "time", "days": days, "secs": secs, "data": data, "clean": r[0] == "ok"})
            meta.append({"kind": "time", "cls": d.name, "days": days, "secs": secs, "micro": dt.microsecond, "got": str(r[1])[:80]})
        rep.case(("T", k))
    ok_expr = ("r.clean /\\ CASE r.k = \"bit\" -> (r.test = BitTest(r.w, r.i) /\\ r.set = BitSet(r.w, r.i) /\\ r.clr = BitClear(r.w, r.i)) "
               "[] r.k = \"addr\" -> (AddressOk(r) /\\ r.data = AddressData(r)) "
               "[] r.k = \"addr4\" -> (IF PackedV4Ok(r) THEN ~r.rejected /\\ r.data = PackedV4Data(r) ELSE r.rejected) "
               "[] r.k = \"time\" -> (r.data = TimeWord(r.days, r.secs))")
    bad, res = vectors.validate("Trace_Accessors", ["Types"], "", recs, ok_expr, java_opts=("-Xmx4g",))
    rep.tlc("Trace_Accessors", res)
    rep.traces_validated += len(recs)
    for i in bad[:10]:
        rep.violation(f"TLC rejects the recorded accessor behaviour: {json.dumps(meta[i])[:400]}", meta[i])
    rep.sample({"trace_record": recs[0]})
    rep.assumptions += ["instants before 1900-01-01 or after 2036-02-07T06:28:15 are not representable and outside the statement",
                        "get_ip_address() may use any textual form; it is compared after parsing"]


def replay(rep, path):
    if json.load(open(path))["replay"].get("kind") == "purity":
        purity(rep)
        rep.sample(json.load(open(path))["replay"])
        return rep.finish()
    r = json.load(open(path))["replay"]
    byname = dictx.by_name()
    cls = byname[r["cls"]].cls
    T = vectors.tlc.tla
    if r["kind"] == "bit":
        w, i = r["w"], r["i"]
        vec, res = vectors.gen("Gen_replay", ["Types"], f"V == <<[test |-> BitTest({T(w)}, {i}), set |-> BitSet({T(w)}, {i}), clr |-> BitClear({T(w)}, {i})]>>", "V")
        got = _bit_ops(cls, w, i)
        for op in ("test", "set", "clr"):
            if got[op] != vec[0][op]:
                rep.violation(f"{r['cls']}({bytes(w).hex()}) bit {i} {op}: code {got[op]}, specification {vec[0][op]}", r)
    elif r["kind"] == "addr":
        a = {"fam": r["fam"], "packed": r["packed"]}
        vec, res = vectors.gen("Gen_replay", ["Types"], f"V == <<[data |-> AddressData({T(a)}), p4ok |-> PackedV4Ok({T(a)}), p4 |-> IF PackedV4Ok({T(a)}) THEN PackedV4Data({T(a)}) ELSE <<>>]>>", "V")
        fmt = addr_format(byname[r["cls"]])
        for b in _addr_check(cls, r["literal"], r["fam"], r["packed"], vec[0]["data"] if fmt == "rfc6733" else vec[0]["p4"], fmt, vec[0]["p4ok"]):
            rep.violation(b, r)
    else:
        vec, res = vectors.gen("Gen_replay", ["Types"], f"V == <<[data |-> TimeWord({r['days']}, {r['secs']})]>>", "V")
        for b in _time_check(cls, r["days"], r["secs"], r.get("micro", 0), vec[0]["data"]):
            rep.violation(b, r)
    rep.tlc("Gen_replay", res)
    rep.case(str(r))
    rep.sample(r)
    return rep.finish()
