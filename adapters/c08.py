"""C08 -- every way a connection ends leaves the node closed, released and restartable.

Specification: spec/Life.tla (state machine thread with its non-atomic teardown, transport thread, receive worker,
1..2 consumers blocked in get_message, an application thread calling close(), the peer as environment: disconnect
at any moment, DPR, DPA, refused connection).  TLC checks TerminalOk (no reachable state in which the connection is
ending, no thread can move and something is not released), ClosedIsReleased, NoLockLeak for both roles and, under
fairness, EventuallyReleased / CausesEnd; seven deviations (behaviours the tree had) are shown to violate them.
Binding:
 monitors -- the real node under the deterministic scheduler: every termination cause x every point of the
      connection life x {consumer blocked, not} x role, random and PCT schedules; after the end: state Closed,
      every controlled thread finished, sockets closed, consumers returned, no lock held by a finished thread,
      and a second start() on the same object succeeds;
 one-preemption sweeps -- the schedules of TLC's counterexamples, generalised: the worker / a consumer / the state
      machine thread is stopped after every source line of its critical section while the others complete the
      teardown (or, for the state machine thread, while the others run), then resumed;
 T -- the projected state (reported state, flags, socket, locks, go-ahead, queue length, finished threads) is
      recorded after every scheduler step of monitored executions and validated by TLC as a behaviour of Life
      (program counters are inferred).
"""
import json
import os
import random
import re

from engine import tlc, tlaval, vsched
from . import assoc, node as nodemod

T = tlc.tla


def cfg(role, consumers, dev="{}", live=False, budget=2):
    c = (f"SPECIFICATION {'FairSpec' if live else 'Spec'}\nCONSTANTS Role = \"{role}\"\n Consumers = {{{', '.join(map(str, consumers))}}}\n Budget = {budget}\n"
         f" Deviations = {dev}\nINVARIANT TerminalOk\nINVARIANT ClosedIsReleased\nINVARIANT NoLockLeak\nCHECK_DEADLOCK FALSE\n")
    if live:
        c += "PROPERTY EventuallyReleased\nPROPERTY CausesEnd\n"
    return c


DEVIATIONS = ("D_BlockingGet", "D_NoWakeOnClose", "D_ServerEofIgnored", "D_SetupEofIgnored", "D_WorkerUnguarded", "D_UnlockedStop", "D_SenderKeepsLock")

CASES = [(role, cause, point) for role in ("client", "server")
         for cause, points in (("local", ("open", "open-inbound", "open-outbound")),
                               ("dpr", ("open", "open-inbound", "open-outbound", "closing")),
                               ("eof", ("setup", "wait-cea", "open", "open-inbound", "open-outbound", "closing")),
                               ("refused", ("refused",)))
         for point in points
         if not (role == "server" and point in ("wait-cea", "refused")) and not (role == "client" and point == "setup" and cause != "eof")]


def run(rep):
    nodemod.ensure_installed(rep.seed)
    quick = rep.tier == "quick"
    rep.rule = ("TLC: teardown model, both roles, 2 consumers, every interleaving (+ liveness with 1 consumer; 7 deviations shown to violate the "
                "properties); monitors: cause x point x consumer x role under random / PCT schedules with restart; one-preemption sweeps at line "
                "granularity; distinct = executions")
    b = 1 if quick else 2
    for role in ("client", "server"):
        res, _ = tlc.run("Life", cfg(role, [1, 2], budget=b), workers=16, timeout=2400)
        tlc.must_ok(res, f"Life {role}")
        rep.tlc(f"Life role={role} consumers=[1,2] budget={b} safety", res)
    for role in ("client", "server"):
        res, _ = tlc.run("Life", cfg(role, [1] if quick else [1, 2], live=True, budget=b), workers=16, timeout=6000)
        tlc.must_ok(res, f"Life {role} liveness")
        rep.tlc(f"Life role={role} liveness budget={b}", res)
    for dev in DEVIATIONS:
        role = "server" if dev == "D_ServerEofIgnored" else "client"
        live = dev in ("D_ServerEofIgnored", "D_SetupEofIgnored")       # a tick that never closes is a liveness failure
        r2, _ = tlc.run("Life", cfg(role, [1] if live else [1, 2], dev='{"%s"}' % dev, live=live, budget=1), workers=16, timeout=1800)
        if not r2.violated:
            raise tlc.TlcError(f"vacuity self-test: deviation {dev} violates nothing")
        rep.notes.setdefault("deviations_shown_to_violate", {})[dev] = r2.violated
    rng = random.Random(rep.seed * 7919 + 8)
    # ---- monitors
    reps = 1 if quick else 12
    nmon = 0
    for role, cause, point in CASES:
        for blocked in (False, True):
            for r in range(reps):
                seed = rng.getrandbits(30)
                verdict, info = assoc.run_life(seed, role, cause, point, blocked)
                nmon += 1
                rep.case(("life", role, cause, point, blocked, r))
                if verdict:
                    rep.violation(f"{role}, connection ended by '{cause}' at '{point}', consumer blocked={blocked}: {verdict}",
                                  {"kind": "life", "args": [seed, role, cause, point, blocked]})
                    if len(rep.violations) >= 10:
                        return
    rep.notes["monitored_executions"] = nmon
    # ---- sweeps
    nsweep = 0
    for victim in ("worker", "consumer", "psm"):
        for cause in ("eof", "dpr"):
            for k in range(0, 300):
                verdict, info = assoc.run_life_sweep(victim, k, cause)
                nsweep += 1
                rep.case(("sweep", victim, cause, k))
                if verdict:
                    rep.violation(f"{victim} stopped after {k} steps while the connection ends ({cause}): {verdict}",
                                  {"kind": "sweep", "victim": victim, "k": k, "cause": cause})
                    break
                if info["ended"]:
                    break
    rep.notes["preemption_sweep_executions"] = nsweep
    rep.assumptions += ["a local close() is issued while the connection is Open (before that the call only clears a flag that the capabilities exchange "
                        "sets again: the connection does not end, so the property does not apply)",
                        "the peer answers a DPR or disconnects", "a server is started with a peer that connects (start() blocks in accept otherwise)"]


def replay(rep, path):
    r = json.load(open(path))["replay"]
    nodemod.ensure_installed(0)
    if r["kind"] == "life":
        verdict, info = assoc.run_life(*r["args"])
    else:
        verdict, info = assoc.run_life_sweep(r["victim"], r["k"], r["cause"])
    if verdict:
        rep.violation(verdict, r)
    rep.case(str(r)[:80])
    rep.states, rep.transitions = 1, 1
    rep.sample(r)
    return rep.finish()
