"""C08 -- every way a connection ends leaves the node closed, released and restartable.

Specification: spec/Life.tla (state machine thread with its non-atomic teardown, transport thread, receive worker,
1..2 consumers blocked in get_message, an application thread calling close(), the peer as environment: disconnect
at any moment, DPR, DPA, refused connection).  TLC checks TerminalOk (no reachable state in which the connection is
ending, no thread can move and something is not released), ClosedIsReleased, NoLockLeak for both roles and, under
fairness, EventuallyReleased / CausesEnd; ten deviations (behaviours the tree had) are shown to violate them.
Binding:
 monitors -- the real node under the deterministic scheduler: every termination cause x every point of the
      connection life x {consumer blocked, not} x role, random and PCT schedules; after the end: state Closed,
      every controlled thread finished, sockets closed, consumers returned, no lock held by a finished thread,
      and a second start() on the same object succeeds;
 one-preemption sweeps -- the schedules of TLC's counterexamples, generalised: the worker / a consumer / the state
      machine thread is stopped after every source line of its critical section while the others complete the
      teardown (or, for the state machine thread, while the others run), then resumed;
 T -- the projected state (reported state, flags, socket, locks, go-ahead, queue length, finished threads) is
      recorded after every scheduler step of monitored executions and validated by TLC as a behaviour of Life
      (program counters are inferred).
"""
import json
import os
import random
import re

from engine import tlc, tlaval, vsched
from . import assoc, node as nodemod

T = tlc.tla


def cfg(role, consumers, dev="{}", live=False, budget=2, invs=("TerminalOk", "ClosedIsReleased", "NoLockLeak")):
    c = (f"SPECIFICATION {'FairSpec' if live else 'Spec'}\nCONSTANTS Role = \"{role}\"\n Consumers = {{{', '.join(map(str, consumers))}}}\n Budget = {budget}\n"
         f" Deviations = {dev}\n" + "".join(f"INVARIANT {i}\n" for i in invs) + "CHECK_DEADLOCK FALSE\n")
    if live:
        c += "PROPERTY EventuallyReleased\nPROPERTY CausesEnd\n"
    return c


TRACE_MODULE = r"""---- MODULE Trace_Life ----
EXTENDS Life, Json, TLCExt, IOUtils
Traces == JsonDeserialize(TRACEFILE)
VARIABLES tid, l
Max2(a, b) == IF a[1] > b[1] \/ (a[1] = b[1] /\ a[2] >= b[2]) THEN a ELSE b
Progress == TLCSet(1, Max2(<<tid, l>>, TLCGet(1)))
C1 == CHOOSE c \in Consumers : TRUE
Proj == [phase |-> phase, running |-> running, active |-> active, stopA |-> stopA, trSet |-> trSet, connected |-> connected,
         trStop |-> trStop, sockOpen |-> sockOpen, lsnOpen |-> lsnOpen, alock |-> alock, plock |-> plock, ready |-> ready,
         postQ |-> postQ, tdone |-> (tpc = "done"), wdone |-> (wpc = "done"), pdone |-> (ppc = "done"), cret |-> (cpc[C1] = "ret"),
         peerEof |-> peerEof, refused |-> refused]
Fields == DOMAIN Proj
T == Traces[tid]
TraceInit == tid = 1 /\ l = 1 /\ StartedInit /\ Proj = Traces[1][1] /\ TLCSet(1, <<1, 1>>)
\* a real scheduler step may span several model steps: every observed variable moves from its current to its next recorded value
\* (set membership, not a disjunction: TLC would fork the next-state computation on every field)
Mix == LET nx == IF l < Len(T) THEN l + 1 ELSE l IN \A f \in Fields : Proj'[f] \in {T[l][f], T[nx][f]}
TraceNext == \/ /\ Next /\ Mix /\ tid' = tid
                /\ l' = IF l < Len(T) /\ Proj' = T[l + 1] THEN l + 1 ELSE l
             \/ /\ l = Len(T) /\ tid < Len(Traces) /\ tid' = tid + 1 /\ l' = 1
                /\ phase' = "Setup" /\ running' = TRUE /\ ppc' = "tick" /\ active' = FALSE /\ stopA' = FALSE /\ trSet' = TRUE
                /\ connected' = TRUE /\ trStop' = FALSE /\ sockOpen' = TRUE /\ lsnOpen' = (Role = "server")
                /\ tpc' = "check" /\ wpc' = "top" /\ alock' = Free /\ plock' = Free /\ ready' = FALSE /\ postQ' = 0
                /\ cpc' = [c \in Consumers |-> "idle"] /\ cmsg' = [c \in Consumers |-> FALSE] /\ apc' = "idle" /\ spc' = "idle"
                /\ peerEof' = FALSE /\ rst' = FALSE /\ dprIn' = FALSE /\ dprSent' = FALSE /\ dpaIn' = FALSE /\ estab' = FALSE
                /\ refused' = Traces[tid + 1][1].refused /\ inbound' = 0 /\ budget' = Budget /\ registered' = TRUE /\ stpc' = "done"
TraceSpec == TraceInit /\ [][TraceNext]_<<vars, tid, l>>
Accepted == PrintT(<<"PROGRESS", TLCGet(1), Len(Traces), Len(Traces[Len(Traces)])>>)
====
"""


class Recorder:
    """projected state after every scheduler step of the first life of the node"""

    def __init__(self):
        self.obs = []
        self.sc = None
        self.tr_obj = None
        self.stopped = False

    def attach(self, sc):
        self.sc = sc
        sc.s.on_step = self.on_step

    def holder(self, lock, is_alock):
        if not lock.held or lock.owner is None:
            return 0
        nm = lock.owner.name
        if nm.endswith("psm_thread"):
            return 0 if is_alock else 100          # the state machine's short holds of the association lock are not modelled
        if nm == "recv_message_monitor":
            return 101
        if nm.startswith("sender"):
            return 102
        if nm.startswith("consumer"):
            return 1
        return 999

    def on_step(self, t):
        if self.stopped:
            return
        n = self.sc.n
        if n.generation != 1:
            self.stopped = True
            return
        a = n.assoc
        if a is None:
            return
        psm_obj = n.d._peer_state_machine
        if self.tr_obj is None:
            if a.transport is None or not psm_obj.is_running or not a.transport.is_connected:
                return
            if not any(th.name == "recv_message_monitor" for th in n.s.threads):
                return
            self.tr_obj = a.transport
        byname = {th.name: th for th in n.s.threads}
        psm_t = n.psm_thread
        st = n.state()
        phase = "Closed" if (st == "Closed" and psm_t.done) else st if st in ("Open", "Closing") else "Setup"
        cons = byname.get("consumer1")
        o = {"phase": phase, "running": bool(psm_obj.is_running), "active": bool(a.state_is_active), "stopA": bool(a._stop_threads),
             "trSet": a.transport is not None, "connected": bool(self.tr_obj.is_connected), "trStop": bool(self.tr_obj._stop_threads),
             "sockOpen": not n.sock.closed, "lsnOpen": bool(n.listen is not None and not n.listen.closed),
             "alock": self.holder(a.lock, True), "plock": self.holder(a.postprocess_recv_messages_lock, False),
             "ready": bool(a.postprocess_recv_messages_ready.flag), "postQ": len(a.postprocess_recv_messages.items),
             "tdone": byname["transport_layer_thread"].done, "wdone": byname["recv_message_monitor"].done, "pdone": psm_t.done,
             "cret": bool(cons is not None and cons.done), "peerEof": bool((n.sock.eof or n.sock.reset) and not n.sock.refused), "refused": bool(n.sock.refused)}
        if not self.obs or self.obs[-1] != o:
            self.obs.append(o)


def validate(rep, role, items, selftest=False):
    wd = tlc.workdir("Trace_Life")
    try:
        tf = os.path.join(wd, "traces.json")
        json.dump([ev for ev, _m in items], open(tf, "w"))
        c = cfg(role, [1], invs=("ClosedIsReleased", "NoLockLeak")).replace("SPECIFICATION Spec", "SPECIFICATION TraceSpec")
        c += "CONSTRAINT Progress\nPOSTCONDITION Accepted\n"
        res, _ = tlc.run("Trace_Life", c, extra_modules={"Trace_Life": TRACE_MODULE.replace("TRACEFILE", T(tf))}, wd=wd, workers=1,
                         timeout=3000, java_opts=("-Dtlc2.tool.queue.IStateQueue=StateDeque",))
        if not selftest:
            rep.tlc(f"Trace_Life role={role} {len(items)} traces", res)
        if res.violated in ("ClosedIsReleased", "NoLockLeak") and not selftest:
            rep.violation(f"TLC: invariant {res.violated} is false in a state matched by a recorded execution", items[0][1])
            return None
        m = re.search(r'<<\s*"PROGRESS"', res.out)
        if not m:
            tlc.must_ok(res, "Trace_Life")
        val, _ = tlaval.parse_at(res.out, m.start())
        (t, l), nt, nl = val[1], val[2], val[3]
        if selftest:
            return (t, l) == (nt, nl)
        rep.traces_validated += t if (t, l) == (nt, nl) else t - 1
        if (t, l) != (nt, nl):
            rep.nonprop_differences += 1
            ev = items[t - 1][0]
            cur, nxt = ev[l - 1], ev[l] if l < len(ev) else None
            rep.notes.setdefault("unexplained_divergences", []).append(
                {"role": role, "trace": t, "state": l, "changes": {k: [cur[k], nxt[k]] for k in cur if nxt and cur[k] != nxt[k]}, "replay": items[t - 1][1]})
        return (t, l) == (nt, nl)
    finally:
        tlc.cleanup(wd)


DEVIATIONS = ("D_BlockingGet", "D_NoWakeOnClose", "D_ServerEofIgnored", "D_SetupEofIgnored", "D_WorkerUnguarded", "D_UnlockedStop", "D_SenderKeepsLock", "D_ResetUnhandled",
              "D_ConnectedBeforeRegistered", "D_CloseSkipsUnregistered")

CASES = [(role, cause, point) for role in ("client", "server")
         for cause, points in (("local", ("open", "open-inbound", "open-outbound")),
                               ("dpr", ("open", "open-inbound", "open-outbound", "closing")),
                               ("dpr-invalid", ("open", "open-inbound")),
                               ("eof", ("setup", "wait-cea", "open", "open-inbound", "open-partial", "open-outbound", "closing")),
                               ("rst", ("setup", "wait-cea", "open", "open-partial", "open-outbound", "closing")),
                               ("refused", ("refused",)))
         for point in points
         if not (role == "server" and point in ("wait-cea", "refused")) and not (role == "client" and point == "setup" and cause not in ("eof", "rst"))]


def run(rep):
    nodemod.ensure_installed(rep.seed)
    quick = rep.tier == "quick"
    rep.rule = ("TLC: teardown model, both roles, 2 consumers, every interleaving (+ liveness with 1 consumer; 10 deviations shown to violate the "
                "properties); monitors: cause x point x consumer x role under random / PCT schedules with restart; one-preemption sweeps at line "
                "granularity; distinct = executions")
    # safety: both roles; the second consumer (needed for the consumer / consumer races) without inbound traffic in the quick tier
    runs = ([("client", [1, 2], 0), ("client", [1], 1), ("server", [1], 1)] if quick else [("client", [1, 2], 2), ("server", [1, 2], 1)])
    for role, consumers, b in runs:
        res, _ = tlc.run("Life", cfg(role, consumers, budget=b), workers=16, timeout=5000)
        tlc.must_ok(res, f"Life {role}")
        rep.tlc(f"Life role={role} consumers={consumers} budget={b} safety", res)
    # liveness (fair behaviours)
    for role, lb in ((("client", 0),) if quick else (("client", 1), ("server", 1))):
        res, _ = tlc.run("Life", cfg(role, [1], live=True, budget=lb), workers=16, timeout=6000)
        tlc.must_ok(res, f"Life {role} liveness")
        rep.tlc(f"Life role={role} consumers=[1] budget={lb} liveness", res)
    # vacuity: every deviation violates a property (quick tier: the cheap ones; thorough: all)
    for dev in (("D_BlockingGet", "D_WorkerUnguarded", "D_SenderKeepsLock", "D_ConnectedBeforeRegistered") if quick else DEVIATIONS):
        role = "server" if dev == "D_ServerEofIgnored" else "client"
        live = dev in ("D_ServerEofIgnored", "D_SetupEofIgnored", "D_ResetUnhandled")       # a connection that never closes is a liveness failure
        consumers = [1, 2] if dev == "D_UnlockedStop" else [1]
        devset, invs = '{"%s"}' % dev, ("TerminalOk", "ClosedIsReleased", "NoLockLeak")
        if dev == "D_CloseSkipsUnregistered":
            # reachable only together with the early connected flag; shown on the socket invariant alone
            devset, invs = '{"D_ConnectedBeforeRegistered", "D_CloseSkipsUnregistered"}', ("ClosedIsReleased",)
        r2, _ = tlc.run("Life", cfg(role, consumers, dev=devset, live=live, budget=1 if dev == "D_UnlockedStop" else 0, invs=invs), workers=16, timeout=1800)
        if not r2.violated:
            raise tlc.TlcError(f"vacuity self-test: deviation {dev} violates nothing")
        rep.notes.setdefault("deviations_shown_to_violate", {})[dev] = r2.violated
    rng = random.Random(rep.seed * 7919 + 8)
    # ---- monitors
    reps = 1 if quick else 12
    nmon = 0
    traces = {}
    for role, cause, point in CASES:
        for blocked in (False, True):
            for r in range(reps):
                seed = rng.getrandbits(30)
                rec = Recorder()
                verdict, info = assoc.run_life(seed, role, cause, point, blocked, hook=rec.attach)
                if not verdict and len(rec.obs) > 1:
                    traces.setdefault(role, []).append((rec.obs, {"kind": "life", "args": [seed, role, cause, point, blocked]}))
                nmon += 1
                rep.case(("life", role, cause, point, blocked, r))
                if verdict:
                    rep.violation(f"{role}, connection ended by '{cause}' at '{point}', consumer blocked={blocked}: {verdict}",
                                  {"kind": "life", "args": [seed, role, cause, point, blocked]})
                    if len(rep.violations) >= 10:
                        return
    rep.notes["monitored_executions"] = nmon
    # ---- T: the recorded state sequences are behaviours of Life
    for role, items in traces.items():
        items = items[::4] if quick else items[::6]          # about 3 s of TLC per trace (the peer and all program counters are inferred)
        for i in range(0, len(items), 40):
            validate(rep, role, items[i:i + 40])
    if traces.get("client"):
        obs, meta = traces["client"][-1]
        bad = json.loads(json.dumps(obs))
        k = next((i for i, o in enumerate(bad) if o["stopA"]), len(bad) - 1)
        for o in bad[k:]:
            o["ready"] = False                       # as if the consumers were never woken
        if validate(rep, "client", [(bad, meta)], selftest=True):
            raise tlc.TlcError("binding self-test: a corrupted state sequence was accepted by Trace_Life")
        rep.notes["binding_selftest"] = "state sequence with the go-ahead never set rejected"
        rep.sample({"trace_prefix": obs[:3]})
    # ---- sweeps
    nsweep = 0
    for victim in ("worker", "consumer", "sender", "psm"):
        for cause in (("eof", "dpr", "cer-close") if victim == "psm" else ("eof", "dpr")):
            for k in range(0, 300):
                verdict, info = assoc.run_life_sweep(victim, k, cause)
                nsweep += 1
                rep.case(("sweep", victim, cause, k))
                if verdict:
                    rep.violation(f"{victim} stopped after {k} steps while the connection ends ({cause}): {verdict}",
                                  {"kind": "sweep", "victim": victim, "k": k, "cause": cause})
                    break
                if info["ended"]:
                    break
    # start(): the application thread stopped after every line while the new state machine thread runs
    start_raised = {}
    for refused in (True, False):
        for k in range(0, 300):
            verdict, info = assoc.run_start_sweep(k, refused)
            nsweep += 1
            rep.case(("start-sweep", refused, k))
            if info.get("start_raised"):
                start_raised[info["start_raised"]] = start_raised.get(info["start_raised"], 0) + 1
            if verdict:
                rep.violation(f"start() stopped after {k} steps while the state machine thread runs (connection {'refused' if refused else 'then closed by the peer'}): {verdict}",
                              {"kind": "start-sweep", "k": k, "refused": refused})
                break
            if info["ended"]:
                break
    if start_raised:
        rep.nonprop_differences += sum(start_raised.values())
        rep.notes["start_raises_when_refused_early"] = {"counts": start_raised, "note": "Diameter.start() itself raises (AttributeError / ConnectionError) when the "
                                                         "refusal is handled before start() reaches transport.run(): the node is Closed and released; "
                                                         "not part of the statement"}
    rep.notes["preemption_sweep_executions"] = nsweep
    rep.assumptions += ["a local close() is issued while the connection is Open (before that the call only clears a flag that the capabilities exchange "
                        "sets again: the connection does not end, so the property does not apply)",
                        "the peer answers a DPR or disconnects", "a server is started with a peer that connects (start() blocks in accept otherwise)"]


def replay(rep, path):
    r = json.load(open(path))["replay"]
    nodemod.ensure_installed(0)
    if r["kind"] == "life":
        verdict, info = assoc.run_life(*r["args"])
    elif r["kind"] == "start-sweep":
        verdict, info = assoc.run_start_sweep(r["k"], r["refused"])
    else:
        verdict, info = assoc.run_life_sweep(r["victim"], r["k"], r["cause"])
    if verdict:
        rep.violation(verdict, r)
    rep.case(str(r)[:80])
    rep.states, rep.transitions = 1, 1
    rep.sample(r)
    return rep.finish()
