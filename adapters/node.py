"""A real bromelia node (Diameter + DiameterAssociation + PeerStateMachine + TcpClient/TcpServer with
all of their threads) running under the deterministic scheduler, with tick-level control of the state
machine thread.  Shared by C03b C04 C05 C06 C07 C08."""
import random

from engine import vsched

CLIENT_CFG = {"MODE": "CLIENT", "TRANSPORT_TYPE": "TCP", "APPLICATIONS": [], "LOCAL_NODE_HOSTNAME": "client.network",
              "LOCAL_NODE_REALM": "network", "LOCAL_NODE_IP_ADDRESS": "127.0.0.1", "LOCAL_NODE_PORT": 3868,
              "PEER_NODE_HOSTNAME": "server.peer.example", "PEER_NODE_REALM": "peer.example", "PEER_NODE_IP_ADDRESS": "127.0.0.1",
              "PEER_NODE_PORT": 3868, "WATCHDOG_TIMEOUT": 2}
SERVER_CFG = dict(CLIENT_CFG, MODE="SERVER", LOCAL_NODE_HOSTNAME="server.network", PEER_NODE_HOSTNAME="client.peer.example")
# (local and peer realm differ on purpose: a check of the peer's realm against the local one must not go unnoticed)

STATE_NAMES = {"Closed": "Closed", "Wait-Conn-Ack": "WaitConnAck", "Wait-I-CEA": "WaitICEA", "I-Open": "Open", "R-Open": "Open",
               "Open": "Open", "Closing": "Closing", "Wait-Returns": "WaitReturns", "Wait-Conn-Ack/Elect": "WaitConnAckElect"}

# 1 and 2 share the Hop-by-Hop, 1 and 3 share the End-to-End, 4 has a zero Hop-by-Hop: an answer that copies only one of
# the two identifiers, or copies them only when one of them changed, or treats zero as "unset", is told apart
IDMAP = {0: (0, 0), 1: (0x00000001, 0xFFFFFFFF), 2: (0x00000001, 0x80000000), 3: (0x7FFFFFFF, 0xFFFFFFFF), 4: (0x00000000, 0x00000100)}

_installed = False


def ensure_installed(seed=0):
    global _installed
    if not _installed:
        vsched.install(seed)
        _installed = True


class Node:
    def __init__(self, role="client", seed=0, apps=None, watchdog=2, sleep_timer=None, sched=None, cfg_override=None):
        ensure_installed()
        from bromelia import Diameter
        self.role = role
        self.s = sched if sched is not None else vsched.new_sched(seed, max_steps=400000)
        self.foreign_psm = ()            # state machine threads of other nodes in the same scheduler (never run by pump)
        cfg = dict(CLIENT_CFG if role == "client" else SERVER_CFG)
        cfg.update(cfg_override or {})
        cfg["WATCHDOG_TIMEOUT"] = watchdog
        cfg["APPLICATIONS"] = list(apps or [])
        self.cfg = cfg
        self.local = (cfg["LOCAL_NODE_HOSTNAME"], cfg["LOCAL_NODE_REALM"])
        self.peer = (cfg["PEER_NODE_HOSTNAME"], cfg["PEER_NODE_REALM"])
        self.d = Diameter(config=dict(cfg))
        self.sock = None
        self.listen = None
        self.generation = 0
        self.sent_log = []
        self.starter = None

    # ------------------------------------------------------------------ life cycle
    def start(self, refused=False, racing=False, refused_errno=None):
        """Diameter.start() in an application thread; returns once that thread has finished (racing: the new state machine
        thread runs while start() is still executing, in a random interleaving)"""
        self.generation += 1
        self.sock = vsched.FakeSock()
        self.sock.refused = refused
        if refused_errno is not None:
            self.sock.refused_errno = refused_errno
        if self.role == "client":
            vsched.NEXT_SOCKS.append(self.sock)
        else:
            self.listen = vsched.FakeSock()
            self.listen.backlog.append(self.sock)
            vsched.NEXT_SOCKS.append(self.listen)
        self.starter = self.s.spawn(f"app_start{self.generation}", self.d.start)
        if racing:
            n = 0
            while not self.starter.done and n < 4000:
                go = [t for t in self.s.threads if self.s.enabled(t) == "go"]
                if not go:
                    break
                self.s.step(self.s.rng.choice(go))
                n += 1
        self.run_others(until=lambda: self.starter.done, include_psm=False)
        return self.starter

    @property
    def assoc(self):
        return self.d._association

    @property
    def psm_thread(self):
        name = f"{self.role}_psm_thread"
        ts = [t for t in self.s.threads if t.name == name]
        return ts[-1] if ts else None

    def threads_of_generation(self):
        return [t for t in self.s.threads if not t.name.startswith(("app_", "consumer", "sender", "closer"))]

    # ------------------------------------------------------------------ stepping
    def _others(self):
        psm = self.psm_thread
        return [t for t in self.s.threads if t is not psm and t.name not in self.foreign_psm]

    def run_others(self, until=None, include_psm=False, fire_timers=False, limit=20000):
        """run every thread except the state machine thread until none of them can make progress"""
        n = 0
        while True:
            if until and until():
                return True
            pool = [t for t in (self.s.threads if include_psm else self._others())]
            go = [t for t in pool if self.s.enabled(t) == "go" and not self.s.is_idle(t)]
            if go:
                self.s.step(go[0])
            elif fire_timers:
                tm = [t for t in pool if self.s.enabled(t) == "timer"]
                if not tm:
                    return False
                self.s.step(min(tm, key=lambda x: x.deadline), fire_timeout=True)
            else:
                return False
            n += 1
            if n > limit:
                raise vsched.StepLimit("pump does not terminate")

    def pump(self):
        return self.run_others()

    def at_ticker(self, t):
        return t.pending is not None and t.pending[0] == "sleep" and (t.pending[2] or 0) < vsched.SHORT

    def tick(self):
        """one full iteration of the state machine thread (short sleep -> run() -> get_next_state -> short sleep)"""
        psm = self.psm_thread
        if psm is None or psm.done:
            return False
        first = True
        n = 0
        while True:
            if psm.done:
                break
            if not first and self.at_ticker(psm):
                break
            e = self.s.enabled(psm)
            if e == "go":
                self.s.step(psm)
                first = False
            elif e == "timer":
                # a long sleep of the state machine thread itself (forced close): other threads finish their work first
                self.pump()
                self.s.step(psm, fire_timeout=True)
                first = False
            else:
                if not self.run_one_other():
                    raise vsched.Deadlock("state machine thread blocked: " + self.s.describe_blocked())
            n += 1
            if n > 5000:
                raise vsched.StepLimit("tick does not terminate: " + self.s.describe_blocked())
        self.pump()
        return True

    def run_one_other(self):
        go = [t for t in self._others() if self.s.enabled(t) == "go"]
        if go:
            self.s.step(go[0])
            return True
        tm = [t for t in self._others() if self.s.enabled(t) == "timer"]
        if tm:
            self.s.step(min(tm, key=lambda x: x.deadline), fire_timeout=True)
            return True
        return False

    def idle_rounds(self, n):
        """let the transport's select() time out n times (an idle connection)"""
        for _ in range(n):
            tr = [t for t in self._others() if t.pending and t.pending[0] == "select" and self.s.enabled(t) == "timer"]
            if not tr:
                return False
            self.s.step(tr[0], fire_timeout=True)
            self.pump()
        return True

    # ------------------------------------------------------------------ environment
    def inject(self, msg):
        """a parsed message as the receive worker would have queued it"""
        self.assoc._recv_messages.put(msg)
        self.s.wake_idle()

    def feed(self, raw):
        self.sock.inbox.append(bytes(raw))
        self.s.wake_idle()              # the environment changed: nobody may be considered idle

    def peer_close(self):
        self.sock.eof = True
        self.s.wake_idle()

    def peer_reset(self):
        """the peer aborts the connection (RST): recv() raises ConnectionResetError"""
        self.sock.reset = True
        self.s.wake_idle()

    def take_sent(self):
        """messages written to the socket since the last call (decoded)"""
        from bromelia.base import DiameterMessage
        raw = bytes(self.sock.sent)
        del self.sock.sent[:]
        if not raw:
            return []
        msgs = DiameterMessage.load(raw)
        self.sent_log += msgs
        return msgs

    def take_delivered(self):
        q = self.assoc.postprocess_recv_messages if self.assoc is not None else None
        out = []
        while q is not None and q.items:
            out.append(q.items.popleft())
        return out

    def state(self):
        return STATE_NAMES.get(self.d.get_current_state(), str(self.d.get_current_state()))

    def alive_threads(self):
        return [t.name for t in self.s.threads if not t.done]

    def dead_threads(self):
        return [(t.name, f"{type(t.exc).__name__}: {t.exc}") for t in self.s.threads if t.exc is not None]

    # ------------------------------------------------------------------ messages
    def ids(self, i):
        return IDMAP.get(i, (i, i))

    def make(self, kind, valid=True, i=1, variant=0):
        """a base / application message from the peer, as a decoded object"""
        from bromelia.base import DiameterMessage, DiameterRequest, DiameterAnswer
        from bromelia.messages import CER, CEA, DWR, DWA, DPR, DPA
        from bromelia.avps import (SessionIdAVP, OriginHostAVP, OriginRealmAVP, DestinationRealmAVP, DestinationHostAVP, UserNameAVP,
                                   ResultCodeAVP, ProductNameAVP, DisconnectCauseAVP)
        from bromelia.constants import DISCONNECT_CAUSE_BUSY
        # a controlled thread parked inside an identifier draw holds the (real) identifiers lock that the
        # constructors below need: let it finish the draw first
        for _ in range(200):
            ts = [t for t in self.s.threads if not t.done and t.pending is not None and t.pending[0] == "op" and t.pending[2] == "urandom"]
            if not ts:
                break
            self.s.step(ts[0])
        host, realm = self.peer
        mode = variant % 4 if not valid else -1          # 0 wrong host, 1 flag bits, 2 structure, 3 right host but the local realm
        if mode == 3 and kind not in ("CER", "CEA", "DWR", "DWA", "DPR"):
            mode = 0
        if mode == 0:
            host = "intruder.network"
        if mode == 3:
            realm = self.local[1]
        hbh, e2e = self.ids(i)
        if kind == "CER":
            m = CER(origin_host=host, origin_realm=realm, host_ip_address="127.0.0.2")
            if mode == 2:
                m.append(ProductNameAVP("again"))
        elif kind == "CEA":
            m = CEA(origin_host=host, origin_realm=realm, host_ip_address="127.0.0.2")
            if mode == 2:
                m.pop("result_code_avp")
        elif kind == "DWR":
            m = DWR(origin_host=host, origin_realm=realm)
            if mode == 2:
                m.pop("origin_realm_avp")
        elif kind == "DWA":
            m = DWA(origin_host=host, origin_realm=realm)
            if mode == 2:
                m.pop("result_code_avp")
        elif kind == "DPR":
            m = DPR(origin_host=host, origin_realm=realm)
            if mode == 2:
                m.disconnect_cause_avp.data = DISCONNECT_CAUSE_BUSY
        elif kind == "DPA":
            m = DPA(origin_host=host, origin_realm=realm)
            if mode == 2:
                m.pop("result_code_avp")
        elif kind in ("REQ", "MIS"):
            m = DiameterRequest(command_code=316, application_id=16777251)
            m.extend([SessionIdAVP(b"peer;1;%d" % i), OriginHostAVP(host), OriginRealmAVP(realm),
                      DestinationRealmAVP(self.local[1] if kind == "REQ" else "elsewhere.example"),
                      UserNameAVP("user%d" % i)])
            if kind == "MIS" or variant % 2:
                m.append(DestinationHostAVP(self.local[0] if kind == "REQ" else "other.host.example"))
        elif kind == "ANS":
            m = DiameterAnswer(command_code=316, application_id=16777251)
            m.extend([SessionIdAVP(b"local;1;%d" % i), ResultCodeAVP(2001), OriginHostAVP(host), OriginRealmAVP(realm)])
        else:
            raise AssertionError(kind)
        if mode == 1 and kind in ("CER", "CEA", "DWR", "DWA", "DPR"):
            m.header.flags = m.header.get_flags() | 0x40          # P bit: the flag byte is not exactly 0x80 / 0x00
        if mode == 1 and kind == "DPA":
            # a protocol-error answer: E bit and DIAMETER_TOO_BUSY
            from bromelia.avps import ResultCodeAVP as _RC
            m.result_code_avp.data = (3004).to_bytes(4, "big")
            m.header.flags = m.header.get_flags() | 0x20
        m.header.hop_by_hop = hbh
        m.header.end_to_end = e2e
        m.refresh()
        return DiameterMessage.load(m.dump())[0]

    def classify(self, m):
        """abstract kind of a message the node emitted or delivered"""
        code = m.header.get_command_code()
        req = m.header.is_request()
        k = {(257, True): "CER", (257, False): "CEA", (280, True): "DWR", (280, False): "DWA", (282, True): "DPR", (282, False): "DPA"}.get((code, req))
        if k is None:
            k = "REQ" if req else "ANS"
        return k

    def id_of(self, m):
        pair = (m.header.get_hop_by_hop(), m.header.get_end_to_end())
        for i, p in IDMAP.items():
            if p == pair:
                return i
        return -1
