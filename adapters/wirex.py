"""Shared concretisation / projection between the abstract content of spec/Wire.tla and real
bromelia objects (used by C01 C02 C03 C09 C12)."""
import datetime
import ipaddress
import json
import os

from . import dictx

VERIF = os.path.dirname(os.path.dirname(os.path.abspath(__file__)))


def ref_dictionary():
    return json.load(open(os.path.join(VERIF, "ref", "avp_dictionary.json")))


def b4(n):
    return list(int(n).to_bytes(4, "big"))


def vend(v):
    return [] if v is None else b4(v)


# ---------------------------------------------------------------- abstract content from arguments

def abstract_from_spec(spec, ref):
    """spec produced by dictx.make_avp/make_generic -> abstract AVP of Wire.tla, using the FROZEN
    reference dictionary for code / vendor / default flags of dictionary classes."""
    if spec["cls"] is None:
        return {"code": b4(spec["code"]), "flags": spec["flags"], "vendor": vend(spec["vendor"]),
                "data": list(spec["data"]), "members": [], "group": False}
    e = ref[spec["cls"]]
    a = {"code": b4(e["code"]), "flags": e["flags"], "vendor": vend(e["vendor"])}
    if "members" in spec:
        a.update(data=[], members=[abstract_from_spec(m, ref) for m in spec["members"]], group=True)
    else:
        a.update(data=list(spec["data"]), members=[], group=False)
    return a


def abstract_header(h):
    """real DiameterHeader -> abstract header (None when a field is not bytes of the right width)"""
    try:
        return {"version": h.version[0], "flags": h.flags[0], "cmd": list(h.command_code),
                "app": list(h.application_id), "hbh": list(h.hop_by_hop), "e2e": list(h.end_to_end)}
    except BaseException:
        return None


# ---------------------------------------------------------------- projection of real objects

def is_grouped_obj(avp):
    from bromelia.types import GroupedType
    return isinstance(avp, GroupedType)


def project_avp(avp, deep=True):
    """real AVP object -> abstract AVP as the object itself reports it (code, flags, vendor_id, data,
    and for Grouped classes the member objects)"""
    code = avp.code if isinstance(avp.code, bytes) else b""
    vendor = avp.vendor_id
    a = {"code": list(code), "flags": avp.flags[0] if isinstance(avp.flags, bytes) and len(avp.flags) == 1 else -1,
         "vendor": list(vendor) if isinstance(vendor, bytes) else [],
         "cls": type(avp).__name__}
    if deep and is_grouped_obj(avp):
        a.update(data=[], members=[project_avp(m) for m in avp.avps], group=True,
                 rawdata=list(avp.data or b""))
    else:
        a.update(data=list(avp.data or b""), members=[], group=False)
    return a


def project_msg(msg):
    return {"h": abstract_header(msg.header), "avps": [project_avp(a) for a in msg.avps]}


def strip(a):
    """abstract AVP without harness-only keys (what TLC compares)"""
    return {"code": a["code"], "flags": a["flags"], "vendor": a["vendor"], "data": a["data"],
            "members": [strip(m) for m in a["members"]], "group": a["group"]}


def strip_msg(m):
    return {"h": m["h"], "avps": [strip(a) for a in m["avps"]]}


# ---------------------------------------------------------------- building real objects from abstract content

def arg_for(d, data, variant):
    """constructor argument for dictionary class descriptor d carrying `data` bytes; `variant`
    selects among the equivalent public ways to pass the value"""
    data = bytes(data)
    t = d.type
    if t == "Unsigned32Type" and variant % 2 == 0:
        return int.from_bytes(data, "big")
    if t == "Unsigned64Type" and variant % 2 == 0 and data[0] < 128:
        return int.from_bytes(data, "big")
    if t == "AddressType" and (d.vendor, d.code) in dictx.PACKED_V4:
        return str(ipaddress.IPv4Address(data)) if variant % 2 == 0 else data
    if t == "AddressType" and variant % 2 == 0:
        if data[:2] == b"\x00\x01":
            return str(ipaddress.IPv4Address(data[2:]))
        return str(ipaddress.IPv6Address(data[2:]))
    if t == "TimeType" and variant % 2 == 0:
        return datetime.datetime(1900, 1, 1) + datetime.timedelta(seconds=int.from_bytes(data, "big"))
    if t in ("UTF8StringType", "DiameterIdentityType", "DiameterURIType") and variant % 2 == 0:
        return data.decode("utf-8")
    return data


def build_avp(a, byname, variant=0):
    """abstract AVP with harness keys ('cls' = dictionary class name or None) -> real object"""
    from bromelia.base import DiameterAVP
    if a.get("cls") is None:
        vendor = int.from_bytes(bytes(a["vendor"]), "big") if a["vendor"] else None
        if variant % 2:
            return DiameterAVP(code=bytes(a["code"]), vendor_id=bytes(a["vendor"]) if a["vendor"] else None,
                               flags=bytes([a["flags"]]), data=bytes(a["data"]))
        return DiameterAVP(code=int.from_bytes(bytes(a["code"]), "big"), vendor_id=vendor,
                           flags=a["flags"], data=bytes(a["data"]))
    d = byname[a["cls"]]
    if a["group"]:
        members = [build_avp(m, byname, variant) for m in a["members"]]
        if variant % 3 == 2 and len(members) > 1:
            g = d.cls(members[:1])
            for m in members[1:]:
                # the AVP is serialised and measured while it grows: what was read once must not be remembered past a change
                g.dump()
                len(g)
                g.get_length()
                g.append(m)
            return g
        return d.cls(members)
    return d.cls(arg_for(d, a["data"], variant))


def build_msg(m, byname, variant=0):
    from bromelia.base import DiameterMessage, DiameterHeader
    h = m["h"]
    if variant % 2:
        hdr = DiameterHeader(version=h["version"], flags=h["flags"], command_code=int.from_bytes(bytes(h["cmd"]), "big"),
                             application_id=int.from_bytes(bytes(h["app"]), "big"),
                             hop_by_hop=int.from_bytes(bytes(h["hbh"]), "big"),
                             end_to_end=int.from_bytes(bytes(h["e2e"]), "big"))
    else:
        hdr = DiameterHeader(version=bytes([h["version"]]), flags=bytes([h["flags"]]), command_code=bytes(h["cmd"]),
                             application_id=bytes(h["app"]), hop_by_hop=bytes(h["hbh"]), end_to_end=bytes(h["e2e"]))
    avps = [build_avp(a, byname, variant) for a in m["avps"]]
    way = variant % 4
    if way == 0:
        return DiameterMessage(hdr, avps)
    msg = DiameterMessage(hdr)
    if way == 1:
        for a in avps:
            msg.append(a)
    elif way == 2:
        msg.extend(avps)
    else:
        msg.avps = avps
    return msg


# ---------------------------------------------------------------- build paths that mutate: grow, then shrink back

def first_leaf(a):
    """first leaf AVP (abstract) found in a, depth first"""
    if not a["group"]:
        return a
    for m in a["members"]:
        l = first_leaf(m)
        if l is not None:
            return l
    return None


def nested_leaf(a):
    """a leaf that sits inside a nested group of group a (preferred) or any leaf of a"""
    for m in a["members"]:
        if m["group"]:
            l = first_leaf(m)
            if l is not None:
                return l
    return first_leaf(a)


def key_of(container, obj):
    for k, v in vars(container).items():
        if v is obj and "_avp" in k and k != "_avps":
            return k
    raise KeyError("appended AVP has no attribute name")


def build_avp_gs(a, byname, variant=0):
    """like build_avp, but every Grouped AVP is built with one extra member (an equal-valued copy of a leaf
    nested inside it) which is popped again: the final content is the same"""
    if a.get("cls") is None or not a["group"]:
        return build_avp(a, byname, variant)
    d = byname[a["cls"]]
    members = [build_avp_gs(m, byname, variant) for m in a["members"]]
    g = d.cls(members)
    leaf = nested_leaf(a)
    if leaf is not None:
        extra = build_avp(leaf, byname, variant)
        g.append(extra)
        g.pop(key_of(g, extra))
    return g


def build_msg_replace(m, byname, variant=0):
    """the content replaces an earlier one in which every name occurs several times: first through the avps setter, then (odd
    variants) through cleanup() followed by extend()"""
    from bromelia.base import DiameterMessage
    base = build_msg({"h": m["h"], "avps": []}, byname, variant)
    prior = [build_avp(a, byname, variant) for a in m["avps"]] + [build_avp(a, byname, variant + 1) for a in m["avps"]] + \
            [build_avp(a, byname, variant) for a in m["avps"][:1]]
    msg = DiameterMessage(base.header, prior)
    msg.dump()
    avps = [build_avp(a, byname, variant) for a in m["avps"]]
    if variant % 2:
        msg.cleanup()
        msg.extend(avps)
    else:
        msg.avps = avps
    return msg


def build_msg_gs(m, byname, variant=0):
    from bromelia.base import DiameterMessage
    base = build_msg({"h": m["h"], "avps": []}, byname, variant)
    avps = [build_avp_gs(a, byname, variant) for a in m["avps"]]
    msg = DiameterMessage(base.header, avps)
    leaf = None
    for a in m["avps"]:
        leaf = first_leaf(a)
        if leaf is not None:
            break
    if leaf is not None:
        extra = build_avp(leaf, byname, variant)
        msg.append(extra)
        msg.pop(key_of(msg, extra))
    return msg
