"""Binding of spec/Validate.tla (the verdict of bromelia/process.py on a base-protocol message, i.e. the `valid` field
of Psm.tla): TLC enumerates the standard message of each kind with every single mutation (AVP dropped / duplicated /
flag byte changed / identity of another node or of the local node / Disconnect-Cause, extra AVPs) under several header
flag bytes and computes Valid; the harness builds each as real objects and asks the real BaseMessageProcessor."""
from engine import vectors

DEFS = "Vecs == SetToSeq({[m |-> m, v |-> Valid(m)] : m \\in Focus})"
CODE = {"OH": 264, "OR": 296, "HIP": 257, "VID": 266, "PN": 269, "OSI": 278, "RC": 268, "DC": 273, "OTHER": 281}
CMD = {"CER": 257, "CEA": 257, "DWR": 280, "DWA": 280, "DPR": 282, "DPA": 282}


def build(n, m):
    """abstract message -> real DiameterMessage for node n (peer / local identities from its configuration)"""
    from bromelia.base import DiameterMessage, DiameterHeader
    from bromelia.avps import (OriginHostAVP, OriginRealmAVP, HostIpAddressAVP, VendorIdAVP, ProductNameAVP, OriginStateIdAVP, ResultCodeAVP,
                               DisconnectCauseAVP, ErrorMessageAVP)
    from bromelia.constants import DISCONNECT_CAUSE_REBOOTING, DISCONNECT_CAUSE_BUSY
    ident = {"peer": n.peer, "local": n.local, "other": ("stranger.elsewhere.example", "elsewhere.example")}
    avps = []
    for a in m["avps"]:
        c, d = a["c"], a["d"]
        if a.get("vs", "none") != "none":
            # a vendor-specific AVP of another vendor that happens to use the same code (generic on decode), 2 or 8 data octets
            from bromelia.base import DiameterAVP
            avps.append(DiameterAVP(code=CODE[c], vendor_id=9999, flags=a["fl"] | 0x80, data=bytes(range(1, 3 if a["vs"] == "short" else 9))))
            continue
        if c == "OH":
            x = OriginHostAVP(ident[d][0])
        elif c == "OR":
            x = OriginRealmAVP(ident[d][1])
        elif c == "HIP":
            x = HostIpAddressAVP("10.9.8.7")
        elif c == "VID":
            x = VendorIdAVP(0)
        elif c == "PN":
            x = ProductNameAVP("peer product")
        elif c == "OSI":
            x = OriginStateIdAVP(1)
        elif c == "RC":
            x = ResultCodeAVP(2001)
        elif c == "DC":
            x = DisconnectCauseAVP(DISCONNECT_CAUSE_REBOOTING if d == "rebooting" else DISCONNECT_CAUSE_BUSY)
        else:
            x = ErrorMessageAVP("something else")
        x.flags = bytes([a["fl"]])
        avps.append(x)
    hdr = DiameterHeader(flags=bytes([m["hflags"]]), command_code=CMD[m["kind"]], application_id=0, hop_by_hop=0x01020304, end_to_end=0x0a0b0c0d)
    return DiameterMessage(header=hdr, avps=avps)


def verdict(n, assoc_obj, m):
    from bromelia.process import BaseMessageProcessor
    msg = build(n, m)
    p = BaseMessageProcessor(assoc_obj)
    if m["kind"] in ("CER", "CEA"):
        return bool(p.is_valid_capability_exchange(msg))
    if m["kind"] in ("DWR", "DWA"):
        return bool(p.is_valid_device_watchdog(msg))
    return bool(p.is_valid_disconnect_peer(msg))


def stage(rep):
    from . import node as nodemod
    from bromelia.setup import DiameterAssociation
    vecs, res = vectors.gen("Gen_Validate", ["Validate", "SequencesExt"], DEFS, "Vecs", theorems=("StdValid", "OnlyPeer", "NoForeignIdentity", "~OnlyPeerHistoric"),
                            timeout=900)
    rep.tlc(f"Gen_Validate ({len(vecs)} messages: single and double mutations; 3 theorems; the count-only verdict of the tree before "
            f"F-C06-foreign-identity-counted shown to accept a foreign identity)", res)
    if len(vecs) < 500 or not any(v["v"] for v in vecs) or all(v["v"] for v in vecs):
        raise vectors.tlc.TlcError(f"Gen_Validate: degenerate vector set ({len(vecs)})")
    nbad = 0
    for role in ("client", "server"):
        n = nodemod.Node(role, seed=0)
        try:
            a = DiameterAssociation(n.d._connection, n.d._base)
            for v in vecs:
                m = v["m"]
                rep.case(("validate", role, m["kind"], m["hflags"], tuple((x["c"], x["fl"], x["d"], x.get("vs", "none")) for x in m["avps"])))
                try:
                    got = verdict(n, a, m)
                except BaseException as e:
                    got = f"raised {type(e).__name__}: {e}"
                if got != v["v"]:
                    nbad += 1
                    if nbad <= 5:
                        rep.violation(f"{role}: the validator says {got} for a {m['kind']} with header flags {m['hflags']:#04x} and AVPs "
                                      f"{[(x['c'], x['fl'], x['d']) + ((x['vs'],) if x.get('vs', 'none') != 'none' else ()) for x in m['avps']]}; specification (Validate.tla): {v['v']}",
                                      {"kind": "validate", "role": role, "m": m, "expected": v["v"]})
        finally:
            n.s.kill_all()
    rep.notes["validator_vectors"] = 2 * len(vecs)


def replay_one(rep, r):
    from . import node as nodemod
    from bromelia.setup import DiameterAssociation
    n = nodemod.Node(r["role"], seed=0)
    try:
        a = DiameterAssociation(n.d._connection, n.d._base)
        got = verdict(n, a, r["m"])
        if got != r["expected"]:
            rep.violation(f"validator says {got}, specification {r['expected']}", r)
    finally:
        n.s.kill_all()
