"""C13 -- each request reaches its registered handler and always gets exactly one answer.

Specification: spec/Router.tla (route table, Dispatch, fallback answer).  TLC model-checks every route
table over 2 applications x 2 command codes (one code shared by both applications) and every request
sequence up to the bound against RightHandler / ExactlyOneAnswer / FallbackRule, and emits
ExpectedFor(scenario); the harness registers the routes on a real Bromelia object (YAML written to a
scratch file, real Worker objects on an in-process manager), runs the real callback_route for every
request and compares which handler ran and what was placed on the worker's send queue.
 T: random tables / sequences / typed request classes recorded and validated by TLC.
"""
import json
import os
import queue
import random
import threading

from engine import vectors, tlc
from engine.report import guard, VERIF
from . import dictx

T = tlc.tla

APPS = {"a1": ("DIAMETER_APPLICATION_S6a_S6d", 16777251), "a2": ("DIAMETER_APPLICATION_SWx", 16777265)}
CMDS = {"c1": 316, "c2": 274}          # 274 is registered under both applications in some tables
LOCAL = {"a1": ("hss.local.example", "local.example"), "a2": ("aaa.local.example", "local.example")}


class CountingLock:
    """the worker's send lock in a harness without a consumer thread: never blocks, counts"""
    def __init__(self):
        self.n = 0

    def acquire(self, *a, **k):
        self.n += 1
        return True

    def release(self):
        self.n -= 1

    def locked(self):
        return self.n > 0

    def __enter__(self):
        self.acquire()
        return self

    def __exit__(self, *a):
        self.release()


class InstantBarrier:
    """threading.Barrier double: fewer parties than the threshold (40/50) always ends in the timeout
    branch of the real code too; the double takes that branch without sleeping"""
    def wait(self, timeout=None):
        raise threading.BrokenBarrierError()

    def reset(self):
        pass


class InProcessManager:
    def Event(self):
        return threading.Event()

    def Queue(self):
        return queue.Queue()

    def Lock(self):
        return CountingLock()


YAML = """api_version: v1
name: verif
spec:
{entries}
"""
ENTRY = """  - mode: server
    applications:
      - vendor_id: VENDOR_ID_3GPP
        app_id: {const}
    watchdog_timeout: 30
    local:
      hostname: {host}
      realm: {realm}
      ip_address: 127.0.0.1
      port: {port}
    peer:
      hostname: peer.remote.example
      realm: remote.example
      ip_address: 127.0.0.1
      port: {pport}
"""


class Router:
    """a real Bromelia object with real Worker objects that never start their connection"""

    def __init__(self, byname=None):
        from bromelia.bromelia import Bromelia, Worker
        from bromelia.setup import Diameter
        os.makedirs(os.path.join(VERIF, ".work"), exist_ok=True)
        path = os.path.join(VERIF, ".work", f"router-{os.getpid()}.yaml")
        with open(path, "w") as f:
            f.write(YAML.format(entries="".join(ENTRY.format(const=APPS[a][0], host=LOCAL[a][0], realm=LOCAL[a][1],
                                                             port=3868 + i, pport=3878 + i) for i, a in enumerate(sorted(APPS)))))
        self.app = Bromelia(config_file=path)
        os.remove(path)
        for name in ("request_threshold", "answer_threshold", "send_threshold"):
            if isinstance(getattr(self.app, name, None), threading.Barrier):
                setattr(self.app, name, InstantBarrier())
        Worker.associations = dict()
        Worker.recv_queues = list()
        self.workers = {}
        mgr = InProcessManager()
        for config in self.app.configs:
            d = Diameter(config=config)
            w = Worker(d, mgr)
            w.is_open.set()
            for application in config["APPLICATIONS"]:
                self.workers[application["app_id"]] = w
        self.app.associations = Worker.associations
        self.app.recv_queues = Worker.recv_queues

    def clear_routes(self):
        self.app.routes = {}
        self.app._routes = {}

    def register(self, app_id, cmd, fn):
        self.app.route(application_id=app_id, command_code=cmd)(fn)

    def drain(self):
        out = []
        self.drained_from = []          # per drained message: the Application-IDs served by the worker it was queued on
        for w in set(self.workers.values()):
            while not w.send_queue.empty():
                out.append(w.send_queue.get())
                self.drained_from.append([a for a, ww in self.workers.items() if ww is w])
                w.send_event.clear()
                w.send_lock.release()
        return out

    def dispatch(self, request):
        """run the real per-request thread body; returns (queued messages, exception or None)"""
        from bromelia.exceptions import BromeliaException
        exc = None
        try:
            self.app.callback_route(request)
        except BromeliaException as e:
            exc = e
        return self.drain(), exc

    def route_once(self, request, handler):
        self.clear_routes()
        self.register(request.header.application_id, request.header.command_code, handler)
        return self.dispatch(request)[0]


def app_bytes(a):
    return APPS[a][1].to_bytes(4, "big")


def cmd_bytes(c):
    return CMDS[c].to_bytes(3, "big")


def make_request(a, c, k, rng, typed=False):
    from bromelia.base import DiameterRequest
    from bromelia.avps import SessionIdAVP, OriginHostAVP, OriginRealmAVP, DestinationRealmAVP, UserNameAVP
    sid = ("peer.remote.example;%d;%d;req%d" % (rng.getrandbits(20), k, k)).encode()
    req = DiameterRequest(command_code=CMDS[c], application_id=APPS[a][1],
                          avps=[SessionIdAVP(sid), OriginHostAVP("mme%d.remote.example" % k), OriginRealmAVP("remote%d.example" % (k % 2)),
                                DestinationRealmAVP(LOCAL[a][1]), UserNameAVP("user%d" % k)])
    return req


def make_answer(req, rng):
    from bromelia.base import DiameterAnswer
    from bromelia.avps import SessionIdAVP, OriginHostAVP, OriginRealmAVP, ResultCodeAVP
    app_id = req.header.application_id
    if rng.random() < 0.3:
        # a route function that builds its answer from the message class of another interface (shared command codes): the answer
        # still belongs to the request, and leaves on the request's connection
        others = [a.to_bytes(4, "big") for _n, a in APPS.values() if a.to_bytes(4, "big") != bytes(app_id)]
        app_id = rng.choice(others)
    return DiameterAnswer(command_code=req.header.command_code, application_id=app_id,
                          avps=[SessionIdAVP(b"placeholder;0;0"), ResultCodeAVP(2001), OriginHostAVP("h.local.example"), OriginRealmAVP("local.example")])


def run_scenario(router, table, reqs, rng):
    """table: list of [app, cmd]; reqs: list of [[app, cmd], outcome]. Returns observed dict."""
    from bromelia.base import DiameterAnswer, DiameterRequest
    router = Router()            # a fresh application object per scenario: routes are only ever set through route()
    ran = []
    state = {}

    def handler_for(pair):
        def handler(request):
            ran.append(["handler", pair[0], pair[1]])
            out = state["outcome"]
            if out == "answer":
                state["answer"] = make_answer(request, rng)
                return state["answer"]
            if out == "none":
                return None
            if out == "wrongtype":
                return rng.choice(["not an answer", 5012, make_request(pair[0], pair[1], 0, rng), [state]])
            # standard exceptions in the shapes handlers produce them: with a message, without arguments, several arguments
            exc = rng.choice([ValueError("handler failed"), KeyError("missing"), RuntimeError(), AssertionError(), NotImplementedError(),
                              ZeroDivisionError("division by zero"), Exception("a", 1), IndexError(), TypeError(None), OSError(5, "io")])
            raise exc
        return handler
    for pair in table:
        router.register(app_bytes(pair[0]), cmd_bytes(pair[1]), handler_for(tuple(pair)))
    sent, problems = [], []
    prev = {}
    for k, (pair, outcome) in enumerate(reqs, 1):
        req = make_request(pair[0], pair[1], k, rng)
        if k > 1 and rng.random() < 0.3 and prev.get(tuple(pair)) is not None:
            # a retransmission: the same request again (same identifiers and Session-Id, T bit set) is a request like any other
            old = prev[tuple(pair)]
            req = make_request(pair[0], pair[1], k, rng)
            req.header.hop_by_hop, req.header.end_to_end = old.header.hop_by_hop, old.header.end_to_end
            req.session_id_avp.data = old.session_id_avp.data
            req.origin_host_avp.data = old.origin_host_avp.data
            req.refresh()
            req.header.flags = bytes([req.header.flags[0] | 0x10])
        prev[tuple(pair)] = req
        state["outcome"], state["answer"] = outcome, None
        before = len(ran)
        try:
            with guard(20, "callback_route"):
                queued, exc = router.dispatch(req)
        except BaseException as e:
            problems.append(f"request {k} ({outcome}): callback_route raised {type(e).__name__}: {e}")
            if type(e).__name__ == "Hang":
                router.drain()
                sent.append("?")
                break                   # the rest of this scenario would wait on the same call
            router.drain()
            sent.append("?")
            continue
        if len(ran) != before + 1:
            problems.append(f"request {k}: {len(ran) - before} handler invocations")
        if len(queued) != 1:
            problems.append(f"request {k} ({outcome}): {len(queued)} message(s) placed on the send queue")
            sent.append("none" if not queued else "many")
            continue
        m = queued[0]
        if bytes(req.header.application_id) not in [bytes(a) for a in router.drained_from[0]]:
            problems.append(f"request {k} ({outcome}) of application {bytes(req.header.application_id).hex()}: its answer was queued on the connection of "
                            f"application(s) {[bytes(a).hex() for a in router.drained_from[0]]}")
        if outcome == "answer":
            if m is not state["answer"]:
                problems.append(f"request {k}: the message on the send queue is not the handler's answer")
            sent.append("answer")
            p = check_identity(m, req, None, None)
        else:
            sent.append("5012" if is_5012(m) else "other")
            p = check_identity(m, req, LOCAL[pair[0]], outcome)
        problems += [f"request {k} ({outcome}): {x}" for x in p]
    return {"ran": ran, "sent": sent}, problems


def is_5012(m):
    from bromelia.avps import ResultCodeAVP
    rc = [a for a in m.avps if isinstance(a, ResultCodeAVP)]
    return len(rc) == 1 and rc[0].data == (5012).to_bytes(4, "big")


def check_identity(m, req, local, outcome):
    from bromelia.base import DiameterAnswer
    from bromelia.avps import SessionIdAVP, OriginHostAVP, OriginRealmAVP, DestinationHostAVP, DestinationRealmAVP
    bad = []
    if not isinstance(m, DiameterAnswer) or m.header.is_request():
        bad.append("the message sent is not an answer")
        return bad
    if (m.header.hop_by_hop, m.header.end_to_end, m.header.application_id, m.header.command_code) != \
            (req.header.hop_by_hop, req.header.end_to_end, req.header.application_id, req.header.command_code):
        bad.append("identifiers / Application-ID / command code differ from the request's")

    def one(cls):
        xs = [a for a in m.avps if isinstance(a, cls)]
        return xs[0].data if len(xs) == 1 else None
    if one(SessionIdAVP) != req.session_id_avp.data:
        bad.append(f"Session-Id {one(SessionIdAVP)!r}, request {req.session_id_avp.data!r}")
    if local is not None:
        if one(OriginHostAVP) != local[0].encode() or one(OriginRealmAVP) != local[1].encode():
            bad.append(f"origin {one(OriginHostAVP)!r}/{one(OriginRealmAVP)!r}, local node {local}")
        if one(DestinationHostAVP) != req.origin_host_avp.data or one(DestinationRealmAVP) != req.origin_realm_avp.data:
            bad.append(f"destination {one(DestinationHostAVP)!r}/{one(DestinationRealmAVP)!r}, requester {req.origin_host_avp.data!r}/{req.origin_realm_avp.data!r}")
    raw = m.dump()
    if m.header.get_length() != len(raw):
        bad.append(f"Message Length {m.header.get_length()} for {len(raw)} bytes")
    return bad


GEN = r"""
Scenarios == UNION {{[table |-> t, reqs |-> r] : r \in ReqsOver(t)} : t \in Tables}
Vecs == SetToSeq({[table |-> SetToSeq(s.table), reqs |-> s.reqs, exp |-> ExpectedFor(s.reqs)] : s \in Scenarios})
"""


def run(rep):
    maxreqs = 2 if rep.tier == "quick" else 3
    rep.rule = (f"TLC: all 15 route tables over 2 applications x 2 command codes x all request sequences of length <= {maxreqs} x 4 handler "
                "outcomes, invariants RightHandler/ExactlyOneAnswer/FallbackRule; every scenario executed on a real Bromelia object; "
                "T: random scenarios validated by TLC. distinct = distinct scenarios")
    cfg = f"SPECIFICATION Spec\nCONSTANTS Apps = {{\"a1\", \"a2\"}}\n Cmds = {{\"c1\", \"c2\"}}\n MaxReqs = {maxreqs}\n" \
          "INVARIANT RightHandler\nINVARIANT ExactlyOneAnswer\nINVARIANT FallbackRule\nCHECK_DEADLOCK FALSE\n"
    res, _ = tlc.run("Router", cfg, workers=8, timeout=1200)
    tlc.must_ok(res, "Router")
    rep.tlc("Router", res)
    defs = f'Apps == {{"a1", "a2"}}\nCmds == {{"c1", "c2"}}\nMaxReqs == {maxreqs}\n'
    # the Gen module instantiates Router's operators with the same constants
    gen_mod = defs + "INSTANCE Router WITH Apps <- Apps, Cmds <- Cmds, MaxReqs <- MaxReqs, table <- 0, reqs <- 0, todo <- 0, ran <- 0, sent <- 0\n" + GEN
    vecs, res = vectors.gen("Gen_Router", ["Naturals", "Sequences", "FiniteSets", "SequencesExt"], gen_mod, "Vecs", java_opts=("-Xmx4g",), timeout=1200)
    rep.tlc("Gen_Router", res)
    router = Router()
    rng = random.Random(rep.seed * 7919 + 13)
    for v in vecs:
        reqs = [[list(r[0]), r[1]] for r in v["reqs"]]
        rep.case(json.dumps([v["table"], reqs]))
        obs, problems = run_scenario(router, v["table"], reqs, rng)
        replay = {"kind": "scenario", "table": v["table"], "reqs": reqs}
        exp_ran = [list(x) for x in v["exp"]["ran"]]
        if obs["ran"] != exp_ran:
            rep.violation(f"handlers run {obs['ran']}, registered for the requests' (application, command) pairs: {exp_ran}", replay)
        if obs["sent"] != list(v["exp"]["sent"]):
            rep.violation(f"send queue received {obs['sent']}, specification {list(v['exp']['sent'])} for outcomes {[r[1] for r in reqs]}", replay)
        for p in problems:
            rep.violation(p, replay)
        if len(rep.violations) >= 40 or sum(1 for x in rep.violations if "Hang" in str(x)) >= 2:
            break                       # (a call that never returns costs its whole time limit: two of them are enough)
    rep.notes["scenarios"] = len(vecs)
    # requests in flight together (each in its own thread), scheduled line by line
    from engine import vsched
    vsched.install(rep.seed)
    rng2 = random.Random(rep.seed * 7919 + 130)
    ncc = 0
    for i in range(20 if rep.tier == "quick" else 400):
        for outs in (("answer", "answer"), ("raise", "raise"), ("answer", "none")):
            for wl in (False, True):
                seed = rng2.getrandbits(30)
                verdict = run_concurrent(seed, outs, wl)
                ncc += 1
                rep.case(("concurrent", i, outs, wl))
                if verdict:
                    rep.violation(f"two requests handled at the same time (handler outcomes {outs}{', a local caller waiting on the same Hop-by-Hop' if wl else ''}): {verdict}",
                                  {"kind": "concurrent", "seed": seed, "outcomes": list(outs), "with_local": wl})
        if len(rep.violations) >= 10:
            break
    rep.notes["concurrent_executions"] = ncc
    if len(rep.violations) < 10:
        long_history(rep)
    if len(rep.violations) < 10:
        route_history(rep)
    # the whole stack of one interface: real node, Worker loops, Bromelia.main, per-message threads (spec/Stack.tla)
    if len(rep.violations) < 10:
        from . import stack
        stack.stage(rep, 60 if rep.tier == "quick" else 1500, focus="requests")
    rep.sample({"scenario": vecs[len(vecs) // 2]})
    rep.exhaustive = True

    # ---- T: random longer scenarios
    n = 150 if rep.tier == "quick" else 5000
    recs, meta = [], []
    pairs = [[a, c] for a in sorted(APPS) for c in sorted(CMDS)]
    for i in range(n):
        table = rng.sample(pairs, rng.randint(1, 4))
        reqs = [[rng.choice(table), rng.choice(["answer", "none", "wrongtype", "raise"])] for _ in range(rng.randint(1, 8))]
        obs, problems = run_scenario(router, table, reqs, rng)
        recs.append({"reqs": reqs, "ran": obs["ran"], "sent": obs["sent"], "clean": not problems})
        meta.append({"kind": "scenario", "table": table, "reqs": reqs, "problems": problems[:3]})
        rep.case(("T", i))
    bad, res = vectors.validate("Trace_Router", ["Naturals", "Sequences", "FiniteSets", "SequencesExt"], gen_mod.replace(GEN, ""), recs,
                                "r.clean /\\ r.ran = ExpectedFor(r.reqs).ran /\\ r.sent = ExpectedFor(r.reqs).sent")
    rep.tlc("Trace_Router", res)
    rep.traces_validated += len(recs)
    for i in bad[:10]:
        rep.violation(f"TLC rejects the recorded dispatch: ran {recs[i]['ran']} sent {recs[i]['sent']} {meta[i]['problems']} for {meta[i]['reqs']}", meta[i])
    rep.sample({"trace_record": recs[0]})
    rep.assumptions += ["requests are addressed to registered (Application-ID, command code) pairs and carry Session-Id, Origin-Host and Origin-Realm",
                        "the worker's send lock is replaced by a counting lock (no consumer thread in the sequential harness); concurrency of the "
                        "hand-over is exercised by C14's scheduler runs"]


def replay(rep, path):
    r = json.load(open(path))["replay"]
    if r.get("kind") == "stack":
        from . import stack
        return stack.replay(rep, r)
    if r.get("kind") == "route-history":
        route_history(rep)
        rep.states, rep.transitions = 1, 1
        rep.sample(r)
        return rep.finish()
    if r.get("kind") == "long-history":
        long_history(rep)
        rep.states, rep.transitions = 1, 1
        rep.sample(r)
        return rep.finish()
    if r.get("kind") == "concurrent":
        from engine import vsched
        vsched.install(0)
        verdict = run_concurrent(r["seed"], tuple(r["outcomes"]), r["with_local"])
        if verdict:
            rep.violation(verdict, r)
        rep.case(str(r)[:80])
        rep.states, rep.transitions = 1, 1
        rep.sample(r)
        return rep.finish()
    router = Router()
    rng = random.Random(rep.seed)
    obs, problems = run_scenario(router, r["table"], r["reqs"], rng)
    exp_ran = [["handler", q[0][0], q[0][1]] for q in r["reqs"]]
    exp_sent = ["answer" if q[1] == "answer" else "5012" for q in r["reqs"]]
    if obs["ran"] != exp_ran:
        rep.violation(f"handlers run {obs['ran']}, expected {exp_ran}", r)
    if obs["sent"] != exp_sent:
        rep.violation(f"send queue received {obs['sent']}, expected {exp_sent}", r)
    for p in problems:
        rep.violation(p, r)
    rep.case(str(r)[:80])
    rep.states, rep.transitions = 1, 1
    rep.sample(r)
    return rep.finish()


def route_history(rep):
    """Routes registered and replaced after requests have already been dispatched (an application that declares routes while it
    runs): every request reaches the function registered for its (Application-ID, command code) pair at that moment."""
    rng = random.Random(rep.seed * 7919 + 132)
    router = Router()
    ran = []

    def fn(tag):
        def handler(request):
            ran.append(tag)
            return make_answer(request, rng)
        return handler
    steps = [("reg", "a1", "c1", "f1"), ("req", "a1", "c1", "f1"), ("reg", "a1", "c2", "f2"), ("req", "a1", "c2", "f2"), ("req", "a1", "c1", "f1"),
             ("reg", "a1", "c1", "f3"), ("req", "a1", "c1", "f3"), ("reg", "a2", "c2", "f4"), ("req", "a2", "c2", "f4"), ("req", "a1", "c2", "f2"),
             ("reg", "a2", "c2", "f5"), ("req", "a2", "c2", "f5"), ("req", "a1", "c1", "f3")]
    k = 0
    for op, a, c, tag in steps:
        if op == "reg":
            router.register(app_bytes(a), cmd_bytes(c), fn(tag))
            continue
        k += 1
        req = make_request(a, c, k, rng)
        rep.case(("route-history", k))
        n0 = len(ran)
        replay = {"kind": "route-history", "step": k}
        try:
            with guard(20, "callback_route"):
                queued, exc = router.dispatch(req)
        except BaseException as e:
            rep.violation(f"request {k} for ({a}, {c}) after routes were added / replaced at run time: callback_route raised {type(e).__name__}: {e}", replay)
            return
        if ran[n0:] != [tag] or len(queued) != 1:
            rep.violation(f"request {k} for ({a}, {c}): route functions run {ran[n0:]}, registered at that moment: {tag}; {len(queued)} answer(s) queued "
                          "(routes were added / replaced after earlier requests had been dispatched)", replay)
            return


def long_history(rep):
    """One application object serving a long run of requests whose route function fails (more of them than any of the library's
    thresholds: 40 / 50), then healthy ones, on two applications: every request still gets exactly one answer."""
    rng = random.Random(rep.seed * 7919 + 131)
    router = Router()
    nfail = 45 if rep.tier == "quick" else 130
    state = {"n": 0}

    def failing(request):
        state["n"] += 1
        if state["n"] <= nfail:
            raise [ConnectionError("backend down"), KeyError("subscriber"), ValueError("bad"), RuntimeError()][state["n"] % 4]
        return make_answer(request, rng)

    def healthy(request):
        return make_answer(request, rng)
    router.register(app_bytes("a1"), cmd_bytes("c1"), failing)
    router.register(app_bytes("a2"), cmd_bytes("c2"), healthy)
    for k in range(1, nfail + 4):
        pair = ("a1", "c1") if k <= nfail + 1 or k % 2 else ("a2", "c2")
        req = make_request(pair[0], pair[1], k, rng)
        rep.case(("long-history", k))
        replay = {"kind": "long-history", "k": k}
        try:
            with guard(20, "callback_route"):
                queued, exc = router.dispatch(req)
        except BaseException as e:
            rep.violation(f"after {k - 1} requests on one application object ({min(k - 1, nfail)} of them failed in their route function): callback_route for request {k} "
                          f"raised {type(e).__name__}: {e}", replay)
            return
        want = (5012 if k <= nfail and pair == ("a1", "c1") else 2001).to_bytes(4, "big")
        if len(queued) != 1 or not queued[0].has_avp("result_code_avp") or queued[0].result_code_avp.data != want \
                or queued[0].header.hop_by_hop != req.header.hop_by_hop:
            got = [(m.result_code_avp.data.hex() if m.has_avp("result_code_avp") else None) for m in queued]
            rep.violation(f"request {k} of a long run ({min(k - 1, nfail)} earlier requests failed in their route function): {len(queued)} answer(s) with Result-Code "
                          f"{got}, expected exactly one with {want.hex()}", replay)
            return


# ------------------------------------------------------------------------------------------- requests in flight together
def run_concurrent(seed, outcomes, with_local=False):
    """Two requests from the peer are handled at the same time (each in its own thread, as Bromelia.main does through
    create_message_thread), under the deterministic scheduler with every line of the dispatch code a preemption point; an
    earlier failing request has been handled before.  outcomes: per request 'answer' | 'raise' | 'none'.  with_local: a local
    send_message() caller is waiting for an answer whose Hop-by-Hop equals that of the peer's first request.
    Each request must get exactly one answer carrying its own identifiers and Session-Id."""
    from engine import vsched
    from . import c14
    from bromelia.base import DiameterAnswer
    from bromelia.avps import ResultCodeAVP
    s = vsched.new_sched(seed, max_steps=60000)
    s.line_funcs = {"callback_route", "create_error_answer", "decorate_answer", "send_message", "set_outgoing_message", "get_request_callback",
                    "create_message_thread", "handler_pending_answers", "is_pending_answer"}
    s.line_budget = 6000
    global InProcessManager
    saved_mgr, InProcessManager = InProcessManager, c14.SchedManager
    try:
        router = Router()
    finally:
        InProcessManager = saved_mgr
    app = router.app
    rng = random.Random(seed)
    gate = vsched.VEvent()
    ran = []

    def handler(request):
        k = int(request.user_name_avp.data[4:])
        ran.append(k)
        if k == 1:
            gate.wait()                      # the first request is still being handled when the second one comes in
        else:
            gate.set()
        out = outcomes[k - 1] if k >= 1 else "raise"
        if out == "raise":
            raise ValueError("handler failed")
        if out == "none":
            return None
        return make_answer(request, rng)
    router.register(app_bytes("a1"), cmd_bytes("c1"), handler)
    worker = router.workers[app_bytes("a1")]
    sent = []

    # the library's own send handler loop takes the messages from the worker's queue; its transmission is the harness
    worker.app = c14.AppProxy(worker.app, sent.append)
    s.spawn("worker_send_handler", worker.send_handler)
    # an earlier failure, alone
    r0 = make_request("a1", "c1", 0, rng)
    t0 = app.create_message_thread(r0)
    reqs = [make_request("a1", "c1", k, rng) for k in (1, 2)]
    local_result = []
    try:
        s.run(until=lambda: t0.done and len(sent) >= 1)
        if with_local:
            local = make_request("a1", "c1", 7, rng)
            local.header.hop_by_hop = reqs[0].header.hop_by_hop
            tl = s.spawn("local_caller", lambda: local_result.append(app.send_message(local)))
            s.run(until=lambda: tl.pending is not None and tl.pending[0] == "wait" and len(sent) >= 2)
    except (vsched.Deadlock, vsched.StepLimit, vsched.StepHang) as e:
        dead = [(t.name, f"{type(t.exc).__name__}: {t.exc}") for t in s.threads if t.exc is not None and not t.name.startswith("recv_request")]
        s.kill_all()
        return f"a single failing request (and a local request) before the two: {type(e).__name__}: {str(e)[:200]}; threads that ended with an exception: {dead}"
    base = len(sent)
    ts = [app.create_message_thread(r) for r in reqs]
    chooser = vsched.PCT(seed, depth=1 + seed % 3, horizon=300) if seed % 3 else None
    try:
        s.run(until=lambda: all(t.done for t in ts) and len(sent) >= base + 2, chooser=chooser)
        out = "ok"
    except vsched.Deadlock as e:
        out = "deadlock: " + str(e)
    except (vsched.StepLimit, vsched.StepHang) as e:
        out = type(e).__name__ + ": " + str(e)
    problems = []
    if out != "ok":
        problems.append(out[:300])
    answers = [m for m in sent[base:] if not m.header.is_request()]
    for k, r in enumerate(reqs, 1):
        mine = [m for m in answers if m.header.hop_by_hop == r.header.hop_by_hop and m.header.end_to_end == r.header.end_to_end]
        if len(mine) != 1:
            problems.append(f"request {k} ({outcomes[k - 1]}) got {len(mine)} answer(s) with its identifiers ({len(answers)} answers sent in all)")
        elif not mine[0].has_avp("session_id_avp") or mine[0].session_id_avp.data != r.session_id_avp.data:
            problems.append(f"the answer to request {k} carries another request's Session-Id")
        elif outcomes[k - 1] != "answer" and (not mine[0].has_avp("result_code_avp") or mine[0].result_code_avp.data != (5012).to_bytes(4, "big")):
            problems.append(f"request {k} ({outcomes[k - 1]}) was not answered with DIAMETER_UNABLE_TO_COMPLY")
    if sorted(x for x in ran if x in (1, 2)) != [1, 2]:
        problems.append(f"handler invocations for the two requests: {ran}")
    if with_local:
        if local_result:
            problems.append("the local caller was released by the peer's request (it is still waiting for its answer)")
        else:
            app.create_message_thread(DiameterAnswer(header=local.header, avps=[ResultCodeAVP(2001)]))
            try:
                s.run(until=lambda: tl.done)
            except BaseException as e:
                problems.append(f"the local caller never got its answer: {type(e).__name__}")
            if local_result and (local_result[0] is None or local_result[0].header.is_request()):
                problems.append("the local caller was given something that is not an answer")
    dead = [(t.name, f"{type(t.exc).__name__}: {t.exc}") for t in s.threads if t.exc is not None and not t.name.startswith("recv_request")]
    if dead:
        problems.append(f"threads ended by exception: {dead}")
    s.kill_all()
    return "; ".join(problems) if problems else None
