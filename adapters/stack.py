"""The whole stack of one Diameter interface under the deterministic scheduler (spec/Stack.tla).

A real client node (Diameter + DiameterAssociation + PeerStateMachine + TcpClient, all threads, fake socket) is
opened by a capabilities exchange with the harness as peer; on top of it run the library's own
Worker.recv_handler, Worker.send_handler and Bromelia.main loops, the per-message threads Bromelia.main starts
(callback_route / handler_pending_answers) and K application threads blocked in Bromelia.send_message.  The
harness plays the peer only: it writes requests (and answers to the requests it has read from the socket) into
the fake socket, whole or cut in two segments.

 * monitors (C13 / C14 / C05 end to end): every peer request is answered exactly once ON THE WIRE with its own
   identifiers and the handler's (or the fallback) Result-Code; every caller returns the answer with its own
   Hop-by-Hop id; every local request is written exactly once; the library's loops are alive, the worker's send
   lock is free at the end;
 * every execution is recorded at its observable operations (queue put/get, lock acquire/release, event
   set/clear/wait, registry operations, thread bodies, frames at the socket) and validated by TLC as a behaviour
   of Stack (Trace_Stack: one event per action, the send handler's three control steps are silent), all
   invariants of Stack evaluated in every matched state.
"""
import json
import os
import random
import re

from engine import tlc, tlaval, vsched
from engine.report import VERIF
from . import assoc, c13, c14

T = tlc.tla
APP_ID = 16777251
CMD = 316

TRACE_MODULE = r"""---- MODULE Trace_Stack ----
EXTENDS Stack, Json, TLCExt, IOUtils
Traces == JsonDeserialize(TRACEFILE)
VARIABLES tid, l
ASSUME TLCSet(1, <<0, 0>>)
TraceInit == tid = 1 /\ l = 0 /\ Init
Act(e) == CASE e.a = "peerreq" -> (PeerRequest /\ pNext = e.i)
            [] e.a = "peerans" -> PeerAnswer(e.i)
            [] e.a = "rhget" -> (RhGet /\ rhMsg' = e.m)
            [] e.a = "rhput" -> (RhPut /\ rhMsg = e.m)
            [] e.a = "mainget" -> (MainGet /\ Head(workQ) = e.m)
            [] e.a = "slock" -> SLock(e.s) [] e.a = "sput" -> SPut(e.s) [] e.a = "sset" -> SSet(e.s)
            [] e.a = "route" -> Route(e.i)
            [] e.a = "reg" -> Reg(e.i) [] e.a = "wake" -> Wake(e.i) [] e.a = "clear" -> Clear(e.i)
            [] e.a = "setstop" -> SetStop(e.i)
            [] e.a = "return" -> (Return(e.i) /\ got'[e.i] = e.v)
            [] e.a = "check" -> (Check(e.i) /\ (dpc'[e.i] # "dropped") = e.found)
            [] e.a = "pop" -> Pop(e.i) [] e.a = "notify" -> Notify(e.i) [] e.a = "waitstop" -> WaitStop(e.i)
            [] e.a = "shget" -> (ShGet /\ shMsg' = e.m)
            [] e.a = "shsend" -> (ShSend /\ shMsg = e.m)
            [] e.a = "shclear" -> ShClear [] e.a = "shrelease" -> ShRelease
            [] e.a = "wire" -> (ConnWrite /\ Head(connOut) = e.m)
TraceNext == \/ /\ l < Len(Traces[tid]) /\ l' = l + 1 /\ tid' = tid /\ Act(Traces[tid][l + 1])
             \/ /\ (ShTest \/ ShWait \/ ShSize) /\ UNCHANGED <<tid, l>>
             \/ /\ l = Len(Traces[tid]) /\ tid < Len(Traces) /\ tid' = tid + 1 /\ l' = 0
                /\ pNext' = 1 /\ answered' = {} /\ connIn' = <<>> /\ rhMsg' = <<>> /\ workQ' = <<>>
                /\ rpc' = [r \in PReqs |-> "none"] /\ dpc' = [c \in Callers |-> "none"]
                /\ cpc' = [c \in Callers |-> IF QueueFirst THEN "lock" ELSE "start"]
                /\ pending' = {} /\ recvEv' = [c \in Callers |-> FALSE] /\ stopEv' = [c \in Callers |-> FALSE]
                /\ pmsg' = [c \in Callers |-> 0] /\ got' = [c \in Callers |-> 0]
                /\ sendLock' = <<>> /\ sendQ' = <<>> /\ sendEv' = FALSE /\ shpc' = "test" /\ shMsg' = <<>>
                /\ connOut' = <<>> /\ wire' = <<>>
TraceSpec == TraceInit /\ [][TraceNext]_<<vars, tid, l>>
Later(a, b) == a[1] > b[1] \/ (a[1] = b[1] /\ a[2] > b[2])
Progress == IF Later(<<tid, l>>, TLCGet(1)) THEN TLCSet(1, <<tid, l>>) ELSE TRUE
Accepted == PrintT(<<"PROGRESS", TLCGet(1), Len(Traces), Len(Traces[Len(Traces)])>>)
====
"""

INVARIANTS = ["AtMostOneAnswer", "AnswerAfterRequest", "AnsweredWhenDone", "RequestOnce", "OwnAnswer", "NoDrop", "OneQueued",
              "LockedWhileQueued", "HandlerAlive"]
LINE_FUNCS = {"set_outgoing_message", "send_handler", "send_message", "send_messages", "get_incoming_message", "notify_incoming_message",
              "get_outgoing_message", "get_outgoing_messages", "is_send_queue_empty", "recv_handler", "main", "create_message_thread",
              "callback_route", "create_error_answer", "handler_pending_answers", "remove_pending_answer", "insert_pending_answer",
              "is_pending_answer", "get_pending_answer", "wait", "notify", "update_msg"}

YAML = """api_version: v1
name: verif
spec:
  - mode: client
    applications:
      - vendor_id: VENDOR_ID_3GPP
        app_id: DIAMETER_APPLICATION_S6a_S6d
    watchdog_timeout: 50
    local:
      hostname: client.network
      realm: network
      ip_address: 127.0.0.1
      port: 3868
    peer:
      hostname: server.peer.example
      realm: peer.example
      ip_address: 127.0.0.1
      port: 3868
"""


class DiameterProxy:
    """the worker's Diameter object with its two transmission calls made observable (everything is delegated)"""
    def __init__(self, real, log):
        self.__dict__["_real"], self.__dict__["_log"] = real, log

    def __getattr__(self, name):
        return getattr(self.__dict__["_real"], name)

    def send_message(self, msg, *a, **k):
        self.__dict__["_log"](msg)
        return self.__dict__["_real"].send_message(msg, *a, **k)

    def send_messages(self, msgs):
        for m in (msgs or ()):
            self.__dict__["_log"](m)
        return self.__dict__["_real"].send_messages(msgs)


def run_once(seed, K, R, outcomes, line_level=False, split=False):
    """one scheduled execution of the whole stack; returns dict(events, verdict, out, results)"""
    import bromelia.bromelia as bb
    from bromelia.base import DiameterMessage
    rng = random.Random(seed)
    os.makedirs(os.path.join(VERIF, ".work"), exist_ok=True)
    path = os.path.join(VERIF, ".work", f"stack-{os.getpid()}.yaml")
    with open(path, "w") as f:
        f.write(YAML)
    try:
        app = bb.Bromelia(config_file=path)
    finally:
        os.remove(path)
    cfg = dict(app.configs[0])
    sc = assoc.Scenario("client", seed, watchdog=50, apps=cfg["APPLICATIONS"])
    s, n = sc.s, sc.n
    if line_level:
        s.line_funcs, s.line_budget = set(LINE_FUNCS), 8000
    events = []
    who = {}                       # id(VThread) -> ("caller", c) / ("route", r)
    hb = {}                        # Hop-by-Hop bytes -> ("L", c) / ("P", r)
    verdict = None
    Base = bb.__dict__.get("_VerifOrigPendingAnswer") or bb.PendingAnswer
    bb._VerifOrigPendingAnswer = Base

    def ident(msg):
        o = hb.get(msg.header.hop_by_hop)
        if o is None:
            return None
        return ["req" if msg.header.is_request() else "ans", o[0], o[1]]

    class TracedPending(Base):
        def __init__(self, msg):
            Base.__init__(self, msg)
            o = hb.get(msg.header.hop_by_hop, ("L", 0))
            c = o[1]
            for name, ev in (("recv", self.recv_event), ("stop", self.stop_event)):
                oset, oclear, owait = ev.set, ev.clear, ev.wait

                def set_(_o=oset, name=name, c=c):
                    r = _o()
                    events.append({"a": "notify" if name == "recv" else "setstop", "i": c})
                    return r

                def clear_(_o=oclear, name=name, c=c):
                    r = _o()
                    if name == "recv":
                        events.append({"a": "clear", "i": c})
                    return r

                def wait_(timeout=None, _o=owait, name=name, c=c):
                    r = _o(timeout)
                    events.append({"a": "wake" if name == "recv" else "waitstop", "i": c})
                    return r
                ev.set, ev.clear, ev.wait = set_, clear_, wait_
    bb.PendingAnswer = TracedPending
    try:
        if not sc.open():
            return {"events": [], "verdict": None, "out": "setup: the connection did not open", "results": {}, "setup_failed": True}
        del n.sock.sent[:]
        # ---- the application layer on top of the open node
        bb.Worker.associations = dict()
        bb.Worker.recv_queues = list()
        worker = bb.Worker(n.d, c14.SchedManager())
        worker.is_open.set()
        app.associations = bb.Worker.associations
        app.recv_queues = bb.Worker.recv_queues

        def dlog(a, key, found):
            o = hb.get(key, ("L", 0))
            if a == "reg":
                events.append({"a": "reg", "i": o[1]})
            elif a == "check":
                events.append({"a": "check", "i": o[1], "found": bool(found)})
            elif a == "pop":
                events.append({"a": "pop", "i": o[1]})
        c14.TracedDict.log = dlog
        worker.pending_answers = c14.TracedDict()

        def wrap(obj, name, fn):
            orig = getattr(obj, name)

            def w(*a, **k):
                return fn(orig, *a, **k)
            setattr(obj, name, w)

        def sender():
            return list(who.get(id(s.cur), ("?", 0)))

        def log_m(a):
            def f(orig, *args, **kw):
                r = orig(*args, **kw)
                m = args[0] if args else r
                if a in ("mainget", "shget", "rhget"):
                    m = r
                if m is not None:
                    events.append({"a": a, "m": ident(m)})
                return r
            return f

        def log_s(a):
            def f(orig, *args, **kw):
                r = orig(*args, **kw)
                if a in ("shclear", "shrelease"):
                    events.append({"a": a})
                else:
                    events.append({"a": a, "s": sender()})
                return r
            return f
        wrap(worker, "get_incoming_message", log_m("rhget"))
        wrap(worker.recv_queue, "put", log_m("rhput"))
        wrap(worker.recv_queue, "get", log_m("mainget"))
        wrap(worker.send_lock, "acquire", log_s("slock"))
        wrap(worker.send_lock, "release", log_s("shrelease"))
        wrap(worker.send_queue, "put", lambda orig, m, *a, **k: (orig(m, *a, **k), events.append({"a": "sput", "s": sender()}))[0])
        wrap(worker.send_queue, "get", log_m("shget"))
        wrap(worker.send_event, "set", log_s("sset"))
        wrap(worker.send_event, "clear", log_s("shclear"))
        worker.app = DiameterProxy(n.d, lambda m: events.append({"a": "shsend", "m": ident(m)}))

        # ---- route
        ran = []

        def handler(request):
            o = hb.get(request.header.hop_by_hop, ("P", 0))
            r = o[1]
            who[id(s.cur)] = ("route", r)
            ran.append(r)
            events.append({"a": "route", "i": r})
            oc = outcomes[(r - 1) % len(outcomes)]
            if oc == "answer":
                return c13.make_answer(request, rng)
            if oc == "none":
                return None
            if oc == "wrongtype":
                return request
            raise ValueError("handler failure")
        app.route(application_id=APP_ID.to_bytes(4, "big"), command_code=CMD.to_bytes(3, "big"))(handler)

        # ---- messages
        preqs = {}
        for r in range(1, R + 1):
            m = n.make("REQ", True, 100 + r)
            preqs[r] = m
            hb[m.header.hop_by_hop] = ("P", r)
        lreqs = {}
        for c in range(1, K + 1):
            m = assoc.app_request(c)
            lreqs[c] = m
            hb[m.header.hop_by_hop] = ("L", c)
        results = {}

        def caller(c):
            ans = app.send_message(lreqs[c])
            o = hb.get(ans.header.hop_by_hop, ("?", -1)) if ans is not None and not ans.header.is_request() else ("?", -1)
            v = o[1] if o[0] == "L" else -1
            results[c] = v
            events.append({"a": "return", "i": c, "v": v})

        lib = [s.spawn("worker_recv_handler", worker.recv_handler), s.spawn("worker_send_handler", worker.send_handler),
               s.spawn("bromelia_main", app.main)]
        callers = []
        for c in range(1, K + 1):
            t = s.spawn(f"caller{c}", caller, c)
            who[id(t)] = ("caller", c)
            callers.append(t)

        # ---- the wire, as the peer sees it
        wire = []                      # identified frames in order
        foreign = []                   # frames that are neither a local request nor an answer to a peer request
        pos = [0]

        def on_step(_t):
            raw = bytes(n.sock.sent)
            while len(raw) - pos[0] >= 20:
                ln = int.from_bytes(raw[pos[0] + 1:pos[0] + 4], "big")
                if ln < 20 or len(raw) - pos[0] < ln:
                    break
                fr = raw[pos[0]:pos[0] + ln]
                pos[0] += ln
                try:
                    m = DiameterMessage.load(fr)[0]
                except Exception:
                    foreign.append(fr[:24].hex())
                    continue
                if n.classify(m) in ("DWR", "DWA"):
                    continue
                o = ident(m)
                expected = o is not None and ((o[1] == "L" and o[0] == "req") or (o[1] == "P" and o[0] == "ans"))
                if not expected:
                    foreign.append(fr[:24].hex())
                    continue
                wire.append((o, m))
                events.append({"a": "wire", "m": o})
        s.on_step = on_step

        # ---- peer behaviour: requests in order, answers to what it has read; optionally in two segments
        sent_req, answered, backlog = [0], set(), []

        def peer_act():
            if backlog:
                n.feed(backlog.pop(0))
                return True
            choices = []
            if sent_req[0] < R:
                choices.append("req")
            seen = [o[2] for o, _m in wire if o[1] == "L" and o[2] not in answered]
            if seen:
                choices.append("ans")
            if not choices:
                return False
            what = rng.choice(choices)
            if what == "req":
                sent_req[0] += 1
                raw = preqs[sent_req[0]].dump()
                events.append({"a": "peerreq", "i": sent_req[0]})
            else:
                c = rng.choice(seen)
                answered.add(c)
                ans = n.make("ANS", True, 1)
                ans.header.hop_by_hop, ans.header.end_to_end = lreqs[c].header.hop_by_hop, lreqs[c].header.end_to_end
                raw = ans.dump()
                events.append({"a": "peerans", "i": c})
            if split and len(raw) > 24:
                cut = rng.choice([1, 3, 4, 19, 20, 21, len(raw) // 2, len(raw) - 1])
                backlog.append(raw[cut:])
                raw = raw[:cut]
            n.feed(raw)
            return True

        def finished():
            return (all(t.done for t in callers) and len([1 for o, _m in wire if o[1] == "P"]) >= R and not backlog
                    and sent_req[0] >= R)
        chooser = vsched.PCT(seed, depth=1 + seed % 3, horizon=900) if seed % 3 else None
        out = "limit"
        settle = 0
        try:
            for _ in range(60000):
                if finished():
                    settle += 1
                    if settle > 120:          # let the threads run on a little: a second answer, a late frame
                        out = "finished"
                        break
                if rng.random() < 0.04 or s.quiescent():
                    acted = peer_act()
                else:
                    acted = False
                c = s.choose(chooser)
                if c is None:
                    if not acted:
                        out = "deadlock: " + s.describe_blocked()
                        break
                    continue
                t, fire = c
                if fire and not finished() and not acted and s.quiescent() and not (sent_req[0] < R or backlog):
                    # only long timers are left although the scenario is not complete: somebody waits for something that never comes
                    seen = [o[2] for o, _m in wire if o[1] == "L" and o[2] not in answered]
                    if not seen:
                        out = "stall: " + s.describe_blocked()
                        break
                s.step(t, fire)
        except vsched.Deadlock as e:
            out = "deadlock: " + str(e)
        except (vsched.StepLimit, vsched.StepHang) as e:
            out = type(e).__name__ + ": " + str(e)
        s.on_step = None

        # ---- verdict (monitors)
        problems = []
        if out != "finished":
            problems.append(out)
        for c in range(1, K + 1):
            if results.get(c) != c:
                problems.append(f"caller {c} returned {results.get(c, 'nothing')} (must be the answer with its own Hop-by-Hop id)")
            nreq = len([1 for o, _m in wire if o == ["req", "L", c]])
            if nreq != 1:
                problems.append(f"local request {c} written {nreq} times")
        for r in range(1, R + 1):
            answers = [m for o, m in wire if o == ["ans", "P", r]]
            if len(answers) != 1:
                problems.append(f"peer request {r}: {len(answers)} answers on the wire (must be exactly one)")
                continue
            a, q = answers[0], preqs[r]
            oc = outcomes[(r - 1) % len(outcomes)]
            if a.header.end_to_end != q.header.end_to_end or a.header.application_id != q.header.application_id:
                problems.append(f"peer request {r}: the answer does not carry its End-to-End id / Application-ID")
            rc = a.result_code_avp.data if a.has_avp("result_code_avp") else None
            want = (2001).to_bytes(4, "big") if oc == "answer" else (5012).to_bytes(4, "big")
            if rc != want:
                problems.append(f"peer request {r} (handler outcome {oc}): Result-Code {rc.hex() if rc else None} on the wire, expected {want.hex()}")
            if ran.count(r) != 1:
                problems.append(f"peer request {r}: its handler ran {ran.count(r)} times")
        if foreign:
            problems.append(f"unexpected frames on the wire: {foreign[:2]}")
        for t in lib:
            if t.done:
                problems.append(f"the library loop {t.name} ended ({type(t.exc).__name__ if t.exc else 'returned'}: {t.exc})")
        if out == "finished":
            # the send handler releases the lock after the transmission: let it get there
            try:
                for _ in range(4000):
                    if not worker.send_lock.held:
                        break
                    c = s.choose(None)
                    if c is None:
                        break
                    s.step(*c)
            except (vsched.Deadlock, vsched.StepLimit, vsched.StepHang):
                pass
            if worker.send_lock.held:
                problems.append("the worker's send lock is still held after everything was sent")
        verdict = "; ".join(problems[:4]) if problems else None
        return {"events": events, "verdict": verdict, "out": out, "results": results}
    finally:
        bb.PendingAnswer = Base
        c14.TracedDict.log = None
        sc.close_scenario()


def scenario_of(i, rng, focus=None):
    K = 1 + i % 2 if i % 5 else 2
    R = (1, 2, 1, 2, 0)[i % 5] if K else 1
    if K == 2 and R == 2 and i % 3:
        R = 1
    if focus == "requests":          # C13: peer requests (and their answers on the wire) in every execution
        K, R = (i % 3) % 2 + (1 if i % 3 == 2 else 0), 2 if i % 2 else 1
        K = min(K, 1) if R == 2 else K
    elif focus == "callers":         # C14: local callers in every execution
        K, R = (2 if i % 2 else 1), (0, 1, 1)[i % 3]
    ocs = ["answer", "none", "raise", "wrongtype"]
    outcomes = [ocs[(i + j) % 4] if (i // 2) % 2 else "answer" for j in range(max(R, 1))]
    return {"seed": rng.getrandbits(30), "K": K, "R": R, "outcomes": outcomes, "line_level": i % 4 == 1, "split": i % 3 == 2}


def model_check(rep, tier, focus=None):
    """TLC on Stack.tla: the design, and the vacuity self-test (each deviation must break a named property)"""
    invs = "".join(f"INVARIANT {i}\n" for i in INVARIANTS)
    configs = ((2, 1, True), (1, 2, True)) if tier == "quick" else ((2, 1, True), (1, 2, True), (2, 2, False))
    if tier == "quick" and focus == "requests":
        configs = ((1, 2, True),)
    elif tier == "quick" and focus == "callers":
        configs = ((2, 1, True),)
    for K, R, live in configs:
        cfg = (f"SPECIFICATION Spec\nCONSTANTS K = {K}\n R = {R}\n Deviations = {{}}\n" + invs
               + ("PROPERTY AllAnswered\nPROPERTY AllReturn\nPROPERTY Quiesces\n" if live else "") + "CHECK_DEADLOCK FALSE\n")
        res, _ = tlc.run("Stack", cfg, workers=16, timeout=3000)
        tlc.must_ok(res, f"Stack K={K} R={R}")
        rep.tlc(f"Stack K={K} R={R}{' +liveness' if live else ''}", res)
    for dev, expect in (("D_NoSendLock", ("OneQueued", "HandlerAlive", "LockedWhileQueued")), ("D_QueueBeforeRegister", ("NoDrop",))):
        cfg = f"SPECIFICATION Spec\nCONSTANTS K = 2\n R = 1\n Deviations = {{\"{dev}\"}}\n" + invs + "CHECK_DEADLOCK FALSE\n"
        res, _ = tlc.run("Stack", cfg, workers=8, timeout=900)
        if res.violated not in expect:
            raise tlc.TlcError(f"vacuity self-test: Stack with {dev} violates {res.violated}, expected one of {expect}")
        rep.notes.setdefault("stack_deviations", {})[dev] = res.violated


def validate(rep, runs):
    """TLC trace validation of the recorded executions, grouped by (K, R)"""
    groups = {}
    for meta, ev in runs:
        groups.setdefault((meta["K"], meta["R"]), []).append((meta, ev))
    for (K, R), sel in sorted(groups.items()):
        wd = tlc.workdir("Trace_Stack")
        try:
            tf = os.path.join(wd, "traces.json")
            json.dump([ev for _m, ev in sel], open(tf, "w"))
            cfg = (f"SPECIFICATION TraceSpec\nCONSTANTS K = {K}\n R = {R}\n Deviations = {{}}\n" + "".join(f"INVARIANT {i}\n" for i in INVARIANTS)
                   + "CONSTRAINT Progress\nPOSTCONDITION Accepted\nCHECK_DEADLOCK FALSE\n")
            res, _ = tlc.run("Trace_Stack", cfg, extra_modules={"Trace_Stack": TRACE_MODULE.replace("TRACEFILE", T(tf))}, wd=wd, workers=1, timeout=3000)
            rep.tlc(f"Trace_Stack K={K} R={R}", res)
            m = re.search(r'<<\s*"PROGRESS"', res.out)
            if res.violated in INVARIANTS:
                # which trace?  the progress register tells
                t = 1
                if m:
                    val, _ = tlaval.parse_at(res.out, m.start())
                    t = val[1][0]
                else:
                    mm = re.findall(r"tid = (\d+)", res.out)
                    t = int(mm[-1]) if mm else 1
                rep.violation(f"whole stack: TLC: invariant {res.violated} of Stack.tla is false in a state matched by a recorded execution", dict(sel[max(t, 1) - 1][0], kind="stack"))
                continue
            if not m:
                tlc.must_ok(res, "Trace_Stack")
                raise tlc.TlcError("Trace_Stack: no progress line\n" + res.out[-2000:])
            val, _ = tlaval.parse_at(res.out, m.start())
            (t, l), nt, nl = val[1], val[2], val[3]
            rep.traces_validated += t if (t, l) == (nt, nl) else max(t - 1, 0)
            if (t, l) != (nt, nl):
                rep.nonprop_differences += 1
                tr = sel[max(t, 1) - 1][1]
                rep.notes.setdefault("unexplained_divergences", []).append({"module": "Stack", "trace": t, "event": l + 1, "next_event": tr[l] if l < len(tr) else None,
                                                                             "replay": dict(sel[max(t, 1) - 1][0], kind="stack")})
        finally:
            tlc.cleanup(wd)


def binding_selftest(rep, runs):
    """corrupt one recorded field of an accepted trace: TLC must reject it"""
    for meta, ev in runs:
        idx = [i for i, e in enumerate(ev) if e["a"] == "wire"]
        if not idx:
            continue
        bad = [dict(e) for e in ev]
        i = idx[0]
        m = list(bad[i]["m"])
        m[2] = m[2] + 1 if m[2] < 2 else m[2] - 1
        if meta["K"] < 2 and m[1] == "L" or meta["R"] < 2 and m[1] == "P":
            m[0] = "ans" if m[0] == "req" else "req"
            m[2] = bad[i]["m"][2]
        bad[i]["m"] = m
        wd = tlc.workdir("Trace_Stack")
        try:
            tf = os.path.join(wd, "traces.json")
            json.dump([bad], open(tf, "w"))
            cfg = (f"SPECIFICATION TraceSpec\nCONSTANTS K = {meta['K']}\n R = {meta['R']}\n Deviations = {{}}\nCONSTRAINT Progress\nPOSTCONDITION Accepted\nCHECK_DEADLOCK FALSE\n")
            res, _ = tlc.run("Trace_Stack", cfg, extra_modules={"Trace_Stack": TRACE_MODULE.replace("TRACEFILE", T(tf))}, wd=wd, workers=1, timeout=600)
            mm = re.search(r'<<\s*"PROGRESS"', res.out)
            if not mm:
                raise tlc.TlcError("Trace_Stack self-test: no progress line\n" + res.out[-1500:])
            val, _ = tlaval.parse_at(res.out, mm.start())
            (t, l) = val[1]
            if l >= len(bad):
                raise tlc.TlcError("binding self-test: a trace with a corrupted wire event was accepted by Trace_Stack")
            rep.notes["stack_binding_selftest"] = f"corrupted event {i + 1} of {len(bad)}: rejected after {l} events"
        finally:
            tlc.cleanup(wd)
        return


def stage(rep, nruns, focus=None):
    """the whole-stack stage of a check: model checking, scheduled executions with monitors, trace validation"""
    nodemod_install()
    model_check(rep, rep.tier, focus)
    rng = random.Random(rep.seed * 104729 + 77)
    runs = []
    setup_failed = 0
    for i in range(nruns):
        sc = scenario_of(i, rng, focus)
        r = run_once(sc["seed"], sc["K"], sc["R"], sc["outcomes"], sc["line_level"], sc["split"])
        rep.case(("stack", i))
        if r.get("setup_failed"):
            setup_failed += 1
            continue
        if r["verdict"]:
            rep.violation(f"whole stack ({sc['K']} caller(s), {sc['R']} peer request(s), handlers {sc['outcomes']}): {r['verdict']}", dict(sc, kind="stack"))
            if len([v for v in rep.violations if "whole stack" in v["what"]]) >= 3:
                break
        else:
            runs.append((sc, r["events"]))
    rep.notes["stack_runs"] = nruns
    if setup_failed:
        rep.notes["stack_setup_failed"] = setup_failed
    if runs:
        validate(rep, runs)
        binding_selftest(rep, runs)
    rep.assumptions.append("whole-stack stage: one client interface, the harness is the peer; Worker.run's restart loop and the multiprocessing "
                           "manager are replaced by scheduler-controlled primitives (threads, not processes)")


def replay(rep, r):
    nodemod_install()
    out = run_once(r["seed"], r["K"], r["R"], r["outcomes"], r.get("line_level", False), r.get("split", False))
    if out["verdict"]:
        rep.violation(f"whole stack: {out['verdict']}", r)
    else:
        validate(rep, [(r, out["events"])])
    rep.case(str(r))
    rep.states, rep.transitions = max(rep.states, 1), max(rep.transitions, 1)
    rep.sample(r)
    return rep.finish()


def nodemod_install():
    from . import node as nodemod
    nodemod.ensure_installed()
