"""C18 -- TBCD digit encoding round-trips for every digit string.

Specification: Types.TbcdEnc / TbcdDec (spec/Types.tla).
 V: TLC enumerates every digit string up to the tier's length, proves the round-trip and the
    filler rule on the model, and emits [d, e = TbcdEnc(d)]; the harness compares
    encode_to_tbcd, decode_from_tbcd and MsisdnAVP/StnSrAVP data with the vectors.
 T: a seeded driver runs the real functions on random strings up to 20 digits and on random
    well-formed TBCD strings; TLC validates every record against the same operators.
"""
import json
import random
from concurrent.futures import ThreadPoolExecutor

from engine import vectors
from engine.report import guard, Hang

HEX = "0123456789abcdef"


def _hex(nibbles):
    return "".join(HEX[n] for n in nibbles)


def _nibbles(s):
    """hex string -> list of nibbles, or None when it is not a (lower/upper-case) hex string"""
    if not isinstance(s, str):
        return None
    try:
        return [int(c, 16) for c in s]
    except ValueError:
        return None


def _call(fn, *a):
    try:
        with guard(5, fn.__name__):
            return ("ok", fn(*a))
    except Hang as e:
        return ("hang", str(e))
    except BaseException as e:          # library errors derive from BaseException
        return ("exc", type(e).__name__ + ": " + str(e)[:80])


def _avp_data(cls, arg):
    r = _call(lambda: cls(arg).data)
    return r


def compare_vector(rep, d, e, api):
    """d: digits (list of ints), e: nibbles expected by the specification."""
    ds = "".join(map(str, d))
    eh = _hex(e)
    bad = []
    r = _call(api["enc"], ds)
    if r[0] != "ok" or _nibbles(r[1]) != list(e):
        bad.append(f"encode_to_tbcd({ds!r}) -> {r[1]!r}, specification: {eh!r}")
    r = _call(api["dec"], eh)
    if r[0] != "ok" or r[1] != ds:
        bad.append(f"decode_from_tbcd({eh!r}) -> {r[1]!r}, specification: {ds!r}")
    if d[0] != 0 or len(d) == 1:          # "built from a number": no leading zeros
        for nm in ("MsisdnAVP", "StnSrAVP"):
            for arg in (int(ds), ds):
                r = _avp_data(api[nm], arg)
                if r[0] != "ok" or r[1] != bytes.fromhex(eh):
                    got = r[1].hex() if isinstance(r[1], bytes) else r[1]
                    bad.append(f"{nm}({arg!r}).data -> {got!r}, specification: {eh!r}")
    for b in bad:
        rep.violation(b, {"digits": ds})
    return not bad


def _api():
    from bromelia.utils import encode_to_tbcd, decode_from_tbcd
    from bromelia.avps import MsisdnAVP, StnSrAVP
    return {"enc": encode_to_tbcd, "dec": decode_from_tbcd, "MsisdnAVP": MsisdnAVP, "StnSrAVP": StnSrAVP}


def _gen_chunk(maxlen, first):
    """vectors for all digit strings of length 1..maxlen starting with digit `first`"""
    defs = f"""
All == {{<<{first}>> \\o s : s \\in DigitStringsUpTo({maxlen - 1})}}
Vecs == SetToSeq({{[d |-> x, e |-> TbcdEnc(x)] : x \\in All}})
"""
    return vectors.gen(f"Gen_Tbcd_{first}", ["Types"], defs, "Vecs",
                       theorems=["\\A x \\in All : TbcdRoundTrip(x) /\\ TbcdFillerRule(x)"],
                       java_opts=("-Xmx3g",))


def _tbcd_job(digits):
    def job():
        from bromelia import utils
        from bromelia.avps import MsisdnAVP, StnSrAVP
        out = []
        for d in digits:
            e = utils.encode_to_tbcd(d)
            out.append([e, utils.decode_from_tbcd(e), MsisdnAVP(int(d)).data.hex() if d[0] != "0" else "", StnSrAVP(d).data.hex() if d[0] != "0" else ""])
        return out
    return job


def purity(rep):
    """two threads encoding / decoding at the same time, both doing the first TBCD call of their process"""
    from engine import concur
    pairs = [("first encode of the process in both threads", _tbcd_job(["5511987654321", "98", "7"]), _tbcd_job(["31", "5599", "123456789012345"])),
             ("the same numbers in both threads, after another one", _tbcd_job(["49111", "551299032876", "42"]), _tbcd_job(["551299032876", "42", "49111"])),
             ("odd and even lengths", _tbcd_job(["12345"]), _tbcd_job(["123456", "0"]))]
    return concur.purity_stage(rep, "the TBCD functions", pairs[:2 if rep.tier == "quick" else 3],
                               ("/bromelia/utils.py", "/bromelia/avps/etsi_3gpp/ts_129_329.py", "/bromelia/avps/etsi_3gpp/ts_129_272.py"), kmax=240,
                               stride=3 if rep.tier == "quick" else 1)


def run(rep):
    purity(rep)
    api = _api()
    maxlen = 5 if rep.tier == "quick" else 6
    rep.rule = (f"V: every digit string of length 1..{maxlen} (TLC enumerates, proves Dec(Enc(d)) = d and the "
                "filler rule, and supplies the expected encoding); T: seeded random strings of 7..20 digits and random "
                "well-formed TBCD strings validated by TLC. distinct = distinct digit strings exercised")
    with ThreadPoolExecutor(max_workers=10) as ex:
        chunks = list(ex.map(lambda f: _gen_chunk(maxlen, f), range(10)))
    nviol = 0
    for vecs, res in chunks:
        rep.tlc("Gen_Tbcd", res)
        for v in vecs:
            d, e = v["d"], v["e"]
            rep.case(tuple(d))
            if not compare_vector(rep, d, e, api):
                nviol += 1
            if len(rep.violations) >= 50:
                break
        if vecs:
            rep.sample({"digits": "".join(map(str, vecs[0]["d"])), "tbcd": _hex(vecs[0]["e"])})
    rep.exhaustive = True
    rep.notes["max_exhaustive_length"] = maxlen
    # the functions keep no memory: decodes of TBCD strings outside the encoder's image (a filler nibble in the first octet, the
    # special symbols) and encodes of strings with special symbols first, then a sample of the vectors again
    if len(rep.violations) < 50:
        for vecs, _res in chunks:
            for v in vecs[::7][:120]:
                ds = "".join(map(str, v["d"]))
                eh = _hex(v["e"])
                for odd in (eh[:1] + "f" + eh[2:] if len(eh) >= 2 else eh, "f" + eh[1:], eh[::-1]):
                    _call(api["dec"], odd)
                for sp in ("*" + ds[1:], ds[:-1] + "#", "0" + ds):
                    _call(api["enc"], sp)
        n2 = 0
        for vecs, _res in chunks:
            for v in vecs[::61]:
                rep.case(("again",) + tuple(v["d"]))
                n2 += 1
                before = len(rep.violations)
                compare_vector(rep, v["d"], v["e"], api)
                if len(rep.violations) > before:
                    rep.violations[-1]["what"] = "after decodes / encodes of strings outside the digit-string image: " + rep.violations[-1]["what"]
                    break
            if len(rep.violations) >= 50:
                break
        rep.notes["vectors_rechecked_after_foreign_inputs"] = n2

    # ---- T: records from the real code, validated by TLC
    rng = random.Random(rep.seed * 7919 + 18)
    n = 3000 if rep.tier == "quick" else 150000
    recs, inputs = [], []
    for i in range(n):
        L = rng.randint(maxlen + 1, 20)
        d = [rng.randint(1, 9)] + [rng.randint(0, 9) for _ in range(L - 1)]
        ds = "".join(map(str, d))
        r = _call(api["enc"], ds)
        enc = _nibbles(r[1]) if r[0] == "ok" else None
        rec = {"d": d, "enc": {"ok": enc is not None, "v": enc or []}}
        if enc is not None:
            r2 = _call(api["dec"], r[1])
            dec = [int(c) for c in r2[1]] if r2[0] == "ok" and isinstance(r2[1], str) and r2[1].isdigit() else None
        else:
            dec = None
        rec["dec"] = {"ok": dec is not None, "v": dec or []}
        for nm in ("MsisdnAVP", "StnSrAVP"):
            r3 = _avp_data(api[nm], int(ds))
            ok = r3[0] == "ok" and isinstance(r3[1], bytes)
            rec[nm] = {"ok": ok, "v": [x for b in r3[1] for x in (b >> 4, b & 15)] if ok else []}
        recs.append(rec)
        inputs.append(ds)
        rep.case(tuple(d))
    ok_expr = ("r.enc.ok /\\ r.enc.v = TbcdEnc(r.d) /\\ r.dec.ok /\\ r.dec.v = r.d "
               "/\\ r.MsisdnAVP.ok /\\ r.MsisdnAVP.v = TbcdEnc(r.d) /\\ r.StnSrAVP.ok /\\ r.StnSrAVP.v = TbcdEnc(r.d)")
    bad, res = vectors.validate("Trace_Tbcd", ["Types"], "", recs, ok_expr, java_opts=("-Xmx4g",))
    rep.tlc("Trace_Tbcd", res)
    rep.traces_validated += len(recs)
    for i in bad[:20]:
        rep.violation(f"TLC rejects the recorded behaviour of the TBCD functions on {inputs[i]!r}: {json.dumps(recs[i])[:300]}",
                      {"digits": inputs[i]})
    if recs:
        rep.sample({"trace_record": recs[0]})
    rep.assumptions += ["digit strings are over 0-9 (the special TBCD characters *, #, a, b, c are outside the statement)",
                        "AVPs are built from ints and from digit strings without leading zeros (int() drops them)"]


def replay(rep, path):
    if json.load(open(path))["replay"].get("kind") == "purity":
        purity(rep)
        rep.sample(json.load(open(path))["replay"])
        return rep.finish()
    api = _api()
    ds = json.load(open(path))["replay"]["digits"]
    d = [int(c) for c in ds]
    defs = f"Vecs == <<[d |-> {vectors.tlc.tla(d)}, e |-> TbcdEnc({vectors.tlc.tla(d)})]>>"
    vecs, res = vectors.gen("Gen_Tbcd_replay", ["Types"], defs, "Vecs")
    rep.tlc("Gen_Tbcd_replay", res)
    rep.case(tuple(d))
    compare_vector(rep, vecs[0]["d"], vecs[0]["e"], api)
    rep.sample({"digits": ds})
    return rep.finish()
