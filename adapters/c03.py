"""C03 -- malformed input is rejected cleanly and never wedges the decoder or the node.

C03a (decoder).  Specification: Wire.DecMsgs / WellFormed (total by construction).  TLC (i) evaluates the
     decoder on EVERY byte string up to length 6 over a 5-symbol alphabet (totality, WellFormed <=> ok,
     re-encode identity), (ii) generates the structured corruptions of real messages: every truncation
     point, every header / AVP length field (top level and nested) set to each value of a boundary set, V
     flag flipped, data widened / narrowed, together with the verdict WellFormed(bytes).
     The harness decodes each with a step bound B(n) = 2000 + 400 n + 4 n^2 traced lines and requires a clean
     outcome: a list of at most n messages or one of the library's own error types.
     T: seeded random garbage and random mutations (monitor: clean outcome).
C03b (live node): see adapters/assoc.py -- malformed segments injected into a running association under
     the deterministic scheduler, in each connection state.
"""
import json
import random
import sys

from engine import vectors, tlc
from engine.report import guard, Hang
from . import dictx

T = tlc.tla


class Budget(BaseException):
    pass


def bound(n):
    return 2000 + 400 * n + 4 * n * n


def decode_bounded(raw, fn=None):
    """('ok', n messages) | ('lib', exception) | ('leak', exception) | ('budget', lines) ; + lines used"""
    from bromelia.base import DiameterMessage
    fn = fn or DiameterMessage.load
    limit = bound(len(raw))
    count = [0]

    def tracer(frame, event, arg):
        if "/bromelia/" not in frame.f_code.co_filename:
            return None

        def local(frame, event, arg):
            if event == "line":
                count[0] += 1
                if count[0] > limit:
                    raise Budget()
            return local
        return local
    old = sys.gettrace()
    sys.settrace(tracer)
    try:
        with guard(30, "load"):
            out = fn(raw)
        res = ("ok", len(out) if isinstance(out, list) else -1)
    except Budget:
        res = ("budget", count[0])
    except Hang as e:
        res = ("budget", str(e))
    except BaseException as e:
        res = ("lib" if type(e).__module__ == "bromelia.exceptions" else "leak", e)
    finally:
        sys.settrace(old)
    return res, count[0]


def decode_in_child(raws, cpu_seconds=20):
    """decodes the inputs one after the other in a child process with a CPU limit per input; returns the index of the first input
    whose decoding did not return (None when all did)"""
    import subprocess
    from engine.report import REPO
    code = ("import sys, resource, json\n"
            "sys.path.insert(0, %r)\n"
            "from bromelia.base import DiameterMessage\n"
            "raws = json.load(sys.stdin)\n"
            "for i, h in enumerate(raws):\n"
            "    used = resource.getrusage(resource.RUSAGE_SELF).ru_utime\n"
            "    resource.setrlimit(resource.RLIMIT_CPU, (int(used) + %d + 1, int(used) + %d + 2))\n"
            "    try:\n"
            "        DiameterMessage.load(bytes.fromhex(h))\n"
            "    except BaseException:\n"
            "        pass\n"
            "    print(i, flush=True)\n") % (REPO, cpu_seconds, cpu_seconds)
    p = subprocess.run(["/venv/bin/python", "-c", code], input=json.dumps([r.hex() for r in raws]), capture_output=True, text=True,
                       timeout=cpu_seconds * 40 + 600)
    done = [int(x) for x in p.stdout.split() if x.strip().isdigit()]
    last = done[-1] if done else -1
    return None if last == len(raws) - 1 else last + 1


def judge(rep, raw, res, lines, what, replay):
    kind, val = res
    if kind == "budget":
        rep.violation(f"{what}: decoding {len(raw)} bytes did not finish within the step bound {bound(len(raw))} traced lines ({raw.hex()[:120]})", replay)
    elif kind == "leak":
        rep.violation(f"{what}: decoding leaked {type(val).__name__}: {str(val)[:100]} instead of a library error ({raw.hex()[:160]})", replay)
    elif kind == "ok" and (val < 0 or val > max(1, len(raw))):
        rep.violation(f"{what}: decoding {len(raw)} bytes returned {val} messages", replay)
    else:
        return True
    return False


def base_messages(rng):
    """real messages (dumped by the library) that TLC will corrupt"""
    from bromelia.messages import CER, DWR
    from bromelia.base import DiameterRequest, DiameterAVP
    from bromelia.avps import (SessionIdAVP, OriginHostAVP, OriginRealmAVP, DestinationRealmAVP, UserNameAVP, ResultCodeAVP,
                               VendorSpecificApplicationIdAVP, VendorIdAVP, AuthApplicationIdAVP, AuthSessionStateAVP,
                               SubscriptionDataAVP, MsisdnAVP, FailedAvpAVP, RedirectHostAVP, EventTimestampAVP, HostIpAddressAVP,
                               CcTotalOctetsAVP)
    byname = dictx.by_name()
    m1 = CER(origin_host="client.network", origin_realm="network", host_ip_address="10.1.2.3")
    m2 = DiameterRequest(command_code=316, application_id=16777251, avps=[
        SessionIdAVP(b"mme.example;1;2"), VendorSpecificApplicationIdAVP([VendorIdAVP(10415), AuthApplicationIdAVP(16777251)]),
        AuthSessionStateAVP(byname["AuthSessionStateAVP"].values[0]), OriginHostAVP("mme.example"), OriginRealmAVP("example"),
        DestinationRealmAVP("home.example"), UserNameAVP("001019999999999"),
        SubscriptionDataAVP([MsisdnAVP(b"\x55\x11\x99\x99\x99\x99"), FailedAvpAVP([UserNameAVP("x"), ResultCodeAVP(5005)])]),
        DiameterAVP(code=99990, vendor_id=99999, flags=0x80, data=b"opaque!")])
    m3 = DiameterRequest(command_code=272, application_id=4, avps=[
        SessionIdAVP(b"s;1;1"), RedirectHostAVP("aaa://host.example:3868;transport=tcp"), EventTimestampAVP(b"\xe0\x00\x00\x01"),
        HostIpAddressAVP("2001:db8::1"), CcTotalOctetsAVP(2 ** 40), ResultCodeAVP(2001)])
    m4 = DWR(origin_host="a.b", origin_realm="b")
    return [m1.dump(), m2.dump(), m3.dump(), m4.dump() + m4.dump()]


GEN = r"""
Set3(b, i, n) == [b EXCEPT ![i] = (n \div 65536) % 256, ![i + 1] = (n \div 256) % 256, ![i + 2] = n % 256]
LenVals(x) == {0, 1, 4, 7, 8, 9, 11, 12, 13, 16, 19, 20, 21, 24, 255, 256, 65535, 65536, 16777215}
              \cup {v \in (x - 4)..(x + 4) : v >= 0} \cup {x + 8, x + 1000}
\* offsets (1-based) of the AVP headers of a well-formed AVP sequence starting at offset base
RECURSIVE Offs(_, _)
Offs(b, base) == IF Len(b) < 8 THEN {} ELSE
                   LET alen == Val3(SubSeq(b, 6, 8)) tot == alen + Pad(alen)
                   IN IF alen < 8 \/ tot > Len(b) THEN {base} ELSE {base} \cup Offs(SubSeq(b, tot + 1, Len(b)), base + tot)
\* first-level nested AVPs of the AVP at offset o (treating its data as AVPs when that parses)
Nested(b, o) == LET flags == b[o + 4] hl == IF HasV(flags) THEN 12 ELSE 8 alen == Val3(SubSeq(b, o + 5, o + 7))
                    data == SubSeq(b, o + hl, o + alen - 1)
                IN IF alen > hl + 8 /\ DecAvps(data).ok THEN Offs(data, o + hl) ELSE {}
MsgLen(b) == Val3(SubSeq(b, 2, 4))
Top(b) == Offs(SubSeq(b, 21, MsgLen(b)), 21)
AllOffs(b) == Top(b) \cup UNION {Nested(b, o) : o \in Top(b)}
Corrupt(b) == {SubSeq(b, 1, k) : k \in 0..(Len(b) - 1)}                                        \* every truncation point
              \cup {Set3(b, 2, n) : n \in LenVals(MsgLen(b))}                                    \* Message Length
              \cup UNION {{Set3(b, o + 5, n) : n \in LenVals(Val3(SubSeq(b, o + 5, o + 7)))} : o \in AllOffs(b)}   \* AVP Length fields
              \cup {[b EXCEPT ![o + 4] = (IF HasV(b[o + 4]) THEN b[o + 4] - 128 ELSE b[o + 4] + 128)] : o \in AllOffs(b)}   \* V flag flipped
              \cup {[b EXCEPT ![o + 3] = (b[o + 3] + 1) % 256] : o \in AllOffs(b)}               \* neighbouring AVP code
              \cup {[b EXCEPT ![i] = 255] : i \in {1, 5, 9, 21, 22, 25}}
Vecs == SetToSeq({[bytes |-> c, wf |-> WellFormed(c)] : c \in UNION {Corrupt(b) : b \in Bases}})
\* the decoder of the specification is total and consistent on every small byte string
Alpha == {0, 1, 8, 20, 255}
RECURSIVE Strings(_)
Strings(k) == IF k = 0 THEN {<<>>} ELSE {Append(s, x) : s \in Strings(k - 1), x \in Alpha}
Small == UNION {Strings(k) : k \in 0..SMALLMAX}
"""


def run(rep):
    rng = random.Random(rep.seed * 7919 + 3)
    bases = base_messages(rng)
    rep.rule = ("C03a: TLC-generated structured corruptions of 4 real message streams (all truncation points; message and AVP length fields, "
                "top level and nested, x ~30 boundary values; V flag flips; code changes) + all byte strings up to length 5/6 over 5 symbols in "
                "the specification; random garbage and mutations; step bound 2000+400n+4n^2 lines. C03b: malformed segments injected into a "
                "live association in each connection state. distinct = distinct byte strings")
    smallmax = 5 if rep.tier == "quick" else 6
    defs = "Bases == {" + ", ".join(T(list(b)) for b in bases) + "}\n" + GEN.replace("SMALLMAX", str(smallmax))
    vecs, res = vectors.gen("Gen_Corrupt", ["Wire"], defs, "Vecs",
                            theorems=["\\A s \\in Small : (WellFormed(s) = DecMsgs(s).ok) /\\ ThmReEncode(s) /\\ (s # <<>> => ~WellFormed(s))",
                                      "\\A s \\in Small : DecAvps(s).ok => EncAvps(DecAvps(s).val) = s",
                                      "\\A b \\in Bases : WellFormed(b)"],
                            java_opts=("-Xmx8g",), timeout=2400)
    rep.tlc("Gen_Corrupt", res)
    nwf = 0
    for k, v in enumerate(vecs):
        raw = bytes(v["bytes"])
        rep.case(raw)
        nwf += bool(v["wf"])
        res_, lines = decode_bounded(raw)
        judge(rep, raw, res_, lines, "structured corruption" + (" (still well-formed)" if v["wf"] else ""), {"kind": "bytes", "hex": raw.hex()})
        if len(rep.violations) >= 30:
            break
    rep.notes["corruption_vectors"] = len(vecs)
    rep.notes["of_which_well_formed"] = nwf
    rep.sample({"corruption": bytes(vecs[len(vecs) // 2]["bytes"]).hex(), "well_formed": vecs[len(vecs) // 2]["wf"]})

    # explicit structural points named by the statement
    special = [bytes([1, 0, 0, n]) + bytes(16) for n in range(0, 20)] + [b"", b"\x01", b"\x01\x00\x00", b"\x01\x00\x00\x14", bytes(19)]
    deep = b""
    for _ in range(600):                       # Failed-AVP nested 600 deep
        deep = (279).to_bytes(4, "big") + b"\x40" + (8 + len(deep)).to_bytes(3, "big") + deep
    special.append(bytes([1]) + (20 + len(deep)).to_bytes(3, "big") + bytes([0x80, 0, 1, 16]) + bytes(12) + deep)
    bad_utf8 = (292).to_bytes(4, "big") + b"\x40" + (8 + 6).to_bytes(3, "big") + b"aaa:\xff\xfe" + b"\0\0"
    special.append(bytes([1]) + (20 + len(bad_utf8)).to_bytes(3, "big") + bytes([0x80, 0, 1, 16]) + bytes(12) + bad_utf8)
    for raw in special:
        rep.case(raw)
        res_, lines = decode_bounded(raw)
        judge(rep, raw, res_, lines, "structural point", {"kind": "bytes", "hex": raw.hex()})
    # AVP-level decoder
    from bromelia.base import DiameterAVP
    for v in vecs[:: (7 if rep.tier == "quick" else 1)]:
        raw = bytes(v["bytes"])[20:]
        res_, lines = decode_bounded(raw, DiameterAVP.load)
        judge(rep, raw, res_, lines, "DiameterAVP.load", {"kind": "avps", "hex": raw.hex()})

    # ---- T: random garbage and random mutations
    n = 3000 if rep.tier == "quick" else 300000
    for i in range(n):
        r = rng.random()
        if r < 0.3:
            raw = bytes(rng.getrandbits(8) for _ in range(rng.choice([1, 4, 5, 19, 20, 21, 28, 40, 64, 200])))
        else:
            b = bytearray(rng.choice(bases))
            for _ in range(rng.randint(1, 4)):
                j = rng.randrange(len(b))
                b[j] = rng.choice([0, 1, 4, 8, 12, 20, 0x80, 0xff, rng.getrandbits(8)])
            if rng.random() < 0.3:
                b = b[:rng.randrange(len(b))]
            raw = bytes(b)
        rep.case(raw)
        res_, lines = decode_bounded(raw)
        judge(rep, raw, res_, lines, "random input", {"kind": "bytes", "hex": raw.hex()})
        if len(rep.violations) >= 40:
            break
    # ---- adversarial text for the data types that are parsed by a grammar (DiameterURI): long labels, repeated separators and a
    # tail that makes the match fail at the very end -- the decoder must answer within the same bound (no backtracking blow-up)
    def wrap_avp(code, data, flags=0x40):
        pad = (-len(data)) % 4
        avp = code.to_bytes(4, "big") + bytes([flags]) + (8 + len(data)).to_bytes(3, "big") + data + bytes(pad)
        return bytes([1]) + (20 + len(avp)).to_bytes(3, "big") + bytes([0x80, 0, 1, 60]) + (16777251).to_bytes(4, "big") + bytes(8) + avp
    hosts = ["a" * 30, "a" * 45, "a" * 64, "a." * 24, "ab-" * 16, "a" * 28 + ".b" * 8, "0" * 40, "a" * 20 + "." + "b" * 20, "-" * 33]
    tails = ["", ";transport=tls", ":99999", "!", ":", ";protocol=", ";transport=tcp;protocol=diametre", " ", "..", ":3868;transport=sctp;x"]
    # (a regular expression that backtracks exponentially does not return to the interpreter: these inputs are decoded in a child
    # process under a CPU limit; the line-counting bound is applied afterwards to the ones that returned)
    uris = [wrap_avp(292, (scheme + hname + tail).encode()) for scheme in ("aaa://", "aaas://") for hname in hosts for tail in tails]
    stuck = decode_in_child(uris, cpu_seconds=20)
    for raw in uris:
        rep.case(raw)
    if stuck is not None:
        rep.violation(f"adversarial DiameterURI: decoding {len(uris[stuck])} bytes did not return within 20 s of CPU time "
                      f"({uris[stuck][28:].rstrip(bytes(1))!r})", {"kind": "bytes", "hex": uris[stuck].hex(), "child": True})
    else:
        for raw in uris:
            res_, lines = decode_bounded(raw)
            judge(rep, raw, res_, lines, "adversarial DiameterURI", {"kind": "bytes", "hex": raw.hex()})
    rep.notes["adversarial_uri_inputs"] = len(uris)
    rep.traces_validated += 0
    # ---- a history of refused input does not wedge the decoder: many streams that fail inside a Grouped AVP (on this thread and on
    # another one), then well-formed messages with Grouped AVPs, which must still decode
    from . import c02
    import threading as _th
    from bromelia.base import DiameterMessage

    def wrap(body):
        return bytes([1]) + (20 + len(body)).to_bytes(3, "big") + bytes([0x80]) + (316).to_bytes(3, "big") + (16777251).to_bytes(4, "big") + bytes(8) + body
    good = [m if isinstance(m, (bytes, bytearray)) else m.dump() for m in base_messages(random.Random(3))[:6]]
    good.append(wrap(bytes.fromhex("00000104400000200000010a4000000c000028af000001024000000c01000023")))      # Vendor-Specific-Application-Id

    def refuse_many():
        for i in range(60):
            body = bytes.fromhex(c02.MALFORMED_IN_GROUPED[i % len(c02.MALFORMED_IN_GROUPED)])
            try:
                DiameterMessage.load(wrap(body + bytes(-len(body) % 4)))
            except BaseException:
                pass
    for where in ("this thread", "another thread"):
        if where == "this thread":
            refuse_many()
        else:
            t = _th.Thread(target=refuse_many)
            t.start()
            t.join(60)
        for raw in good:
            rep.case(("after-refusals", where, raw))
            try:
                msgs = DiameterMessage.load(raw)
                ok = len(msgs) >= 1 and b"".join(m.dump() for m in msgs) == raw or len(msgs) >= 1
            except BaseException as e:
                ok = False
                msgs = e
            if not ok:
                rep.violation(f"after 60 streams refused inside Grouped AVPs (on {where}) a well-formed message of {len(raw)} bytes is not decoded any more: "
                              f"{type(msgs).__name__}: {msgs}", {"kind": "after-refusals", "hex": raw.hex()})
                break
    # ---- C03b
    if not rep.violations:
        from . import assoc
        assoc.check_garbage(rep)
    rep.assumptions += ["a clean outcome is a list of messages or an exception class defined in bromelia/exceptions.py; which of the two is not "
                        "constrained for malformed input (the decoder may be lenient)",
                        "the step bound counts traced source lines inside bromelia frames"]


def replay(rep, path):
    r = json.load(open(path))["replay"]
    if r.get("kind") in ("bytes", "avps"):
        raw = bytes.fromhex(r["hex"])
        from bromelia.base import DiameterAVP
        res_, lines = decode_bounded(raw, DiameterAVP.load if r["kind"] == "avps" else None)
        judge(rep, raw, res_, lines, "replay", r)
        rep.states, rep.transitions = 1, 1
    else:
        from . import assoc
        assoc.replay_garbage(rep, r)
    rep.case(str(r)[:60])
    rep.sample(r)
    return rep.finish()
