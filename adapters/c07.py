"""C07 -- base-protocol answers echo the identifiers of the request they answer.

Same specification (spec/Psm.tla, action property AnswersEcho and the per-step output `out`) and the same
binding as C06, with the configuration that matters here: two distinct identifier values (mapped by the
harness to boundary Hop-by-Hop / End-to-End pairs), receive queue of two (back-to-back requests with
different identifiers), the answerable requests CER / DWR / DPR mixed with application traffic, both roles,
and Start after Closed on the same node object (the shared answer templates survive a reconnect).
Every emitted CEA / DWA / DPA is decoded from the bytes written to the fake socket and must carry the
identifiers of the request processed in that very tick, the local Origin-Host / Origin-Realm, a Result-Code and
the R flag clear.
"""
from . import c06


def run(rep):
    c06.run(rep, for_c07=True)
    rep.rule = ("TLC: Psm with 2 identifier values, receive queue <= 2, kinds {CER, CEA, DWR, DPR, REQ}, both roles, restart; every (state, event) "
                "group toured on the real node; emitted answers decoded from the socket bytes. distinct = (state, event) groups")


def replay(rep, path):
    return c06.replay(rep, path)
