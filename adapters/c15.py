"""C15 -- request identifiers are never reused within a process.

Specification: spec/Ids.tla.
 C15a (sequential): TLC enumerates creation histories over {request, answer, request-from-header} and every
      output sequence of a 3-valued random source (repeats included) and computes, with operator Run, which
      draw each request must end up with; the harness scripts os.urandom inside bromelia.base accordingly,
      creates generic and typed requests/answers and compares identifiers and the number of draws consumed.
 C15b (concurrent): TLC model-checks the draw/test/append protocol for 2..3 threads with an adversarial
      source (Distinct, Mutex; the lock-free variant is shown to violate Distinct).  The real constructors
      run in 2..3 threads under the deterministic scheduler with yield points at every draw, registry
      membership test and registry append (and, in the thorough tier, at every bytecode of the two
      identifier methods); monitors check pairwise distinctness, and every recorded execution is validated
      by TLC as a behaviour of Ids (trace validation).
"""
import json
import os
import random
import re

from engine import vectors, tlc, tlaval
from engine.report import guard
from . import dictx, c09

T = tlc.tla


class Source:
    """scripted random source installed as bromelia.base.os"""
    def __init__(self):
        import os as _os
        self._os = _os
        self.script = []
        self.draws = 0
        self.fresh = 0
        self.log = None

    def urandom(self, n):
        from engine import vsched
        if vsched.SCHED is not None and vsched.SCHED.cur is not None:
            vsched.SCHED.yield_op(("op", None, "urandom"), write=False)
        self.draws += 1
        out = b""
        while True:
            # a caller that asks for more than one word gets the next words of the same stream (block reads)
            if self.script:
                v = self.script.pop(0)
            else:
                self.fresh += 1
                v = (0xF0000000 + self.fresh).to_bytes(4, "big")
            if self.log is not None:
                self.log("draw", v)
            out += v
            if len(out) >= n:
                return out[:n]

    def __getattr__(self, name):
        return getattr(self._os, name)


class TracedList(list):
    """the identifier registry with its membership test and append made observable (and preemptible)"""
    log = None
    name = ""

    def __contains__(self, v):
        from engine import vsched
        if vsched.SCHED is not None and vsched.SCHED.cur is not None:
            vsched.SCHED.yield_op(("op", None, "contains"), write=False)
        r = list.__contains__(self, v)
        if TracedList.log is not None:
            TracedList.log("test", v, self.name, r)
        return r

    def append(self, v):
        from engine import vsched
        if vsched.SCHED is not None and vsched.SCHED.cur is not None:
            vsched.SCHED.yield_op(("op", None, "append"))
        list.append(self, v)
        if TracedList.log is not None:
            TracedList.log("append", v, self.name)


def typed_requests():
    out = []
    for c in dictx.command_classes():
        ci = c09.info(c)
        if ci["request"] and ci["in_ref"]:
            out.append(ci)
    return out


def make(kind, k, byname, rng, reqs, hdr_ids=None, last=None):
    from bromelia.base import DiameterRequest, DiameterAnswer, DiameterHeader
    from bromelia.messages import DWA, CEA
    if kind in ("ansh", "reqh"):
        if last is None:
            kind = "ans" if kind == "ansh" else "hdr"
        elif kind == "ansh":
            return DiameterAnswer(header=last.header)
        else:
            return DiameterRequest(header=last.header)
    if kind == "req":
        if k % 3 == 0:
            return DiameterRequest(command_code=316, application_id=16777251)
        ci = reqs[k % len(reqs)]
        need = {p["name"] for p in ci["params"] if p["kind"] == "mand" and not p["hasdefault"]}
        out, msg, _c, _e, _kw = c09.instantiate(ci, need, 0, byname, rng)
        if out != "ok":
            raise RuntimeError(f"cannot build {ci['key']}: {msg}")
        return msg
    if kind == "ans":
        return [DiameterAnswer(command_code=316, application_id=16777251), DWA(), CEA()][k % 3]
    h = DiameterHeader(command_code=272, application_id=4, hop_by_hop=hdr_ids[0], end_to_end=hdr_ids[1])
    return DiameterRequest(header=h)


def check_sequential(rep, byname):
    import bromelia.base as base
    from bromelia.base import DiameterRequest
    maxops = 3 if rep.tier == "quick" else 4
    srclen = 4 if rep.tier == "quick" else 5
    defs = f"""
Threads == {{1}}
Vals == {{1, 2, 3}}
UseLock == TRUE
Failing == {{}}
ReleaseLast == FALSE
INSTANCE Ids WITH pc <- 0, reg <- 0, val <- 0, issued <- 0, owner <- 0, result <- 0
Ops == UNION {{[1..n -> {{"req", "ans", "hdr", "ansh", "reqh"}}] : n \\in 1..{maxops}}}
Srcs == [1..{srclen} -> Vals]
Vecs == SetToSeq({{[ops |-> o, src |-> s, exp |-> Run(o, s)] : o \\in {{x \\in Ops : \\E i \\in DOMAIN x : x[i] = "req"}}, s \\in Srcs}})
"""
    vecs, res = vectors.gen("Gen_Ids", ["Naturals", "Sequences", "FiniteSets", "SequencesExt"], defs, "Vecs", java_opts=("-Xmx6g",), timeout=1500)
    rep.tlc("Gen_Ids", res)
    src = Source()
    saved_os = base.os
    base.os = src
    rng = random.Random(rep.seed * 7919 + 15)
    reqs = typed_requests()
    seen_h = set(bytes(x) for x in DiameterRequest.hop_by_hop_identifiers)
    seen_e = set(bytes(x) for x in DiameterRequest.end_to_end_identifiers)
    try:
        for n, v in enumerate(vecs):
            rep.case(("seq", n))
            tag = (n + 1) & 0xFFFFFF
            conc = {x: bytes([x]) + tag.to_bytes(3, "big") for x in (1, 2, 3)}        # values unique to this vector
            src.script = [conc[x] for x in v["src"]]
            src.draws = 0
            replay = {"kind": "sequential", "ops": v["ops"], "src": v["src"]}
            last = None
            for k, (op, e) in enumerate(zip(v["ops"], v["exp"])):
                nh, ne = list(DiameterRequest.hop_by_hop_identifiers), list(DiameterRequest.end_to_end_identifiers)
                d0 = src.draws
                ids = (0x0A000000 + n, 0x0B000000 + n) if (n + k) % 4 else (0, 0)        # an explicit header may also carry zero identifiers
                try:
                    with guard(10, "create"):
                        m = make(op, n + k, byname, rng, reqs, ids, last)
                except BaseException as ex:
                    rep.violation(f"creating a {op} raised {type(ex).__name__}: {ex}", replay)
                    break
                if op == "req":
                    if e["hbh"] == 0 or e["e2e"] == 0:
                        break        # scripted source exhausted: the remaining draws are the harness's fresh values
                    want = (conc[v["src"][e["hbh"] - 1]], conc[v["src"][e["e2e"] - 1]])
                    got = (m.header.hop_by_hop, m.header.end_to_end)
                    # the property: different from the identifiers of every request created earlier in this process
                    if got[0] in seen_h or got[1] in seen_e:
                        rep.violation(f"request {k + 1} of history {v['ops']} with random source {v['src']}: identifiers "
                                      f"{got[0].hex()}/{got[1].hex()} - {'Hop-by-Hop' if got[0] in seen_h else 'End-to-End'} already carried by an earlier request "
                                      f"(specification: {want[0].hex()}/{want[1].hex()}, draws {e['hbh']}/{e['e2e']})", replay)
                        break
                    seen_h.add(got[0])
                    seen_e.add(got[1])
                    if got != want or src.draws != e["next"] - 1:
                        # another draw protocol than the specified one (e.g. block reads): not a statement of the property
                        rep.nonprop_differences += 1
                        rep.notes.setdefault("draw_protocol_differences", []).append({"ops": v["ops"], "src": v["src"], "request": k + 1}) \
                            if len(rep.notes.get("draw_protocol_differences", [])) < 3 else None
                        break
                    last = m
                else:
                    if src.draws != d0 or list(DiameterRequest.hop_by_hop_identifiers) != nh or list(DiameterRequest.end_to_end_identifiers) != ne:
                        rep.violation(f"creating a{'n answer' if op in ('ans', 'ansh') else ' request from an explicit header'} ({op}) consumed "
                                      f"{src.draws - d0} draw(s) / altered the identifier registries (history {v['ops']})", replay)
                        break
                    if op == "hdr" and (m.header.get_hop_by_hop(), m.header.get_end_to_end()) != ids:
                        rep.violation(f"request built from an explicit header carries {m.header.hop_by_hop.hex()}/{m.header.end_to_end.hex()}, header had {ids}", replay)
                        break
            if len(rep.violations) >= 30:
                break
        # values whose octets overlap: the four octets of u also occur, unaligned, across two neighbouring earlier identifiers
        if len(rep.violations) < 30:
            for t, (v1, v2) in enumerate(((b"\x11\xaa\xbb\xcc", b"\xdd\x22\x33\x44"), (b"\x0d\x00\x00\x01", b"\x00\x00\x00\x0d"), (b"\x7e\x7e\x7e\x7e", b"\x7e\x01\x02\x03"))):
                for off in (1, 2, 3):
                    u = (v1 + v2)[off:off + 4]
                    tag = bytes([0x0E, t, off])
                    w = [tag + bytes([i]) for i in range(8)]                      # End-to-End values of this history (all different)
                    f1, f2 = bytes([0x0F, t, off, 1]), bytes([0x0F, t, off, 2])
                    # draws: hbh, e2e alternately; request 4 is offered u again for its Hop-by-Hop (must be redrawn: f1)
                    src.script = [v1, w[0], v2, w[1], u, w[2], u, f1, w[3], f2, w[4]]
                    made = []
                    try:
                        for i in range(4):
                            made.append(make("req", 3 * i, byname, rng, reqs))
                    except BaseException as ex:
                        rep.violation(f"creating requests from the overlapping values {v1.hex()} {v2.hex()} {u.hex()} raised {type(ex).__name__}: {ex}", {"kind": "overlap", "t": t, "off": off})
                        break
                    rep.case(("overlap", t, off))
                    hs = [m.header.hop_by_hop for m in made]
                    es = [m.header.end_to_end for m in made]
                    if len(set(hs)) != len(hs) or len(set(es)) != len(es):
                        rep.violation(f"four requests created in a row carry Hop-by-Hop {[h.hex() for h in hs]} / End-to-End {[e.hex() for e in es]}: the random source offered "
                                      f"{u.hex()} twice (its octets also occur across {v1.hex()} {v2.hex()}, handed out before)", {"kind": "overlap", "t": t, "off": off})
                        break
        # a long history: a value handed out more than a thousand requests ago is still taken
        if len(rep.violations) < 30:
            nlong = 9000          # (more than any plausible "window" of remembered identifiers: 1024, 4096, 8192)
            vals = [bytes([0x0C]) + i.to_bytes(3, "big") for i in range(2 * nlong + 4)]
            src.script = list(vals[:2 * nlong]) + [vals[0], vals[2 * nlong], vals[1], vals[2 * nlong + 1]]
            src.draws = 0
            first = None
            for i in range(nlong):
                m = make("req", 3 * i if i % 2 else 3 * i + 1, byname, rng, reqs)
                if i == 0:
                    first = (m.header.hop_by_hop, m.header.end_to_end)
            m = make("req", 0, byname, rng, reqs)
            rep.case(("long-history",))
            if first != (vals[0], vals[1]):
                rep.violation(f"long history: the first request carries {first[0].hex()}/{first[1].hex()}, the source gave {vals[0].hex()}/{vals[1].hex()}", {"kind": "long-history"})
            elif (m.header.hop_by_hop, m.header.end_to_end) != (vals[2 * nlong], vals[2 * nlong + 1]):
                rep.violation(f"long history: after {nlong} requests the source repeats the identifiers of the first one; request {nlong + 1} carries "
                              f"{m.header.hop_by_hop.hex()}/{m.header.end_to_end.hex()} (first request: {first[0].hex()}/{first[1].hex()}), specification "
                              f"{vals[2 * nlong].hex()}/{vals[2 * nlong + 1].hex()} (redrawn)", {"kind": "long-history"})
    finally:
        base.os = saved_os
    rep.notes["sequential_vectors"] = len(vecs)
    rep.sample({"sequential_vector": vecs[len(vecs) // 3]})


TRACE_MODULE = r"""---- MODULE Trace_Ids ----
EXTENDS Ids, Json, TLCExt, IOUtils
Traces == JsonDeserialize(TRACEFILE)
VARIABLES tid, l
TraceInit == tid = 1 /\ l = 0 /\ Init
Act(e) == CASE e.a = "lock" -> IdLock(e.t)
            [] e.a = "draw" -> IdDraw(e.t, e.v)
            [] e.a = "test" -> (IdTest(e.t) /\ val[e.t] = e.v /\ Regs[reg[e.t]] = e.r /\ (pc'[e.t] = "draw") = e.found)
            [] e.a = "append" -> (IdAppend(e.t) /\ val[e.t] = e.v /\ Regs[reg[e.t]] = e.r)
            [] e.a = "unlock" -> IdUnlock(e.t)
TraceNext == \/ /\ l < Len(Traces[tid]) /\ l' = l + 1 /\ tid' = tid /\ Act(Traces[tid][l + 1])
             \/ /\ l = Len(Traces[tid]) /\ tid < Len(Traces) /\ tid' = tid + 1 /\ l' = 0
                /\ pc' = [t \in Threads |-> IF UseLock THEN "lock" ELSE "draw"] /\ reg' = [t \in Threads |-> 1]
                /\ val' = [t \in Threads |-> NoVal] /\ issued' = [r \in {"hbh", "e2e"} |-> <<>>] /\ owner' = NoVal
                /\ result' = [t \in Threads |-> [r \in {"hbh", "e2e"} |-> NoVal]]
TraceSpec == TraceInit /\ [][TraceNext]_<<vars, tid, l>>
Progress == TLCSet(1, <<tid, l>>)
Accepted == PrintT(<<"PROGRESS", TLCGet(1), Len(Traces), Len(Traces[Len(Traces)])>>)
====
"""


def run_concurrent(seed, nthreads, script_vals, opcode, kinds=("generic",)):
    """one execution of nthreads concurrent request creations; returns (events, results, outcome)"""
    from engine import vsched
    import bromelia.base as base
    from bromelia.base import DiameterRequest
    s = vsched.new_sched(seed, max_steps=20000)
    src = Source()
    base.os = src
    src.script = list(script_vals)
    events = []
    names = {}

    def who():
        c = s.cur
        return names.get(id(c), 0)
    src.log = lambda a, v: events.append({"t": who(), "a": "draw", "v": v[0], "r": "", "found": False})

    def tl_log(a, v, r, found=False):
        events.append({"t": who(), "a": a, "v": v[0], "r": r, "found": bool(found)})
    TracedList.log = tl_log
    hb, ee = TracedList(), TracedList()
    hb.name, ee.name = "hbh", "e2e"
    if isinstance(DiameterRequest.hop_by_hop_identifiers, list) and isinstance(DiameterRequest.end_to_end_identifiers, list):
        DiameterRequest.hop_by_hop_identifiers, DiameterRequest.end_to_end_identifiers = hb, ee
    # (registries of another representation are left as they are: the execution is judged by its results only)
    lock = getattr(DiameterRequest, "identifiers_lock", None)
    for attr, val in list(vars(DiameterRequest).items()):
        if type(val).__name__ in ("lock", "RLock") or isinstance(val, vsched.VLock):
            vl = vsched.VLock()
            setattr(DiameterRequest, attr, vl)
            acq, rel = vl.acquire, vl.release

            def acquire(*a, _acq=acq, **k):
                r = _acq(*a, **k)
                events.append({"t": who(), "a": "lock", "v": 0, "r": "", "found": False})
                return r

            def release(_rel=rel):
                events.append({"t": who(), "a": "unlock", "v": 0, "r": "", "found": False})
                return _rel()
            vl.acquire, vl.release = acquire, release
            vl.__class__ = type("TracedVLock", (vsched.VLock,), {"__enter__": lambda self: self.acquire(), "__exit__": lambda self, *a: self.release()})
    if opcode:
        s.opcode_funcs = {"__set_hop_by_hop_identifier", "__set_end_to_end_identifier"}
        s.opcode_budget = 4000
    results = {}
    failed = []

    from bromelia.messages import CER, DWR, DPR

    def worker(i):
        kind = kinds[(i - 1) % len(kinds)]
        if kind == "CER":
            r = CER()
        elif kind == "DWR":
            r = DWR()
        elif kind == "DPR":
            r = DPR()
        elif kind == "bad":
            # a construction that fails once its identifiers are drawn (the command code does not fit 24 bits)
            try:
                DiameterRequest(command_code=2 ** 24 + i, application_id=16777251)
            except BaseException as e:
                if type(e).__module__ != "bromelia.exceptions":
                    raise
                failed.append(i)
                return
            raise AssertionError("a 25-bit command code was accepted")
        else:
            r = DiameterRequest(command_code=316, application_id=16777251)
        results[i] = (r.header.hop_by_hop, r.header.end_to_end)
    for i in range(1, nthreads + 1):
        t = s.spawn(f"creator{i}", worker, i)
        names[id(t)] = i
    try:
        out = s.run(chooser=vsched.PCT(seed, depth=1 + seed % 3, horizon=120) if seed % 3 else None)
    except vsched.Deadlock as e:
        out = "deadlock: " + str(e)
    except (vsched.StepLimit, vsched.StepHang) as e:
        out = type(e).__name__ + ": " + str(e)
    finally:
        TracedList.log = None
    dead = [(t.name, f"{type(t.exc).__name__}: {t.exc}") for t in s.threads if t.exc is not None]
    recorded = list(events)        # (what follows is not part of the recorded execution)
    if out == "alldone" and not dead:
        # afterwards the source repeats every identifier that a request of this execution carries: each must be drawn again
        src.log = None
        src.script = [x for pair in results.values() for x in pair] * 2
        late = 0
        for j in range(2):
            r = DiameterRequest(command_code=316, application_id=16777251)
            late += 1
            results[1000 + j] = (r.header.hop_by_hop, r.header.end_to_end)
    results["failed"] = list(failed)
    return recorded, results, out, dead


def concurrent_verdict(k, results, out, dead, script):
    failed = results.pop("failed", [])
    made = {i: r for i, r in results.items() if i < 1000}
    if out != "alldone" or dead or len(made) + len(failed) != k:
        return f"{k} concurrent request creations: scheduler outcome {out}, dead threads {dead}"
    hs = [r[0] for r in results.values()]
    es = [r[1] for r in results.values()]
    if len(set(hs)) != len(hs) or len(set(es)) != len(es):
        late = " (the last two were created afterwards, from a source that repeats the earlier identifiers)" if len(results) > len(made) else ""
        fl = f"; the construction of thread(s) {failed} failed after its draws" if failed else ""
        return (f"{len(hs)} requests share an identifier: Hop-by-Hop {[h.hex() for h in hs]}, End-to-End {[e.hex() for e in es]}{late}{fl} "
                f"(random source {[x.hex() for x in script[:6]]})")
    return None


def check_concurrent(rep):
    from engine import vsched
    vsched.install(rep.seed)
    import bromelia.base as base
    from bromelia.base import DiameterRequest
    saved = (base.os, DiameterRequest.hop_by_hop_identifiers, DiameterRequest.end_to_end_identifiers)
    locked = any(type(v).__name__ in ("lock", "RLock") for v in vars(DiameterRequest).values())
    rep.notes["class_level_lock_present"] = locked
    # model checking
    for k, vals, fail in ((2, "{1, 2, 3}", ""), (3, "{1, 2}", "1")) if rep.tier == "quick" else ((2, "{1, 2, 3}", "1"), (3, "{1, 2, 3}", "1")):
        cfg = f"SPECIFICATION Spec\nCONSTANTS Threads = {{{', '.join(str(i) for i in range(1, k + 1))}}}\n Vals = {vals}\n UseLock = TRUE\n Failing = {{{fail}}}\n ReleaseLast = FALSE\nINVARIANT Distinct\nINVARIANT Mutex\nINVARIANT Registered\nCHECK_DEADLOCK FALSE\n"
        res, _ = tlc.run("Ids", cfg, workers=8, timeout=1500)
        tlc.must_ok(res, f"Ids K={k}")
        rep.tlc(f"Ids K={k} UseLock Failing={{{fail}}}", res)
    # a failed construction that pops the last registry entries (which may be another request's) lets an identifier be issued twice
    cfg = "SPECIFICATION Spec\nCONSTANTS Threads = {1, 2, 3}\n Vals = {1, 2}\n UseLock = TRUE\n Failing = {1}\n ReleaseLast = TRUE\nINVARIANT Distinct\nINVARIANT Registered\nCHECK_DEADLOCK FALSE\n"
    r3, _ = tlc.run("Ids", cfg, workers=4, timeout=600)
    if r3.violated not in ("Distinct", "Registered"):
        raise tlc.TlcError(f"vacuity self-test: release-last-on-failure does not violate Distinct / Registered (got {r3.violated})")
    rep.notes["release_last_on_failure_violates"] = r3.violated
    cfg = "SPECIFICATION Spec\nCONSTANTS Threads = {1, 2}\n Vals = {1, 2}\n UseLock = FALSE\n Failing = {}\n ReleaseLast = FALSE\nINVARIANT Distinct\nCHECK_DEADLOCK FALSE\n"
    r2, _ = tlc.run("Ids", cfg, workers=4, timeout=600)
    if r2.violated != "Distinct":
        raise tlc.TlcError("vacuity self-test: the lock-free variant does not violate Distinct")
    rep.notes["lock_free_variant_violates"] = "Distinct"
    # executions
    rng = random.Random(rep.seed * 7919 + 150)
    nruns = 300 if rep.tier == "quick" else 3000
    traces, metas = [], []
    try:
        for i in range(nruns):
            k = 2 if i % 3 else 3
            # adversarial source: the same few values for everybody, then distinct ones
            a, b = bytes([1, 0, 0, i % 251]), bytes([2, 0, 0, i % 251])
            script = [rng.choice([a, a, b]) for _ in range(rng.randint(2, 6))] + \
                     [bytes([3 + j, 0, 0, i % 251]) for j in range(8)]
            opcode = rep.tier == "thorough" and i % 4 == 0
            seed = rng.getrandbits(30)
            # typed classes first (before any generic request exists in this process), then mixtures
            kinds = [("CER", "DWR", "DPR"), ("DWR", "CER", "generic"), ("generic",), ("DPR", "generic", "CER"),
                     ("bad", "generic", "DWR"), ("generic", "bad", "generic")][0 if i < 40 else i % 6]
            events, results, out, dead = run_concurrent(seed, k, script, opcode, kinds)
            rep.case(("conc", i))
            replay = {"kind": "concurrent", "seed": seed, "threads": k, "script": [x.hex() for x in script], "opcode": opcode, "kinds": list(kinds)}
            verdict = concurrent_verdict(k, results, out, dead, script)
            if verdict:
                rep.violation(verdict, replay)
                continue
            # value abstraction for TLC: first byte of each 4-byte value
            traces.append(events)
            metas.append(replay)
            if len(rep.violations) >= 10:
                break
    finally:
        base.os, DiameterRequest.hop_by_hop_identifiers, DiameterRequest.end_to_end_identifiers = saved
    rep.notes["concurrent_runs"] = nruns
    if traces and not rep.violations and isinstance(saved[1], list):
        validate_traces(rep, traces, metas, locked)
    if traces:
        rep.sample({"concurrent_trace_prefix": traces[0][:8]})


def validate_traces(rep, traces, metas, locked):
    # group by thread count (Threads is a constant of the module)
    for k in (2, 3):
        sel = [(t, m) for t, m in zip(traces, metas) if m["threads"] == k]
        if not sel:
            continue
        wd = tlc.workdir("Trace_Ids")
        try:
            tf = os.path.join(wd, "traces.json")
            json.dump([t for t, _m in sel], open(tf, "w"))
            cfg = (f"SPECIFICATION TraceSpec\nCONSTANTS Threads = {{{', '.join(str(i) for i in range(1, k + 1))}}}\n Vals = {{1, 2, 3, 4, 5, 6, 7, 8, 9, 10, 11}}\n"
                   f" UseLock = {'TRUE' if locked else 'FALSE'}\n Failing = {{}}\n ReleaseLast = FALSE\nINVARIANT Distinct\nCONSTRAINT Progress\nPOSTCONDITION Accepted\nCHECK_DEADLOCK FALSE\n")
            res, _ = tlc.run("Trace_Ids", cfg, extra_modules={"Trace_Ids": TRACE_MODULE.replace("TRACEFILE", T(tf))}, wd=wd, workers=1, timeout=1500)
            rep.tlc(f"Trace_Ids K={k}", res)
            m = re.search(r'<<\s*"PROGRESS"', res.out)
            if res.violated == "Distinct":
                rep.violation("TLC: invariant Distinct is false in a state matched by a recorded execution", sel[0][1])
                continue
            if not m:
                tlc.must_ok(res, "Trace_Ids")
            val, _ = tlaval.parse_at(res.out, m.start())
            (t, l), nt, nl = val[1], val[2], val[3]
            rep.traces_validated += t if (t, l) == (nt, nl) else t - 1
            if (t, l) != (nt, nl):
                # a divergence, not a violation: the monitors above decide violations
                rep.nonprop_differences += 1
                rep.notes.setdefault("unexplained_divergences", []).append(
                    {"trace": t, "event": l + 1, "next_event": sel[t - 1][0][l] if l < len(sel[t - 1][0]) else None, "replay": sel[t - 1][1]})
        finally:
            tlc.cleanup(wd)


def run(rep):
    byname = dictx.by_name()
    rep.rule = ("C15a: all creation histories of length <= 3/4 over {request, answer, request-from-header} x all outputs of a 3-valued random "
                "source of length 5/6; C15b: TLC on the draw/test/append protocol (2 and 3 threads) + 300/6000 scheduled executions of the real "
                "constructors with an adversarial source, each validated by TLC. distinct = histories + executions")
    check_concurrent(rep)          # first: nothing has been created in this process yet
    if not rep.violations:
        check_sequential(rep, byname)
    rep.assumptions += ["the random source is bromelia.base's os.urandom, substituted by a scripted source",
                        "the registries are observed by substituting list subclasses for DiameterRequest.hop_by_hop_identifiers / "
                        "end_to_end_identifiers (their membership test and append become yield points)",
                        "threads are serialised by the scheduler: interleavings of bytecodes under the GIL, not a free-threaded interpreter"]


def replay(rep, path):
    r = json.load(open(path))["replay"]
    byname = dictx.by_name()
    if r["kind"] in ("sequential", "long-history", "overlap"):
        rep.notes["replay"] = "sequential histories are re-enumerated"
        check_sequential(rep, byname)
    else:
        from engine import vsched
        vsched.install(0)
        events, results, out, dead = run_concurrent(r["seed"], r["threads"], [bytes.fromhex(x) for x in r["script"]], r.get("opcode", False),
                                                    tuple(r.get("kinds", ("generic",))))
        verdict = concurrent_verdict(r["threads"], results, out, dead, [bytes.fromhex(x) for x in r["script"]])
        hs = es = []
        if verdict:
            rep.violation(verdict, r)
        elif False:
            rep.violation(f"concurrent creation: outcome {out} {dead}; Hop-by-Hop {[h.hex() for h in hs]} End-to-End {[e.hex() for e in es]}", r)
        rep.states, rep.transitions = 1, 1
    rep.case(str(r)[:80])
    rep.sample(r)
    return rep.finish()
