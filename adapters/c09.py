"""C09 -- typed command classes build exactly the command they name.

Specification: Dict.Build (spec/Dict.tla) over the command table: constructor parameter order and
defaults read from the live signatures, joined with the FROZEN reference ref/command_table.json
(command code, Application-ID, request flag, mandatory/optional kind and AVP class per parameter).
 V: for every class TLC enumerates argument subsets (none, each single optional, pairs, all, each
    mandatory omitted, 0..2 extra keyword AVPs) and computes Build; the harness instantiates the
    real class with in-domain values and compares header, AVP class order, carried values and the
    serialise/decode round trip.  TLC also checks the table invariants (request/answer pairs agree,
    parameters unique).
 T: random argument subsets with random values; recorded [key, supplied, extras, outcome] validated
    by TLC against Build.
"""
import inspect
import json
import os
import random

from engine import vectors, tlc
from engine.report import guard
from . import dictx, wirex

T = tlc.tla
VERIF = os.path.dirname(os.path.dirname(os.path.abspath(__file__)))
UNSET_APP_FINDING = "F-C09-asa-raa-unset-appid"


def ref_commands():
    return json.load(open(os.path.join(VERIF, "ref", "command_table.json")))


def class_key(cls):
    return cls.__module__.split(".")[2].split("_")[-1] + "." + cls.__name__


def info(cls, ref=None):
    """merge of the live signature (order, defaults) with the frozen table (kind, AVP class)"""
    ref = ref if ref is not None else ref_commands()
    key = class_key(cls)
    r = ref.get(key)
    sig = inspect.signature(cls.__init__)
    params = []
    for p in sig.parameters.values():
        if p.name == "self" or p.kind in (p.VAR_KEYWORD, p.VAR_POSITIONAL):
            continue
        known = (r or {}).get("params", {}).get(p.name)
        if known:
            kind, avp = known["kind"], known["avp"]
        elif p.name in getattr(cls, "mandatory", {}):
            kind, avp = "mand", cls.mandatory[p.name].__name__
        elif p.name in getattr(cls, "optionals", {}):
            kind, avp = "opt", cls.optionals[p.name].__name__
        else:
            # declared, but in neither table: accepts a ready-made DiameterAVP object, placed in declaration order
            kind, avp = "raw", "RAW_" + p.name
        hasdefault = p.default is not inspect._empty and p.default is not None
        params.append({"name": p.name, "avp": avp, "kind": kind, "hasdefault": hasdefault, "default": p.default})
    base = cls.__name__.replace("Request", "").replace("Answer", "")
    lib = key.split(".")[0]
    from bromelia.base import DiameterRequest
    return {"key": key, "lib": lib, "base": base, "cls": cls, "params": params,
            "cmd": r["cmd"] if r else None, "app": r["app"] if r else None,
            "request": r["request"] if r else issubclass(cls, DiameterRequest), "in_ref": r is not None}


def known_finding_for(rep, cls, exc):
    if class_key(cls) in ("rfc6733.AbortSessionAnswer", "rfc6733.ReAuthAnswer") and \
            any(f["id"] == UNSET_APP_FINDING for f in rep.findings):
        return UNSET_APP_FINDING
    return None


def value_for(avpname, byname, rng):
    """(constructor argument, check(avp) -> error text or None)"""
    d = byname[avpname]
    if d.name in ("SessionIdAVP", "AcctMultiSessionIdAVP"):
        if rng.random() < 0.5:
            ident = "host%d.example" % rng.randint(0, 99)
            return ident, (lambda a, ident=ident: None if isinstance(a.data, bytes) and a.data.startswith(ident.encode() + b";")
                           else f"Session-Id {a.data!r} does not start with {ident!r}")
        raw = ("peer.example;%d;%d" % (rng.getrandbits(30), rng.getrandbits(20))).encode()
        return raw, (lambda a, raw=raw: None if a.data == raw else f"Session-Id bytes altered: {a.data!r}")
    if d.name == "UserNameAVP" and rng.random() < 0.6:
        # a user name in the form 3GPP interfaces carry it: a Network Access Identifier
        nai = "%015d@nai.epc.mnc%03d.mcc%03d.3gppnetwork.org" % (rng.getrandbits(40), rng.randint(0, 999), rng.randint(0, 999))
        arg = nai if rng.random() < 0.7 else nai.encode()
        return arg, (lambda a, nai=nai: None if a.data == nai.encode() else f"carries {a.data!r}, argument encodes to {nai.encode()!r}")
    arg, data = dictx.gen_value(d, rng)
    if d.type == "GroupedType":
        objs = [m[0] for m in arg]
        dumps = b"".join(o.dump() for o in objs)
        return objs, (lambda a, dumps=dumps: None if a.data == dumps else "Grouped data is not the concatenation of its members")
    return arg, (lambda a, data=data: None if a.data == data else f"carries {a.data!r}, argument encodes to {data!r}")


def instantiate(ci, supplied, nextras, byname, rng):
    """returns (outcome, msg or exception, checks, extra_objs)"""
    kwargs, checks = {}, {}
    for p in ci["params"]:
        if p["name"] in supplied and p["kind"] == "raw":
            o, _s = dictx.make_generic(rng) if rng.random() < 0.5 else dictx.make_avp(byname["ProxyStateAVP"], rng)
            kwargs[p["name"]] = o
            checks[p["name"]] = lambda a, o=o: None if a is o else "AVP object passed for a declared argument is not carried"
        elif p["name"] in supplied:
            arg, chk = value_for(p["avp"], byname, rng)
            kwargs[p["name"]] = arg
            checks[p["name"]] = chk
    extras = []
    for i in range(nextras):
        if i % 2 == 0 and rng.random() < 0.5:
            # a vendor-specific AVP of a vendor the library has no dictionary for, whose code is a base-protocol code in the vendor-less space
            o, _s = dictx.make_generic(rng, code=rng.choice([1, 25, 263, 264, 268, 283, 293]), vendor=rng.choice([9, 94, 4242, 193]),
                                       length=rng.choice([3, 4, 6, 9]))
        else:
            o, _s = dictx.make_generic(rng) if i % 2 == 0 else dictx.make_avp(byname["ClassAVP"], rng)
        if i >= 1 and rng.random() < 0.5:
            # another AVP object with exactly the content of the previous extra (two equal Route-Record / Class AVPs are two AVPs)
            from bromelia.base import DiameterAVP as _DA
            o = _DA.load(extras[-1].dump())[0]
        extras.append(o)
        kwargs["extra_avp_%d" % (i + 1)] = o
    if ci["app"] == "arg:auth_application_id" and "auth_application_id" in kwargs:
        appid = rng.choice([16777264, 16777236, 4, 16777251])
        kwargs["auth_application_id"] = appid if rng.random() < 0.5 else appid.to_bytes(4, "big")
        checks["auth_application_id"] = lambda a, appid=appid: None if a.data == appid.to_bytes(4, "big") else "Auth-Application-Id altered"
    try:
        with guard(10, ci["key"]):
            msg = ci["cls"](**kwargs)
        return "ok", msg, checks, extras, kwargs
    except BaseException as e:
        return ("rej" if type(e).__module__ == "bromelia.exceptions" else "err"), e, checks, extras, kwargs


def build_random(cls, rng, byname):
    """used by C01/C12: a valid random instance (message, description) or None"""
    ci = info(cls)
    req = [p["name"] for p in ci["params"] if p["kind"] == "mand" and not p["hasdefault"]]
    opt = [p["name"] for p in ci["params"] if p["name"] not in req]
    supplied = set(req) | {o for o in opt if rng.random() < 0.35}
    out, msg, _c, _e, kw = instantiate(ci, supplied, rng.choice([0, 0, 1, 2]), byname, rng)
    if out != "ok":
        return None
    return msg, sorted(supplied)


def check_built(rep, ci, vec, out, msg, checks, extras, kwargs, replay):
    """compare one instantiation with the specification's Build result; returns list of problems"""
    from bromelia.base import DiameterMessage
    exp = vec["expect"]
    bad = []
    if not exp["ok"]:
        if out == "ok":
            bad.append(f"omitting mandatory argument(s) {sorted(set(p['name'] for p in ci['params'] if p['kind']=='mand' and not p['hasdefault']) - set(vec['supplied']))} was accepted")
        elif out == "err":
            bad.append(f"rejected with {type(msg).__name__}, not a library error")
        return bad
    if out != "ok":
        return [f"valid arguments {sorted(kwargs)} rejected: {type(msg).__name__}: {msg}"]
    h = msg.header
    unset = h.application_id is None
    if unset:
        kf = known_finding_for(rep, ci["cls"], None)
        if ci["app"] == "unset" and kf:
            rep.known(kf, f"{ci['cls'].__name__}() of lib/ietf_rfc6733 is built with Application-ID None: 16-byte header, "
                          f"Message Length {h.get_length()} for {len(msg.dump())} bytes, until the caller assigns header.application_id")
            h.application_id = 16777236            # documented usage: the caller assigns it
        else:
            return ["built with Application-ID None"]
    if h.get_command_code() != exp["cmd"]:
        bad.append(f"command code {h.get_command_code()}, command table {exp['cmd']}")
    if h.is_request() != exp["request"]:
        bad.append(f"R flag {h.is_request()}, command table {exp['request']}")
    app = ci["app"]
    if isinstance(app, int) and h.get_application_id() != app:
        bad.append(f"Application-ID {h.get_application_id()}, command table {app}")
    if app == "arg:auth_application_id":
        a = kwargs.get("auth_application_id")
        if a is not None:
            ai = a if isinstance(a, int) else int.from_bytes(a, "big")
            if h.get_application_id() != ai:
                bad.append(f"Application-ID {h.get_application_id()}, supplied Auth-Application-Id {ai}")
    if h.is_proxiable() != (h.get_application_id() != 0):
        bad.append(f"P flag {h.is_proxiable()} with Application-ID {h.get_application_id()}")
    if h.get_flags() & 0x3f:
        bad.append(f"unexpected command flags {h.get_flags():#x}")
    names = [type(a).__name__ for a in msg.avps]
    expn = list(exp["avps"])
    for i, e in enumerate(extras):
        expn[len(expn) - len(extras) + i] = type(e).__name__
    expn = [type(kwargs[x[4:]]).__name__ if x.startswith("RAW_") and x[4:] in kwargs else x for x in expn]
    if names != expn:
        bad.append(f"AVP classes {names}, specification {expn}")
        return bad
    # carried values
    pres = [p for p in ci["params"] if p["name"] in vec["supplied"] or p["hasdefault"]]
    for p, a in zip(pres, msg.avps):
        chk = checks.get(p["name"])
        if chk:
            err = chk(a)
            if err:
                bad.append(f"argument {p['name']}: {err}")
    for e, a in zip(extras, msg.avps[len(msg.avps) - len(extras):] if extras else []):
        if a is not e:
            bad.append("extra keyword AVP object not carried")
    # length + round trip
    raw = msg.dump()
    if msg.header.get_length() != len(raw) or len(raw) % 4:
        bad.append(f"Message Length {msg.header.get_length()} for {len(raw)} bytes")
    try:
        with guard(10, "load"):
            back = DiameterMessage.load(raw)
        if len(back) != 1 or back[0].dump() != raw or [type(a).__name__ for a in back[0].avps] != names:
            bad.append("serialise/decode round trip does not reproduce the message")
    except BaseException as e:
        bad.append(f"round trip raised {type(e).__name__}: {e}")
    return bad


def cmd_defs(infos):
    rows = []
    for ci in infos:
        app = ci["app"] if isinstance(ci["app"], int) else (-1 if ci["app"] == "unset" else -2)
        params = "<<" + ", ".join(f'[name |-> {T(p["name"])}, avp |-> {T(p["avp"])}, kind |-> {T(p["kind"])}, hasdefault |-> {T(p["hasdefault"])}]'
                                  for p in ci["params"]) + ">>"
        rows.append(f'[key |-> {T(ci["key"])}, lib |-> {T(ci["lib"])}, base |-> {T(ci["base"])}, cmd |-> {ci["cmd"]}, app |-> {app}, '
                    f'request |-> {T(ci["request"])}, params |-> {params}]')
    return "Cmds == {" + ",\n  ".join(rows) + "}\n"


GEN = r"""
Req(c) == {c.params[i].name : i \in {j \in 1..Len(c.params) : c.params[j].kind = "mand" /\ ~c.params[j].hasdefault}}
Others(c) == ParamNames(c) \ Req(c)
First(S, n) == IF Cardinality(S) <= n THEN S ELSE {SetToSeq(S)[i] : i \in 1..n}
Subsets(c) == {{}} \cup {{x} : x \in Others(c)} \cup {{x, y} : x, y \in First(Others(c), PAIRN)} \cup {Others(c)}
Cases(c) == {[supplied |-> Req(c) \cup s, extras |-> <<>>] : s \in Subsets(c)}
            \cup {[supplied |-> Req(c) \cup s, extras |-> e] : s \in {{}, Others(c)}, e \in {<<"X">>, <<"X", "X">>}}
            \cup {[supplied |-> (Req(c) \ {m}) \cup s, extras |-> <<>>] : m \in Req(c), s \in {{}, Others(c)}}
Vecs == SetToSeq(UNION {{[key |-> c.key, supplied |-> SetToSeq(k.supplied), extras |-> k.extras,
                          expect |-> Build(c, k.supplied, k.extras)] : k \in Cases(c)} : c \in Cmds})
"""


def run(rep):
    ref = ref_commands()
    byname = dictx.by_name()
    classes = dictx.command_classes()
    infos = [info(c, ref) for c in classes]
    live_keys = {ci["key"] for ci in infos}
    for k in ref:
        if k not in live_keys:
            rep.violation(f"typed command class {k} of the command table no longer exists", {"kind": "missing", "key": k})
    infos = [ci for ci in infos if ci["in_ref"]]
    rep.notes["typed_classes"] = len(infos)
    rep.rule = ("V: per typed command class, argument subsets {none, each single optional, pairs within 6 (quick) / 12, all, "
                "each mandatory omitted} x extras 0..2, instantiated with in-domain values; T: random subsets validated by TLC "
                "against Dict.Build. distinct = distinct (class, supplied set, extras) cases")
    defs = cmd_defs(infos) + GEN.replace("PAIRN", "6" if rep.tier == "quick" else "12")
    vecs, res = vectors.gen("Gen_Cmds", ["Dict"], defs, "Vecs",
                            theorems=["PairsBad(Cmds) = {}", "\\A c \\in Cmds : MandatoryOnce(c)",
                                      "\\A c \\in Cmds : Req(c) \\subseteq ParamNames(c)"],
                            java_opts=("-Xmx4g",), timeout=1200)
    rep.tlc("Gen_Cmds", res)
    bykey = {ci["key"]: ci for ci in infos}
    rng = random.Random(rep.seed * 7919 + 9)
    reps = 1 if rep.tier == "quick" else 3
    for v in vecs:
        ci = bykey[v["key"]]
        for _ in range(reps):
            rep.case((v["key"], tuple(sorted(v["supplied"])), len(v["extras"])))
            out, msg, checks, extras, kwargs = instantiate(ci, set(v["supplied"]), len(v["extras"]), byname, rng)
            replay = {"kind": "vector", "key": v["key"], "supplied": sorted(v["supplied"]), "extras": len(v["extras"])}
            for b in check_built(rep, ci, v, out, msg, checks, extras, kwargs, replay):
                rep.violation(f"{v['key']}({', '.join(sorted(v['supplied']))}{' +%d extra' % len(v['extras']) if v['extras'] else ''}): {b}", replay)
        if len(rep.violations) >= 40:
            break
    rep.sample({"vector": vecs[len(vecs) // 3]})
    rep.notes["vectors"] = len(vecs)

    # ---- T: random subsets, outcome recorded, validated by TLC
    n = 600 if rep.tier == "quick" else 20000
    recs, meta = [], []
    for i in range(n):
        ci = infos[i % len(infos)]
        req = [p["name"] for p in ci["params"] if p["kind"] == "mand" and not p["hasdefault"]]
        oth = [p["name"] for p in ci["params"] if p["name"] not in req]
        supplied = {o for o in oth if rng.random() < rng.choice([0.1, 0.5, 0.9])} | {r for r in req if rng.random() < 0.93}
        nx = rng.choice([0, 0, 0, 1, 2])
        out, msg, checks, extras, kwargs = instantiate(ci, supplied, nx, byname, rng)
        if out == "ok" and msg.header.application_id is None and ci["app"] == "unset" and known_finding_for(rep, ci["cls"], None):
            msg.header.application_id = 16777236
        rec = {"key": ci["key"], "supplied": sorted(supplied), "extras": ["X"] * nx, "ok": out == "ok", "clean": out != "err",
               "cmd": msg.header.get_command_code() if out == "ok" else 0,
               "request": msg.header.is_request() if out == "ok" else False,
               "avps": [("X" if any(a is e for e in extras) else
                         next(("RAW_" + k for k, v in kwargs.items() if v is a and not k.startswith("extra_avp_")), type(a).__name__))
                        for a in msg.avps] if out == "ok" else []}
        recs.append(rec)
        meta.append({"kind": "random", "key": ci["key"], "supplied": sorted(supplied), "extras": nx,
                     "outcome": out if out == "ok" else f"{out}: {type(msg).__name__}: {str(msg)[:80]}"})
        rep.case((ci["key"], tuple(sorted(supplied)), nx))
    tdefs = cmd_defs(infos) + """
ByKey(k) == CHOOSE c \\in Cmds : c.key = k

Exp(r) == Build(ByKey(r.key), ToSet(r.supplied), r.extras)
"""
    ok_expr = "r.clean /\\ r.ok = Exp(r).ok /\\ (r.ok => (r.cmd = Exp(r).cmd /\\ r.request = Exp(r).request /\\ r.avps = Exp(r).avps))"
    bad, res = vectors.validate("Trace_Cmds", ["Dict"], tdefs, recs, ok_expr, java_opts=("-Xmx4g",))
    rep.tlc("Trace_Cmds", res)
    rep.traces_validated += len(recs)
    for i in bad[:10]:
        rep.violation(f"TLC rejects the recorded construction {json.dumps(meta[i])}: built {recs[i]['avps'] if recs[i]['ok'] else 'nothing'}", meta[i])
    rep.sample({"trace_record": recs[0]})
    rep.assumptions += ["command code / Application-ID / R flag / mandatory-optional kind / AVP class per parameter come from the frozen "
                        "ref/command_table.json; parameter order and defaults from the live constructor signatures",
                        "rfc6733 ASA/RAA leave the Application-ID to the caller (documented usage); they are evaluated after "
                        "header.application_id has been assigned, the unset state is the known finding " + UNSET_APP_FINDING]


def replay(rep, path):
    r = json.load(open(path))["replay"]
    ref = ref_commands()
    byname = dictx.by_name()
    infos = [info(c, ref) for c in dictx.command_classes()]
    bykey = {ci["key"]: ci for ci in infos if ci["in_ref"]}
    if r.get("key") not in bykey:
        rep.violation(f"typed command class {r.get('key')} no longer exists", r)
        return rep.finish()
    ci = bykey[r["key"]]
    defs = cmd_defs([ci]) + f"""
C == CHOOSE c \\in Cmds : TRUE
V == <<[key |-> C.key, supplied |-> {T(list(r['supplied']))}, extras |-> {T(['X'] * r['extras'])}, expect |-> Build(C, {T(set(r['supplied']))}, {T(['X'] * r['extras'])})]>>
"""
    vec, res = vectors.gen("Gen_replay", ["Dict"], defs, "V")
    rep.tlc("Gen_replay", res)
    rng = random.Random(rep.seed)
    for _ in range(5):
        out, msg, checks, extras, kwargs = instantiate(ci, set(r["supplied"]), r["extras"], byname, rng)
        rep.case(str(r))
        for b in check_built(rep, ci, vec[0], out, msg, checks, extras, kwargs, r):
            rep.violation(f"{r['key']}: {b}", r)
    rep.sample(r)
    return rep.finish()
