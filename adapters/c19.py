"""C19 -- a configuration is reflected faithfully or rejected, never silently altered.

Specification: spec/Config.tla (Outcome over abstract value classes; YamlConfigs).
 V: TLC enumerates complete configurations -- every key with every abstract value class (one and two
    deviating keys at a time), an unknown extra key at every position, in many key orders (rotations,
    adjacent transpositions, reversal, seeded permutations) -- and computes Accept / RejectKey /
    RejectValue; the harness concretises each class with several concrete values and runs
    _convert_config_to_connection_obj and Diameter(config=...).  TLC also enumerates every YAML spec list
    of 1..3 entries over mode/transport spellings (transport given or omitted) with the expected
    per-entry result; the harness writes the YAML files and runs _convert_file_to_config.
 T: random concrete configurations, abstracted by the harness, validated by TLC.
"""
import json
import os
import random

from engine import vectors, tlc
from engine.report import guard, VERIF

T = tlc.tla
KEYS = ["MODE", "TRANSPORT_TYPE", "APPLICATIONS", "LOCAL_NODE_HOSTNAME", "LOCAL_NODE_REALM", "LOCAL_NODE_IP_ADDRESS",
        "LOCAL_NODE_PORT", "PEER_NODE_HOSTNAME", "PEER_NODE_REALM", "PEER_NODE_IP_ADDRESS", "PEER_NODE_PORT", "WATCHDOG_TIMEOUT"]
GOOD = {"MODE": "CLIENT", "TRANSPORT_TYPE": "TCP", "APPLICATIONS": "one", "LOCAL_NODE_IP_ADDRESS": "quad",
        "PEER_NODE_IP_ADDRESS": "quad", "WATCHDOG_TIMEOUT": "int"}

GEN = r"""
Keys == <<"MODE", "TRANSPORT_TYPE", "APPLICATIONS", "LOCAL_NODE_HOSTNAME", "LOCAL_NODE_REALM", "LOCAL_NODE_IP_ADDRESS",
          "LOCAL_NODE_PORT", "PEER_NODE_HOSTNAME", "PEER_NODE_REALM", "PEER_NODE_IP_ADDRESS", "PEER_NODE_PORT", "WATCHDOG_TIMEOUT">>
Good(k) == CASE k = "MODE" -> "CLIENT" [] k = "TRANSPORT_TYPE" -> "TCP" [] k = "APPLICATIONS" -> "one"
             [] k \in AddrKeys -> "quad" [] k = "WATCHDOG_TIMEOUT" -> "int" [] OTHER -> "any"
Base == [i \in 1..12 |-> [key |-> Keys[i], cls |-> Good(Keys[i])]]
With1(i, c) == [Base EXCEPT ![i] = [key |-> Keys[i], cls |-> c]]
Singles == UNION {{With1(i, c) : c \in Classes(Keys[i])} : i \in 1..12}
Interesting == {1, 2, 3, 6, 10, 12}
Doubles == {[With1(i, c) EXCEPT ![j] = [key |-> Keys[j], cls |-> d]] : i \in Interesting, j \in Interesting,
            c \in Classes("MODE") \cup Classes("WATCHDOG_TIMEOUT") \cup {"quad", "three", "none"} \cup {"one", "badtype"}, d \in {"other", "none", "numstr", "badtype"}}
ValidDoubles == {x \in Doubles : \A i \in 1..12 : x[i].cls \in Classes(x[i].key)}
Extra(cfg, pos) == SubSeq(cfg, 1, pos) \o <<[key |-> "UNKNOWN_KEY", cls |-> "any"]>> \o SubSeq(cfg, pos + 1, 12)
Extras == {Extra(Base, p) : p \in 0..12} \cup {Extra(With1(1, "other"), p) : p \in {0, 6, 12}}
Rot(cfg, r) == [i \in 1..Len(cfg) |-> cfg[((i + r - 1) % Len(cfg)) + 1]]
Swap(cfg, s) == [cfg EXCEPT ![s] = cfg[s + 1], ![s + 1] = cfg[s]]
Rev(cfg) == [i \in 1..Len(cfg) |-> cfg[Len(cfg) + 1 - i]]
Orders(cfg) == {Rot(cfg, r) : r \in ROTS} \cup {Swap(cfg, s) : s \in SWAPS} \cup {Rev(cfg)}
All == UNION {Orders(c) : c \in Singles \cup ValidDoubles \cup Extras}
Vecs == SetToSeq({[cfg |-> c, out |-> Outcome(c)] : c \in All})
"""
YGEN = r"""
Modes == {"client", "Server", "SERVER"}
Trs == {"none", "tcp", "SCTP", "Sctp"}
Entries == {[mode |-> m, tr |-> t] : m \in Modes, t \in Trs}
Lists == UNION {[1..n -> Entries] : n \in 1..YMAX}
YVecs == SetToSeq({[entries |-> l, out |-> YamlConfigs(l, {})] : l \in Lists})
"""

CONCRETE = {
    ("MODE", "CLIENT"): ["CLIENT"], ("MODE", "SERVER"): ["SERVER"], ("MODE", "lower"): ["client", "Server"],
    ("MODE", "other"): ["PROXY", "", "CLIENT "], ("MODE", "nonstr"): [None, 1, ["CLIENT"]],
    ("TRANSPORT_TYPE", "TCP"): ["TCP"], ("TRANSPORT_TYPE", "SCTP"): ["SCTP"], ("TRANSPORT_TYPE", "lower"): ["tcp", "Sctp"],
    ("TRANSPORT_TYPE", "other"): ["UDP", "TCP ", "TLS"], ("TRANSPORT_TYPE", "nonstr"): [1, ("TCP",)],
    ("ADDR", "quad"): ["10.129.241.235", "0.0.0.0", "255.255.255.255", "127.0.0.1"],
    ("ADDR", "three"): ["10.1.2", "1.2.3."], ("ADDR", "big"): ["256.1.1.1", "1.2.3.999"], ("ADDR", "v6"): ["::1", "2001:db8::1"],
    ("ADDR", "mask"): ["10.0.0.0/8", "1.2.3.4/32"], ("ADDR", "space"): [" 10.1.2.3", "10.1.2.3 "], ("ADDR", "none"): [None], ("ADDR", "float"): [1.5],
    ("WATCHDOG_TIMEOUT", "int"): [30, 0, 1, 86400], ("WATCHDOG_TIMEOUT", "numstr"): ["30", "0"], ("WATCHDOG_TIMEOUT", "float"): [30.5, 1.0],
    ("WATCHDOG_TIMEOUT", "none"): [None],
    ("APPLICATIONS", "empty"): [[]],
}
ANY = {"LOCAL_NODE_HOSTNAME": ["client.network", "a", "MME01.Local.Example"], "LOCAL_NODE_REALM": ["network", "x.y", "Local.EXAMPLE"], "LOCAL_NODE_PORT": [3868, 1, 65535],
       "PEER_NODE_HOSTNAME": ["server.network", "HSS01.EPC.Example.COM"], "PEER_NODE_REALM": ["network", "EPC.Example.COM"], "PEER_NODE_PORT": [3868, 3869], "UNKNOWN_KEY": ["x", None]}


def apps(cls, rng):
    from bromelia.constants import VENDOR_ID_3GPP, DIAMETER_APPLICATION_S6a_S6d, DIAMETER_APPLICATION_SWx
    one = {"vendor_id": VENDOR_ID_3GPP, "app_id": DIAMETER_APPLICATION_S6a_S6d}
    two = {"vendor_id": VENDOR_ID_3GPP, "app_id": DIAMETER_APPLICATION_SWx}
    if cls == "one":
        return [dict(one)]
    if cls == "two":
        return [dict(one), dict(two)]
    if cls == "badtype":
        return rng.choice([[{"vendor_id": 10415, "app_id": DIAMETER_APPLICATION_S6a_S6d}], [dict(one), {"vendor_id": VENDOR_ID_3GPP, "app_id": "16777265"}]])
    if cls == "nokeys":
        return [{"vendor": VENDOR_ID_3GPP, "application": DIAMETER_APPLICATION_S6a_S6d}]
    return []


UNKNOWN_NAMES = ["UNKNOWN_KEY", "mode", "Mode", "Watchdog_Timeout", "peer_node_port", "MODE ", " MODE", "LOCAL_NODE", "TRANSPORT",
                 "APPLICATION", "LOCAL_NODE_IP", "PEER_NODE_HOST_NAME", "watchdog_timeout", "", "NAME", 5, None, ("MODE",)]


def concretise(cfg, rng, unknown=None):
    d = {}
    for e in cfg:
        k, c = e["key"], e["cls"]
        if k == "UNKNOWN_KEY":
            d[unknown if unknown is not None else rng.choice(UNKNOWN_NAMES)] = rng.choice(ANY[k])
            continue
        if k == "APPLICATIONS":
            d[k] = apps(c, rng)
        elif k in ("LOCAL_NODE_IP_ADDRESS", "PEER_NODE_IP_ADDRESS"):
            d[k] = rng.choice(CONCRETE[("ADDR", c)])
        elif (k, c) in CONCRETE:
            d[k] = rng.choice(CONCRETE[(k, c)])
        else:
            d[k] = rng.choice(ANY[k])
    return d


def run_convert(d):
    from bromelia._internal_utils import _convert_config_to_connection_obj
    try:
        with guard(10, "convert"):
            return "ok", _convert_config_to_connection_obj(d)
    except BaseException as e:
        return "exc", e


def reflect_problems(conn, d):
    """Accept: every field of the connection description equals the configured value"""
    bad = []
    want = {"mode": d["MODE"], "transport_type": d["TRANSPORT_TYPE"], "application_ids": d["APPLICATIONS"], "watchdog_timeout": d["WATCHDOG_TIMEOUT"]}
    for k, v in want.items():
        if getattr(conn, k, "<missing>") != v or type(getattr(conn, k, None)) is not type(v):
            bad.append(f"{k} = {getattr(conn, k, '<missing>')!r}, configured {v!r}")
    for node, pre in (("local_node", "LOCAL_NODE_"), ("peer_node", "PEER_NODE_")):
        n = getattr(conn, node, None)
        for f, key in (("host_name", "HOSTNAME"), ("realm", "REALM"), ("ip_address", "IP_ADDRESS"), ("port", "PORT")):
            if getattr(n, f, "<missing>") != d[pre + key]:
                bad.append(f"{node}.{f} = {getattr(n, f, '<missing>')!r}, configured {d[pre + key]!r}")
    return bad


def judge(rep, out, d, got, replay):
    kind, val = got
    if out == "Accept":
        if kind != "ok":
            rep.violation(f"a valid complete configuration was rejected: {type(val).__name__}: {val} ({list(d.items())})", replay)
            return
        for b in reflect_problems(val, d):
            rep.violation(f"accepted configuration is not reflected faithfully: {b} (key order {list(d)})", replay)
        return
    if kind == "ok":
        rep.violation(f"configuration that must be rejected ({out}) was accepted: {list(d.items())}", replay)
    elif type(val).__name__ not in ("InvalidConfigKey", "InvalidConfigValue"):
        rep.violation(f"rejected with {type(val).__name__}: {val}, not the library's configuration error ({list(d.items())})", replay)


def write_yaml(path, entries, rng):
    lines = ["api_version: v1", "name: verif", "spec:"]
    fields = []
    for i, e in enumerate(entries):
        host, realm = f"Node{i}.Local.example", f"realm{i}.Example"           # (identities are carried as configured: letter case included)
        f = {"hostname": host, "realm": realm, "ip": f"10.0.{i}.1", "port": 3868 + i, "phost": f"PEER{i}.EPC.Example.COM", "prealm": "Peer.Example",
             "pip": f"10.1.{i}.2", "pport": 3900 + i, "wd": 30 + i, "napps": 1 + (i % 2)}
        fields.append(f)
        lines.append(f"  - mode: {e['mode']}")
        if e["tr"] != "none":
            lines.append(f"    transport_type: {e['tr']}")
        lines.append("    applications:")
        lines.append("      - vendor_id: VENDOR_ID_3GPP\n        app_id: DIAMETER_APPLICATION_S6a_S6d")
        if f["napps"] == 2:
            lines.append("      - vendor_id: VENDOR_ID_3GPP\n        app_id: DIAMETER_APPLICATION_SWx")
        lines.append(f"    watchdog_timeout: {f['wd']}")
        lines.append(f"    local:\n      hostname: {host}\n      realm: {realm}\n      ip_address: {f['ip']}\n      port: {f['port']}")
        lines.append(f"    peer:\n      hostname: {f['phost']}\n      realm: {f['prealm']}\n      ip_address: {f['pip']}\n      port: {f['pport']}")
    with open(path, "w") as fh:
        fh.write("\n".join(lines) + "\n")
    return fields


def check_yaml(rep, entries, out, rng, path):
    import bromelia.bromelia as bb
    from bromelia._internal_utils import _convert_file_to_config, _convert_config_to_connection_obj
    from bromelia.constants import VENDOR_ID_3GPP, DIAMETER_APPLICATION_S6a_S6d, DIAMETER_APPLICATION_SWx
    fields = write_yaml(path, entries, rng)
    replay = {"kind": "yaml", "entries": entries}
    try:
        with guard(10, "yaml"):
            cfgs = _convert_file_to_config(path, vars(bb))
    except BaseException as e:
        rep.violation(f"_convert_file_to_config raised {type(e).__name__}: {e} for spec entries {entries}", replay)
        return None
    got = [{"mode": c.get("MODE"), "transport": c.get("TRANSPORT_TYPE")} for c in cfgs]
    if len(cfgs) != len(entries):
        rep.violation(f"{len(cfgs)} configurations for {len(entries)} spec entries", replay)
        return got
    for i, (c, f, o) in enumerate(zip(cfgs, fields, out)):
        exp_apps = [{"vendor_id": VENDOR_ID_3GPP, "app_id": DIAMETER_APPLICATION_S6a_S6d}] + \
                   ([{"vendor_id": VENDOR_ID_3GPP, "app_id": DIAMETER_APPLICATION_SWx}] if f["napps"] == 2 else [])
        want = {"MODE": o["mode"], "TRANSPORT_TYPE": o["transport"], "APPLICATIONS": exp_apps, "LOCAL_NODE_HOSTNAME": f["hostname"],
                "LOCAL_NODE_REALM": f["realm"], "LOCAL_NODE_IP_ADDRESS": f["ip"], "LOCAL_NODE_PORT": f["port"], "PEER_NODE_HOSTNAME": f["phost"],
                "PEER_NODE_REALM": f["prealm"], "PEER_NODE_IP_ADDRESS": f["pip"], "PEER_NODE_PORT": f["pport"], "WATCHDOG_TIMEOUT": f["wd"]}
        for k, v in want.items():
            if c.get(k, "<missing>") != v:
                rep.violation(f"YAML spec entry {i + 1} of {[(e['mode'], e['tr']) for e in entries]}: {k} = {c.get(k, '<missing>')!r}, expected {v!r}", replay)
        if set(c) != set(want):
            rep.violation(f"YAML spec entry {i + 1}: keys {sorted(set(c) ^ set(want))} unexpected/missing", replay)
        r = run_convert(c)
        if r[0] != "ok":
            rep.violation(f"YAML spec entry {i + 1}: the produced configuration is rejected: {r[1]}", replay)
    return got


def _convert_job(which):
    def job():
        from bromelia._internal_utils import _convert_config_to_connection_obj
        base = {"MODE": "CLIENT", "TRANSPORT_TYPE": "TCP", "APPLICATIONS": [], "LOCAL_NODE_HOSTNAME": "a.example", "LOCAL_NODE_REALM": "example",
                "LOCAL_NODE_IP_ADDRESS": "10.0.0.1", "LOCAL_NODE_PORT": 3868, "PEER_NODE_HOSTNAME": "b.example", "PEER_NODE_REALM": "peer.example",
                "PEER_NODE_IP_ADDRESS": "10.0.0.2", "PEER_NODE_PORT": 3869, "WATCHDOG_TIMEOUT": 30}
        cfgs = [base, dict(base, MODE="SERVER", TRANSPORT_TYPE="SCTP", LOCAL_NODE_PORT=4000, WATCHDOG_TIMEOUT=7), dict(base, PEER_NODE_IP_ADDRESS="300.1.1.1"),
                dict(base, MODE="server"), dict(base, LOCAL_NODE_HOSTNAME="z.example", PEER_NODE_PORT=1)]
        if which == "b":
            cfgs = cfgs[::-1]
        out = []
        for c in cfgs:
            try:
                out.append(repr(_convert_config_to_connection_obj(dict(c))))
            except BaseException as e:
                out.append("raised " + type(e).__name__)
        return out
    return job


def purity(rep):
    from engine import concur
    pairs = [("two configurations converted at the same time", _convert_job("a"), _convert_job("b"))]
    return concur.purity_stage(rep, "the configuration conversion", pairs, ("/bromelia/_internal_utils.py", "/bromelia/config.py"), kmax=900, stride=11 if rep.tier == "quick" else 1)


def run(rep):
    purity(rep)
    rng = random.Random(rep.seed * 7919 + 19)
    quick = rep.tier == "quick"
    rep.rule = ("V: every key x every abstract value class (single and double deviations), unknown key at every position, in rotations / "
                "adjacent transpositions / reversal of the key order, each concretised with several values; YAML spec lists of 1..3 entries "
                "over mode/transport spellings; T: random configurations validated by TLC. distinct = distinct (abstract config, order)")
    defs = GEN.replace("ROTS", "{0, 1, 5, 11}" if quick else "0..11").replace("SWAPS", "{1, 6, 11}" if quick else "1..11")
    vecs, res = vectors.gen("Gen_Config", ["Config"], defs, "Vecs",
                            theorems=["\\A c \\in Singles \\cup ValidDoubles \\cup Extras : \\A o \\in Orders(c) : Outcome(o) = Outcome(c)",
                                      "Outcome(Base) = \"Accept\""], java_opts=("-Xmx6g",), timeout=1500)
    rep.tlc("Gen_Config", res)
    from bromelia.setup import Diameter
    for i, v in enumerate(vecs):
        has_unknown = any(e["key"] == "UNKNOWN_KEY" for e in v["cfg"])
        for rpt in range(len(UNKNOWN_NAMES) if has_unknown else (1 if quick else 3)):
            d = concretise(v["cfg"], rng, UNKNOWN_NAMES[rpt] if has_unknown else None)
            rep.case(json.dumps(v["cfg"]))
            replay = {"kind": "config", "cfg": v["cfg"], "concrete": repr(list(d.items()))}
            judge(rep, v["out"], d, run_convert(dict(d)), replay)
            if v["out"] != "Accept" and not has_unknown and all(k in d for k in KEYS) and d.get("TRANSPORT_TYPE"):
                # the same complete configuration through the application object (its Config layer runs first): still rejected
                # (a falsy TRANSPORT_TYPE is the one value that layer replaces by its default, as implemented)
                try:
                    with guard(20, "Diameter"):
                        app = Diameter(config=dict(d))
                    rep.violation(f"configuration that must be rejected ({v['out']}) was accepted by Diameter(config=...): connection "
                                  f"watchdog_timeout={getattr(app._connection, 'watchdog_timeout', '?')!r}", replay)
                except BaseException:
                    pass
            if v["out"] == "Accept":
                try:
                    with guard(20, "Diameter"):
                        app = Diameter(config=dict(d))
                    if dict(app.config) != d:
                        rep.violation(f"Diameter(config=...).config differs from the configured values: {dict(app.config)} vs {d}", replay)
                    for b in reflect_problems(app._connection, d):
                        rep.violation(f"Diameter(config=...) connection: {b}", replay)
                except BaseException as e:
                    rep.violation(f"Diameter(config=<valid configuration>) raised {type(e).__name__}: {e}", replay)
        if len(rep.violations) >= 40:
            break
    rep.notes["config_vectors"] = len(vecs)
    rep.sample({"config_vector": vecs[len(vecs) // 2]})

    ymax = 2 if quick else 3
    yvecs, res = vectors.gen("Gen_Yaml", ["Config"], YGEN.replace("YMAX", str(ymax)), "YVecs",
                             theorems=["\\E l \\in Lists : YamlConfigs(l, {\"D_TransportInherited\"}) # YamlConfigs(l, {})"], java_opts=("-Xmx4g",))
    rep.tlc("Gen_Yaml", res)
    os.makedirs(os.path.join(VERIF, ".work"), exist_ok=True)
    path = os.path.join(VERIF, ".work", f"c19-{os.getpid()}.yaml")
    for v in yvecs:
        rep.case(json.dumps(v["entries"]))
        check_yaml(rep, v["entries"], v["out"], rng, path)
        if len(rep.violations) >= 40:
            break
    # a list with one entry that cannot be converted (unknown application constant, a missing key, a mode that is not text): the
    # file is rejected as a whole or yields one description per entry - never fewer
    from bromelia._internal_utils import _convert_file_to_config as _cf
    import bromelia.bromelia as _bb
    for bad_at in (0, 1, 2):
        for what in ("app", "port", "mode"):
            entries = [{"mode": "client", "tr": "none"}, {"mode": "SERVER", "tr": "sctp"}, {"mode": "Client", "tr": "TCP"}]
            write_yaml(path, entries, rng)
            text = open(path).read().split("  - mode: ")
            blk = text[bad_at + 1]
            if what == "app":
                blk = blk.replace("DIAMETER_APPLICATION_S6a_S6d", "DIAMETER_APPLICATION_S6a_S6b", 1)
            elif what == "port":
                blk = "\n".join(l for l in blk.split("\n") if not l.strip().startswith("port:") or "39" not in l)
            else:
                blk = "7" + blk[blk.index("\n"):]
            text[bad_at + 1] = blk
            open(path, "w").write("  - mode: ".join(text))
            rep.case(("yaml-bad-entry", bad_at, what))
            try:
                with guard(10, "yaml"):
                    cfgs = _cf(path, vars(_bb))
            except BaseException:
                continue
            if len(cfgs) != 3:
                rep.violation(f"a YAML spec of 3 entries whose entry {bad_at + 1} cannot be converted ({what}) was accepted with {len(cfgs)} connection description(s)",
                              {"kind": "yaml-bad-entry", "bad_at": bad_at, "what": what})
    # longer lists: recorded and validated by TLC
    recs, meta = [], []
    for i in range(60 if quick else 2000):
        entries = [{"mode": rng.choice(["client", "Server", "SERVER", "Client"]), "tr": rng.choice(["none", "none", "tcp", "SCTP", "Sctp", "Tcp"])}
                   for _ in range(rng.randint(3, 6))]
        from bromelia._internal_utils import _convert_file_to_config
        import bromelia.bromelia as bb
        write_yaml(path, entries, rng)
        try:
            cfgs = _convert_file_to_config(path, vars(bb))
            got = [{"mode": c.get("MODE"), "transport": c.get("TRANSPORT_TYPE")} for c in cfgs]
            clean = True
        except BaseException as e:
            got, clean = [], False
        recs.append({"entries": entries, "got": got, "clean": clean})
        meta.append({"kind": "yaml", "entries": entries})
        rep.case(("Ty", i))
    if os.path.exists(path):
        os.remove(path)
    bad, res = vectors.validate("Trace_Yaml", ["Config"], "", recs, "r.clean /\\ r.got = YamlConfigs(r.entries, {})")
    rep.tlc("Trace_Yaml", res)
    rep.traces_validated += len(recs)
    for i in bad[:10]:
        rep.violation(f"TLC rejects the recorded YAML conversion: entries {[(e['mode'], e['tr']) for e in recs[i]['entries']]} -> "
                      f"{[(g['mode'], g['transport']) for g in recs[i]['got']]}", meta[i])

    # ---- T: random concrete configurations
    recs, meta = [], []
    classes = {"MODE": ["CLIENT", "SERVER", "lower", "other", "nonstr"], "TRANSPORT_TYPE": ["TCP", "SCTP", "lower", "other", "nonstr"],
               "ADDR": ["quad", "three", "big", "v6", "mask", "space", "none", "float"], "WATCHDOG_TIMEOUT": ["int", "numstr", "float", "none"],
               "APPLICATIONS": ["empty", "one", "two", "badtype", "nokeys"]}
    for i in range(600 if quick else 30000):
        cfg = []
        for k in KEYS:
            fam = "ADDR" if k.endswith("IP_ADDRESS") else k
            if fam in classes:
                c = rng.choice(classes[fam]) if rng.random() < 0.12 else GOOD[k]
            else:
                c = "any"
            cfg.append({"key": k, "cls": c})
        rng.shuffle(cfg)
        if rng.random() < 0.08:
            cfg.insert(rng.randint(0, 12), {"key": "UNKNOWN_KEY", "cls": "any"})
        d = concretise(cfg, rng)
        kind, val = run_convert(dict(d))
        if kind == "ok":
            got = "Accept" if not reflect_problems(val, d) else "AcceptAltered"
        else:
            got = {"InvalidConfigKey": "RejectKey", "InvalidConfigValue": "RejectValue"}.get(type(val).__name__, "Other:" + type(val).__name__)
        recs.append({"cfg": cfg, "got": got})
        meta.append({"kind": "config", "cfg": cfg, "concrete": repr(list(d.items()))})
        rep.case(("T", i))
    bad, res = vectors.validate("Trace_Config", ["Config"], "", recs,
                                'LET o == Outcome(r.cfg) IN IF o = "Accept" THEN r.got = "Accept" ELSE r.got \\in {"RejectKey", "RejectValue"}',
                                java_opts=("-Xmx4g",))
    rep.tlc("Trace_Config", res)
    rep.traces_validated += len(recs)
    for i in bad[:10]:
        rep.violation(f"TLC rejects the recorded outcome {recs[i]['got']} for configuration {meta[i]['concrete']}", meta[i])
    rep.sample({"trace_record": recs[0]})
    rep.assumptions += ["booleans are excluded (Python treats them as integers); integers / packed bytes that ipaddress accepts as IPv4 addresses "
                        "and falsy TRANSPORT_TYPE values replaced by the documented default are outside 'malformed'/'unknown'",
                        "which configuration error class is raised first is not constrained (key order may decide it)"]


def replay(rep, path):
    r = json.load(open(path))["replay"]
    if r.get("kind") == "purity":
        purity(rep)
        rep.sample(r)
        return rep.finish()
    rng = random.Random(rep.seed)
    if r["kind"] == "yaml-bad-entry":
        rep.notes["replay"] = "re-run of the tier"
        run(rep)
        return rep.finish()
    if r["kind"] == "config":
        vec, res = vectors.gen("Gen_replay", ["Config"], f"V == <<[out |-> Outcome({T(r['cfg'])})]>>", "V")
        rep.tlc("Gen_replay", res)
        for _ in range(6):
            d = concretise(r["cfg"], rng)
            judge(rep, vec[0]["out"], d, run_convert(dict(d)), r)
    else:
        vec, res = vectors.gen("Gen_replay", ["Config"], f"V == <<[out |-> YamlConfigs({T(r['entries'])}, {{}})]>>", "V")
        rep.tlc("Gen_replay", res)
        p = os.path.join(VERIF, ".work", f"c19-replay-{os.getpid()}.yaml")
        os.makedirs(os.path.dirname(p), exist_ok=True)
        check_yaml(rep, r["entries"], vec[0]["out"], rng, p)
        os.remove(p)
    rep.case(str(r)[:80])
    rep.sample(r)
    return rep.finish()
