"""C17 -- result-code class predicates agree with the numeric family for every code.

Specification: Types.Family (long division of the 4-byte word by 1000), cross-checked on the
model against the arithmetic definition FamilyOfNat for every n in 0..65535.
 V: TLC emits [w, fam] for all 65536 codes plus boundary 32-bit words; the harness evaluates the
    five integer predicates and the five answer-object predicates (real DiameterAnswer carrying a
    real ResultCodeAVP) and requires predicate k to hold iff fam = k.
 T: seeded random 32-bit words through the real predicates, recorded and validated by TLC.
"""
import json
import random

from engine import vectors
from engine.report import guard, Hang


def _api():
    from bromelia import utils
    from bromelia.base import DiameterAnswer
    from bromelia.avps import ResultCodeAVP
    ints = [getattr(utils, f"is_result_code_family_{k}xxx") for k in range(1, 6)]
    objs = [utils.is_1xxx_informational, utils.is_2xxx_success, utils.is_3xxx_failure,
            utils.is_4xxx_failure, utils.is_5xxx_failure]
    return ints, objs, DiameterAnswer, ResultCodeAVP


SHAPES = ("plain", "ebit", "mixed", "decoy-before", "decoy-after", "generic")


def _answer(api, w, shape):
    """an answer carrying Result-Code w in different surroundings: the verdict may depend on the code only"""
    _ints, _objs, DiameterAnswer, ResultCodeAVP = api
    from bromelia.avps import OriginHostAVP, SessionIdAVP, ErrorMessageAVP
    rc = ResultCodeAVP(bytes(w))
    if shape == "plain":
        return DiameterAnswer(command_code=272, application_id=4, avps=[rc])
    if shape == "generic":
        # the Result-Code as a general-purpose AVP object (code 268, no vendor): the same AVP on the wire
        from bromelia.base import DiameterAVP
        return DiameterAnswer(command_code=272, application_id=4, avps=[SessionIdAVP(b"a;1;2"), DiameterAVP(code=268, flags=0x40, data=bytes(w))])
    if shape.startswith("decoy"):
        # another vendor's AVP that uses code 268 in its own code space (V flag, Vendor-ID) and a grouped Experimental-Result
        # next to the Result-Code: neither of them is the Result-Code
        from bromelia.base import DiameterAVP
        from bromelia.avps import ExperimentalResultAVP, ExperimentalResultCodeAVP, VendorIdAVP
        other = (2001 if int.from_bytes(bytes(w), "big") // 1000 != 2 else 5012).to_bytes(4, "big")
        decoy = DiameterAVP(code=268, vendor_id=10415, flags=0xC0, data=other)
        avps = [SessionIdAVP(b"a;1;2"), decoy, rc] if shape == "decoy-before" else [rc, decoy, SessionIdAVP(b"a;1;2")]
        ans = DiameterAnswer(command_code=316, application_id=16777251, avps=avps)
        if shape == "decoy-after":
            # ... and as the peer would see it: decoded from its bytes
            from bromelia.base import DiameterMessage
            ans = DiameterMessage.load(ans.dump())[0]
        return ans
    if shape == "ebit":
        ans = DiameterAnswer(command_code=316, application_id=16777251, avps=[rc])
        ans.header.set_error_bit(True)
        return ans
    ans = DiameterAnswer(command_code=257, application_id=0,
                         avps=[SessionIdAVP(b"a;1;2"), OriginHostAVP("host.example"), rc, ErrorMessageAVP("x")])
    ans.header.flags = 0x50
    return ans


def _eval(api, w, shape="plain"):
    """returns (int predicate results, object predicate results) as lists of bools / error strings"""
    ints, objs, DiameterAnswer, ResultCodeAVP = api
    n = int.from_bytes(bytes(w), "big")
    out_i, out_o = [], []
    for f in ints:
        try:
            with guard(5, f.__name__):
                out_i.append(bool(f(n)))
        except BaseException as e:
            out_i.append("raised " + type(e).__name__)
    try:
        ans = _answer(api, w, shape)
    except BaseException as e:
        return out_i, ["raised " + type(e).__name__ + " building the answer"] * 5
    for f in objs:
        try:
            with guard(5, f.__name__):
                out_o.append(bool(f(ans)))
        except BaseException as e:
            out_o.append("raised " + type(e).__name__)
    return out_i, out_o


def _compare(rep, api, w, fam, shapes=SHAPES):
    n = int.from_bytes(bytes(w), "big")
    exp = [fam == k for k in range(1, 6)]
    ok = True
    for shape in shapes:
        oi, oo = _eval(api, w, shape)
        if oi != exp and shape == "plain":
            ok = False
            rep.violation(f"integer predicates on {n}: is_result_code_family_1xxx..5xxx = {oi}, specification family = {fam}",
                          {"word": list(w)})
        if oo != exp:
            ok = False
            rep.violation(f"answer predicates on Result-Code {n} (answer shape '{shape}'): is_1xxx_informational..is_5xxx_failure = {oo}, "
                          f"specification family = {fam}", {"word": list(w)})
            break
    return ok


def _compare_history(rep, api, w1, fam1, w2, fam2):
    """one answer object classified, its Result-Code changed in place, classified again: the verdict follows the code it carries now"""
    ints, objs, DiameterAnswer, ResultCodeAVP = api
    try:
        ans = _answer(api, w1, "plain")
        first = [bool(f(ans)) for f in objs]
        ans.result_code_avp.data = bytes(w2)
        second = [bool(f(ans)) for f in objs]
    except BaseException as e:
        rep.violation(f"answer predicates raised {type(e).__name__} on an answer whose Result-Code was changed in place", {"word": list(w1), "then": list(w2)})
        return False
    n1, n2 = int.from_bytes(bytes(w1), "big"), int.from_bytes(bytes(w2), "big")
    if first != [fam1 == k for k in range(1, 6)] or second != [fam2 == k for k in range(1, 6)]:
        rep.violation(f"answer predicates on one answer object: with Result-Code {n1} they give {first} (family {fam1}); after the code is set in place "
                      f"to {n2} they give {second}, specification family {fam2}", {"word": list(w1), "then": list(w2)})
        return False
    return True


DEFS = """
Small == 0..65535
BoundaryBytes == {0, 1, 3, 127, 128, 232, 255}
BoundaryWords == {<<a, b, c, d>> : a \\in {0, 1, 127, 128, 255}, b \\in {0, 15, 255}, c \\in BoundaryBytes, d \\in BoundaryBytes}
Vecs == SetToSeq({[w |-> Word32(n), fam |-> Family(Word32(n))] : n \\in Small}
                 \\cup {[w |-> x, fam |-> Family(x)] : x \\in BoundaryWords})
"""


def _classify_job(w, reps=2):
    def job():
        api = _api()
        ans = _answer(api, list(w.to_bytes(4, "big")), "plain")
        n = int.from_bytes(ans.result_code_avp.data, "big")
        return [[bool(f(ans)) for f in api[1]] + [bool(f(n)) for f in api[0]] for _ in range(reps)]
    return job


PURITY_PAIRS = [(2001, 5012), (1001, 3004), (4001, 2002), (5999, 2001)]


def purity(rep):
    """two answers classified at the same time, one preemption at every source line of bromelia/utils.py (first thing in the
    check: the library's module-level state is untouched)"""
    from engine import concur, tlc
    concur.model_check_cache(rep, tlc)
    pairs = [(f"{a} classified while {b} is being classified", _classify_job(a), _classify_job(b)) for a, b in PURITY_PAIRS[:2 if rep.tier == "quick" else 4]]
    n, problems = concur.purity_sweep(pairs, ("/bromelia/utils.py", "/bromelia/_internal_utils.py"), kmax=400)
    rep.case(("purity",), n)
    rep.notes["concurrent_executions"] = n
    for desc, k, text in problems:
        rep.violation(f"two threads inside the predicates ({desc}; the first stopped after {k} source lines): {text}", {"kind": "purity", "k": k, "desc": desc})


def run(rep):
    purity(rep)
    api = _api()
    rep.rule = ("V: all codes 0..65535 and 735 boundary 32-bit words, each through 5 integer and 5 answer-object "
                "predicates on 6 answer shapes (the Result-Code as a general-purpose AVP object; plain; E bit set; Result-Code among other AVPs with other header flags; another vendor's AVP with code 268 before / after it, built and decoded); two answers classified concurrently with one preemption at every source line; T: seeded random 32-bit words validated by TLC. distinct = distinct words")
    vecs, res = vectors.gen("Gen_Family", ["Types"], DEFS, "Vecs",
                            theorems=["\\A n \\in Small : Family(Word32(n)) = FamilyOfNat(n)",
                                      "\\A n \\in Small : SmallVal(Word32(n)) = n"],
                            java_opts=("-Xmx3g",))
    rep.tlc("Gen_Family", res)
    for v in vecs:
        rep.case(tuple(v["w"]))
        n = int.from_bytes(bytes(v["w"]), "big")
        allshapes = rep.tier == "thorough" or n < 7000 or n % 1000 in (0, 1, 999) or n % 13 == 0 or n > 65535
        _compare(rep, api, v["w"], v["fam"], SHAPES if allshapes else SHAPES[:1])
        if len(rep.violations) >= 40:
            break
    # histories on one answer object: the code is changed in place between two classifications (pairs of TLC vectors across families)
    picks = [vecs[i] for i in (0, 999, 1000, 1001, 2001, 2002, 2999, 3000, 3004, 4001, 4999, 5000, 5012, 5999, 6000, 9999, 65535)] + vecs[65536::97]
    for a in picks:
        for b in picks[::3]:
            if a is not b:
                rep.case(("history", tuple(a["w"]), tuple(b["w"])))
                if not _compare_history(rep, api, a["w"], a["fam"], b["w"], b["fam"]):
                    break
        if len(rep.violations) >= 40:
            break
    rep.sample({"word": vecs[5012]["w"], "family": vecs[5012]["fam"]})
    rep.exhaustive = True

    rng = random.Random(rep.seed * 7919 + 17)
    n = 4000 if rep.tier == "quick" else 400000
    recs = []
    for i in range(n):
        if i % 3 == 0:      # near a multiple of 1000 in the 32-bit range
            x = (rng.randrange(0, 4294967) * 1000 + rng.choice([-1, 0, 1, 7, 8, 999])) % (1 << 32)
        elif i % 3 == 1:
            x = rng.randrange(0, 8000)
        else:
            x = rng.getrandbits(32)
        w = list(x.to_bytes(4, "big"))
        oi, oo = _eval(api, w, SHAPES[i % 3])
        recs.append({"w": w, "ints": [o is True for o in oi], "objs": [o is True for o in oo],
                     "clean": all(isinstance(o, bool) for o in oi + oo)})
        rep.case(tuple(w))
    ok_expr = "r.clean /\\ \\A k \\in 1..5 : (r.ints[k] = (Family(r.w) = k)) /\\ (r.objs[k] = (Family(r.w) = k))"
    bad, res = vectors.validate("Trace_Family", ["Types"], "", recs, ok_expr, java_opts=("-Xmx4g",))
    rep.tlc("Trace_Family", res)
    rep.traces_validated += len(recs)
    for i in bad[:10]:
        w = recs[i]["w"]
        rep.violation(f"TLC rejects the recorded predicate results on code {int.from_bytes(bytes(w), 'big')}: {json.dumps(recs[i])}",
                      {"word": w})
    rep.sample({"trace_record": recs[0]})
    rep.assumptions.append("an answer without a Result-Code AVP is outside the statement (the predicates return None)")


def replay(rep, path):
    if json.load(open(path))["replay"].get("kind") == "purity":
        purity(rep)
        rep.sample(json.load(open(path))["replay"])
        return rep.finish()
    api = _api()
    w = json.load(open(path))["replay"]["word"]
    vecs, res = vectors.gen("Gen_Family_replay", ["Types"], f"Vecs == <<[w |-> {vectors.tlc.tla(w)}, fam |-> Family({vectors.tlc.tla(w)})]>>", "Vecs")
    rep.tlc("Gen_Family_replay", res)
    rep.case(tuple(w))
    _compare(rep, api, vecs[0]["w"], vecs[0]["fam"])
    then = json.load(open(path))["replay"].get("then")
    if then:
        v2, res2 = vectors.gen("Gen_Family_replay2", ["Types"], f"Vecs == <<[w |-> {vectors.tlc.tla(then)}, fam |-> Family({vectors.tlc.tla(then)})]>>", "Vecs")
        _compare_history(rep, api, vecs[0]["w"], vecs[0]["fam"], v2[0]["w"], v2[0]["fam"])
    rep.sample({"word": w})
    return rep.finish()
