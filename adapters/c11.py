"""C11 -- a message's named AVP view, AVP list and length stay coherent under mutation.

Specification: spec/Message.tla (ordered list + name map + Message Length; one action per public
operation; invariants Coherent / NoDup, action property OrderPreserved).
 TLC: exhaustive exploration of the bounded container (5 objects: two equal-valued of one kind, a
      third of that kind, another kind, an unknown AVP; list length <= 2 quick / 3 thorough) --
      Coherent holds in every reachable state of the intended design, and each historic deviation
      (pop by equality, suffix by count, stale item assignment, two objects on update) is shown to
      violate it (non-vacuity).
 G:   implementation-driven walk of the dumped state graph on a real DiameterMessage (three
      flavours) and on a real Grouped AVP: every (reached state, action) group.
 T:   seeded random operation sequences (length <= 40, 8 objects, list length <= 6) on real
      messages; every step's projected state is validated by TLC against Message!Next.
"""
import json
import os
import random
import re

from engine import tlc, graphwalk, tlaval
from engine.report import guard

T = tlc.tla

OBJS = {  # model id -> (base, padded size, value class)
    "u1": ("user_name", 12, "a"), "u2": ("user_name", 12, "a"), "u3": ("user_name", 16, "u3"),
    # an attribute name with a digit, data aligned on 4 bytes (no padding)
    "f1": ("framed_ipv6_prefix", 16, "f1"), "x1": ("unknown", 24, "x1"),
    # only used by the random traces
    "u4": ("user_name", 12, "u4"), "c2": ("class", 12, "c2"), "h1": ("origin_host", 16, "h1"),
}
VALUES = {"u1": "a", "u2": "a", "u3": "bbbbbb", "u4": "cccc", "f1": b"12345678", "c2": b"zz", "h1": "h.examp"}
FRESH = [("renamed", 0), ("renamed", 1)]


def make_obj(oid):
    from bromelia.base import DiameterAVP
    from bromelia.avps import UserNameAVP, ClassAVP, OriginHostAVP, FramedIpv6PrefixAVP
    if oid.startswith("u"):
        return UserNameAVP(VALUES[oid])
    if oid.startswith("f"):
        return FramedIpv6PrefixAVP(VALUES[oid])
    if oid.startswith("c"):
        return ClassAVP(VALUES[oid])
    if oid.startswith("h"):
        return OriginHostAVP(VALUES[oid])
    return DiameterAVP(code=99990, vendor_id=99999, flags=0x80, data=b"xyzxyzxyz")


def keystr(n):
    return f"{n[0]}_avp" + (f"__{n[1]}" if n[1] else "")


def parse_key(k):
    m = re.match(r"(.*)_avp(?:__(\d+))?$", k)
    if not m:
        return (k, -1)
    return (m.group(1), int(m.group(2) or 0))


def updkey(n):
    return n[0] + (f"__{n[1]}" if n[1] else "")


class Handle:
    pass


class MsgAdapter:
    """real DiameterMessage under the operations of Message.tla"""
    kind = "message"

    def __init__(self, flavour):
        self.flavour = flavour

    def container(self):
        from bromelia.base import DiameterMessage, DiameterRequest
        if self.flavour == "generic":
            return DiameterMessage()
        if self.flavour == "request":
            return DiameterRequest(command_code=316, application_id=16777251)
        return DiameterMessage.load(bytes.fromhex("0100001480000101000000000000000100000002"))[0]

    def fresh(self):
        h = Handle()
        h.m = self.container()
        h.objs, h.ids = {}, {}
        return h

    def obj(self, h, oid):
        if oid not in h.objs:
            o = make_obj(oid)
            h.objs[oid] = o
            h.ids[id(o)] = oid
        return h.objs[oid]

    def register(self, h, oid, real):
        old = h.objs.get(oid)
        if old is not None:
            h.ids.pop(id(old), None)
        h.objs[oid] = real
        h.ids[id(real)] = oid
        h.keep = getattr(h, "keep", []) + [old]        # keep old objects alive so ids are not recycled

    def apply(self, h, op, args, spec):
        m = h.m
        with guard(10, op):
            if op == "OpAppend":
                m.append(self.obj(h, args[0]))
            elif op == "OpExtend":
                m.extend([self.obj(h, args[0]), self.obj(h, args[1])])
            elif op == "OpPop":
                m.pop(keystr(args[0]))
            elif op == "OpCleanup":
                m.cleanup()
            elif op == "OpSetAvps":
                m.avps = [self.obj(h, args[0]), self.obj(h, args[1])]
            elif op == "OpSetItem":
                # the same position, named from the front or (every other time) from the back
                h.nset = getattr(h, "nset", 0) + 1
                m[args[0] - 1 if h.nset % 2 else args[0] - 1 - len(m.avps)] = self.obj(h, args[1])
            elif op == "OpUpdateKey":
                m.update_key(keystr(args[0]), keystr(args[1]))
            elif op == "OpUpdateData":
                key = keystr(args[0])
                before = getattr(m, key)
                pos = next(i for i, a in enumerate(m.avps) if a is before)
                m.update_avps({updkey(args[0]): VALUES[args[1]]})
                self.register(h, args[1], m.avps[pos])
            elif op == "OpRefresh":
                m.refresh()
            else:
                raise AssertionError(op)

    def views(self, h):
        m = h.m
        return list(m.avps), {k: v for k, v in vars(m).items() if "_avp" in k and k != "_avps"}

    def project(self, h):
        lst, named = self.views(h)
        ids = h.ids
        p = {"lst": tuple(ids.get(id(a), "?") for a in lst),
             "names": {parse_key(k): ids.get(id(v), "?") for k, v in named.items()},
             "hdr": self.length_field(h), "size": self.real_size(h)}
        keys = set(named) | {keystr(n) for n in (("user_name", 0), ("user_name", 1), ("class", 0), ("framed_ipv6_prefix", 0), ("unknown", 0), FRESH[0])}
        p["has"] = {k: bool(h.m.has_avp(k)) for k in sorted(keys)}
        p["hasok"] = all(p["has"][k] == (k in named) for k in keys)
        # identity-level facts the property states
        listed = [id(a) for a in lst]
        namedids = [id(v) for v in named.values()]
        p["bijection"] = sorted(listed) == sorted(namedids) and len(set(namedids)) == len(namedids)
        return p

    def length_field(self, h):
        return h.m.header.get_length()

    def real_size(self, h):
        return len(h.m.dump())

    def same(self, spec, p):
        names = spec["names"] if isinstance(spec["names"], dict) else {}
        return (tuple(spec["lst"]) == p["lst"] and {tuple(k): v for k, v in names.items()} == p["names"]
                and spec["hdr"] == p["hdr"] == p["size"] and p["hasok"])

    def judge(self, h, p, before, op, args, succs):
        """property-level verdict for a projection that matches no TLC successor"""
        bad = []
        if not p["bijection"]:
            bad.append(f"named view and AVP list do not refer to the same objects: list {p['lst']}, names {p['names']}")
        if p["hdr"] != p["size"]:
            bad.append(f"length field {p['hdr']} but serialised size {p['size']}")
        if not p["hasok"]:
            bad.append(f"membership queries disagree with the named view: {p['has']}")
        explst = {tuple(s["lst"]) for s in succs}
        if p["lst"] not in explst:
            bad.append(f"AVP list is {p['lst']}, reference container {sorted(explst)}")
        return "; ".join(bad) if bad else None

    def judge_exception(self, exc, before, op, args):
        return f"{op}{tuple(args)} raised {type(exc).__name__}: {exc}"


class GroupAdapter(MsgAdapter):
    """real Grouped AVP (Failed-AVP) under the same scheme; hdr stands for 20 + length of the data buffer"""
    kind = "grouped"

    def __init__(self):
        self.flavour = "grouped"

    def container(self):
        from bromelia.avps import FailedAvpAVP
        return FailedAvpAVP([])

    def length_field(self, h):
        g = h.m
        return 20 + len(g.data or b"")

    def real_size(self, h):
        g = h.m
        body = b"".join(a.dump() for a in g.avps)
        if g.get_length() != 8 + len(g.data or b"") or g.dump()[8:8 + len(g.data or b"")] != (g.data or b""):
            return -1
        if (g.data or b"") != body:
            return -2
        return 20 + len(body)

    def views(self, h):
        g = h.m
        return list(g.avps), {k: v for k, v in vars(g).items() if "_avp" in k and k != "_avps"}


def mc_module(objs, maxlen, maxidx, dev="{}"):
    ids = sorted(objs)
    def fn(idx):
        return "[o \\in MC_Objs |-> CASE " + " [] ".join(f'o = {T(o)} -> {T(OBJS[o][idx])}' for o in ids) + "]"
    mod = f"""---- MODULE MC_Message ----
EXTENDS Message
MC_Objs == {T(set(ids))}
MC_BaseOf == {fn(0)}
MC_SizeOf == {fn(1)}
MC_ValOf == {fn(2)}
MC_Fresh == {{{", ".join(T(list(f)) for f in FRESH)}}}
MC_Dev == {dev}
====
"""
    cfg = f"""SPECIFICATION Spec
CONSTANTS Objs <- MC_Objs
 BaseOf <- MC_BaseOf
 SizeOf <- MC_SizeOf
 ValOf <- MC_ValOf
 Fresh <- MC_Fresh
 Deviations <- MC_Dev
 MaxLen = {maxlen}
 MaxIdx = {maxidx}
INVARIANT TypeOK
INVARIANT Coherent
INVARIANT NoDup
PROPERTY OrderPreserved
CHECK_DEADLOCK FALSE
"""
    return mod, cfg


def history_replay(hist, label):
    return {"kind": "history", "ops": hist + [label]}


def _walk_job(job):
    dot, flavour, max_groups, tours = job
    adapter = GroupAdapter() if flavour == "grouped" else MsgAdapter(flavour)
    skip = (lambda l: l.startswith(("OpUpdateData", "OpRefresh"))) if adapter.kind == "grouped" else None
    if tours:
        # large graphs: edge-covering tours (one real object carried along a long path) instead of one fresh object per group
        res = graphwalk.tour(dot, adapter, max_steps_per_run=300, max_total=max_groups, skip_label=skip)
    else:
        res = graphwalk.walk(dot, adapter, max_groups=max_groups, skip_label=skip)
    return flavour, res.__dict__


def run_walks(rep, dot, flavours, max_groups=None, tours=False):
    import multiprocessing
    with multiprocessing.get_context("fork").Pool(len(flavours)) as pool:
        results = pool.map(_walk_job, [(dot, f, max_groups, tours) for f in flavours])
    for flavour, r in results:
        rep.notes.setdefault("walks", []).append({"container": flavour, "graph_states": r["graph_states"], "graph_edges": r["graph_edges"],
                                                   "reached_states": r["states"], "groups_exercised": r["groups"],
                                                   "non_property_differences": r["nonprop"]})
        rep.nonprop_differences += r["nonprop"]
        rep.evaluations += r["groups"]
        rep.distinct_count_extra += r["groups"]
        rep.traces_validated += r["groups"]
        for hist, label, verdict, detail in r["mismatches"]:
            if verdict == "machinery":
                raise tlc.TlcError(f"graph walk on {flavour}: {detail} after {hist}")
            rep.violation(f"{flavour}: after {' ; '.join(hist) or '(fresh)'} then {label}: {detail}",
                          {"kind": "history", "container": flavour, "ops": hist + [label]})


TRACE_MODULE = r"""---- MODULE Trace_Message ----
EXTENDS Message, Json, TLCExt, IOUtils
Traces == JsonDeserialize(TRACEFILE)
VARIABLES tid, l
ToName(x) == <<x[1], x[2]>>
NamesOf(e) == [n \in {ToName(e.names[i]) : i \in 1..Len(e.names)} |->
                 (CHOOSE i \in 1..Len(e.names) : ToName(e.names[i]) = n) ]
FnOf(e) == [n \in {ToName(e.names[i]) : i \in 1..Len(e.names)} |-> e.names[CHOOSE i \in 1..Len(e.names) : ToName(e.names[i]) = n][3]]
Act(e) == CASE e.op = "OpAppend" -> OpAppend(e.a[1])
            [] e.op = "OpExtend" -> OpExtend(e.a[1], e.a[2])
            [] e.op = "OpPop" -> OpPop(ToName(e.a[1]))
            [] e.op = "OpCleanup" -> (OpCleanup \/ (lst = <<>> /\ UNCHANGED vars))
            [] e.op = "OpSetAvps" -> OpSetAvps(e.a[1], e.a[2])
            [] e.op = "OpSetItem" -> OpSetItem(e.a[1], e.a[2])
            [] e.op = "OpUpdateKey" -> OpUpdateKey(ToName(e.a[1]), ToName(e.a[2]))
            [] e.op = "OpUpdateData" -> OpUpdateData(ToName(e.a[1]), e.a[2])
            [] e.op = "OpRefresh" -> OpRefresh
TraceInit == tid = 1 /\ l = 0 /\ Init
TraceNext == \/ /\ l < Len(Traces[tid]) /\ l' = l + 1 /\ tid' = tid
                /\ LET e == Traces[tid][l + 1] IN
                     /\ lst' = e.lst /\ hdr' = e.hdr /\ names' = FnOf(e)
                     /\ e.clean
                     /\ Act(e)
             \/ /\ l = Len(Traces[tid]) /\ tid < Len(Traces) /\ tid' = tid + 1 /\ l' = 0
                /\ lst' = <<>> /\ names' = EmptyFn /\ hdr' = 20
TraceSpec == TraceInit /\ [][TraceNext]_<<vars, tid, l>>
Progress == TLCSet(1, <<tid, l>>)
Accepted == PrintT(<<"PROGRESS", TLCGet(1), Len(Traces), Len(Traces[Len(Traces)])>>)
====
"""


def random_traces(rep, rng, ntraces, steps):
    """drive real messages with random operation sequences; record every step"""
    ad = MsgAdapter("generic")
    objs = sorted(OBJS)
    traces, metas = [], []
    for t in range(ntraces):
        ad.flavour = ["generic", "request", "decoded"][t % 3]
        h = ad.fresh()
        trace, meta = [], []
        for _ in range(steps):
            lst, named = ad.views(h)
            listed = [h.ids.get(id(a)) for a in lst]
            free = [o for o in objs if o not in listed]
            names = [parse_key(k) for k in named]
            choices = []
            if len(lst) < 6 and free:
                choices += ["OpAppend"] * 4
            if len(lst) + 2 <= 6 and len(free) >= 2:
                choices += ["OpExtend"]
            if names:
                choices += ["OpPop"] * 3 + ["OpUpdateKey"]
            if lst:
                choices += ["OpSetItem", "OpCleanup"]
            if len(free) >= 2:
                choices += ["OpSetAvps"]
            unames = [n for n in names if (h.ids.get(id(named[keystr(n)])) or "?").startswith("u")
                      and any(named[keystr(n)] is a for a in lst)]
            ufree = [o for o in free if o.startswith("u")]
            if unames and ufree:
                choices += ["OpUpdateData"] * 2
            choices += ["OpRefresh"]
            op = rng.choice(choices)
            if op == "OpAppend":
                args = [rng.choice(free)]
            elif op in ("OpExtend", "OpSetAvps"):
                args = rng.sample(free, 2)
            elif op == "OpPop":
                args = [list(rng.choice(names))]
            elif op == "OpUpdateKey":
                fr = [f for f in FRESH if f not in names]
                if not fr:
                    continue
                args = [list(rng.choice(names)), list(rng.choice(fr))]
            elif op == "OpSetItem":
                if not free:
                    continue
                args = [rng.randint(1, len(lst)), rng.choice(free)]
            elif op == "OpUpdateData":
                args = [list(rng.choice(unames)), rng.choice(ufree)]
            else:
                args = []
            a2 = [tuple(a) if isinstance(a, list) else a for a in args]
            clean = True
            try:
                ad.apply(h, op, a2, None)
            except BaseException as e:
                clean = False
                meta.append(f"{op}{args} raised {type(e).__name__}: {e}")
            p = ad.project(h)
            ok = p["hdr"] == p["size"] and p["hasok"]
            trace.append({"op": op, "a": args, "lst": list(p["lst"]),
                          "names": [[k[0], k[1], v] for k, v in sorted(p["names"].items())],
                          "hdr": p["hdr"] if ok else -1, "clean": clean and "?" not in p["lst"] and "?" not in p["names"].values() and ok})
            meta.append({"op": op, "args": args, "proj": {"lst": p["lst"], "names": {keystr(k): v for k, v in p["names"].items()},
                                                          "hdr": p["hdr"], "size": p["size"], "has": p["has"]}})
            if not trace[-1]["clean"]:
                break
        traces.append(trace)
        metas.append({"flavour": ad.flavour, "steps": meta})
    return traces, metas


def validate_traces(rep, traces, metas):
    wd = tlc.workdir("Trace_Message")
    try:
        tf = os.path.join(wd, "traces.json")
        json.dump(traces, open(tf, "w"))
        mod, cfg = mc_module(OBJS, 7, 9)
        cfg = cfg.replace("SPECIFICATION Spec", "SPECIFICATION TraceSpec").replace("PROPERTY OrderPreserved\n", "")
        cfg += "CONSTRAINT Progress\nPOSTCONDITION Accepted\n"
        tm = TRACE_MODULE.replace("EXTENDS Message,", "EXTENDS MC_Message,").replace("TRACEFILE", T(tf))
        res, _ = tlc.run("Trace_Message", cfg, extra_modules={"MC_Message": mod, "Trace_Message": tm}, wd=wd, workers=1, timeout=1500)
        if res.violated in ("Coherent", "NoDup", "TypeOK"):
            pass      # handled below through the progress register
        m = re.search(r'<<\s*"PROGRESS"', res.out)
        if res.rc not in (0, 12, 13) and not m:
            tlc.must_ok(res, "Trace_Message")
        rep.tlc("Trace_Message", res)
        if res.violated:
            # an invariant failed in a matched state: the last state of the behaviour TLC printed
            st = re.findall(r"/\\ tid = (\d+)", res.out), re.findall(r"/\\ l = (\d+)", res.out)
            t, l = int(st[0][-1]), int(st[1][-1])
            return (t, l, f"invariant {res.violated} is false in the matched state")
        val, _ = tlaval.parse_at(res.out, m.start())
        (t, l), nt, nl = val[1], val[2], val[3]
        if (t, l) == (nt, nl):
            return None
        return (t, l + 1, "the specification allows no step that matches the recorded one")
    finally:
        tlc.cleanup(wd)


def run(rep):
    maxlen = 2 if rep.tier == "quick" else 3
    rep.rule = (f"TLC: exhaustive model, list length <= {maxlen}, 5 objects (two equal-valued, a third of the kind, another kind, an unknown AVP), "
                "9 operations; G: every (implementation-reached state, action) group replayed on a real DiameterMessage (3 flavours) "
                "and a real Grouped AVP; T: random 40-step sequences over 8 objects validated step by step by TLC. "
                "distinct = (state, action) groups + trace steps")
    mod, cfg = mc_module({k: v for k, v in OBJS.items() if k in ("u1", "u2", "u3", "f1", "x1")}, maxlen, 3)
    wd = tlc.workdir("MC_Message")
    try:
        dot = os.path.join(wd, "graph.dot")
        res, _ = tlc.run("MC_Message", cfg, extra_modules={"MC_Message": mod}, wd=wd, workers=8,
                         args=["-dump", "dot,actionlabels", dot], timeout=1500, coverage=False)
        tlc.must_ok(res, "MC_Message")
        rep.tlc("MC_Message", res)
        # non-vacuity: every historic deviation must break Coherent
        for dev in ("D_PopByEquality", "D_SuffixByCount", "D_SetItemStale", "D_UpdateTwoObjects"):
            m2, c2 = mc_module({k: v for k, v in OBJS.items() if k in ("u1", "u2", "u3", "f1", "x1")}, 3, 3, dev='{"%s"}' % dev)
            r2, _ = tlc.run("MC_Message", c2, extra_modules={"MC_Message": m2}, workers=4, timeout=600)
            if r2.violated != "Coherent":
                raise tlc.TlcError(f"vacuity self-test: deviation {dev} does not violate Coherent (got {r2.violated})")
            rep.notes.setdefault("deviations_shown_to_violate_Coherent", []).append(dev)
        # thorough: list length <= 3 gives a graph of several hundred thousand (state, action) groups per container; the tours
        # are capped (coverage is reported in the evidence), the model itself is checked exhaustively above
        run_walks(rep, dot, ["generic", "request", "decoded", "grouped"], tours=rep.tier != "quick",
                  max_groups=None if rep.tier == "quick" else 150000)
    finally:
        tlc.cleanup(wd)
    rep.exhaustive = True
    extra_histories(rep)
    # ---- T
    rng = random.Random(rep.seed * 7919 + 11)
    nt = 60 if rep.tier == "quick" else 1500
    traces, metas = random_traces(rep, rng, nt, 40)
    nsteps = sum(len(t) for t in traces)
    rep.evaluations += nsteps
    rep.distinct_count_extra += nsteps
    bad = validate_traces(rep, traces, metas)
    rep.traces_validated += len(traces)
    if bad:
        t, l, why = bad
        steps = metas[t - 1]["steps"][:l]
        rep.violation(f"TLC rejects trace {t} at step {l} ({why}) on a {metas[t - 1]['flavour']} message: "
                      f"{json.dumps(steps[-3:], default=str)[:600]}",
                      {"kind": "trace", "container": metas[t - 1]["flavour"], "ops": [[s["op"], s["args"]] for s in steps if isinstance(s, dict)]})
    rep.sample({"trace_prefix": traces[0][:3]})
    rep.assumptions += ["objects are appended at most once at a time (no AVP object listed twice)",
                        "renaming (update_key) targets keys of the library's own scheme '<name>_avp[__k]'",
                        "Grouped AVP: append/extend/pop/cleanup/avps=/item assignment/update_key (its refresh() is documented as unfinished)"]


def replay(rep, path):
    r = json.load(open(path))["replay"]
    if r.get("kind") == "extra":
        extra_histories(rep)
        rep.states, rep.transitions = 1, 1
        rep.sample(r)
        return rep.finish()
    ad = GroupAdapter() if r.get("container") == "grouped" else MsgAdapter(r.get("container", "generic"))
    h = ad.fresh()
    p = None
    for op in r["ops"]:
        if isinstance(op, str):
            o, a = graphwalk.parse_label(op)
        else:
            o, a = op[0], [tuple(x) if isinstance(x, list) else x for x in op[1]]
        try:
            ad.apply(h, o, a, None)
        except BaseException as e:
            rep.violation(f"{o}{tuple(a)} raised {type(e).__name__}: {e}", r)
            break
        p = ad.project(h)
    if p is not None:
        bad = []
        if not p["bijection"]:
            bad.append(f"named view and AVP list do not refer to the same objects: list {p['lst']}, names {p['names']}")
        if p["hdr"] != p["size"]:
            bad.append(f"length field {p['hdr']} but serialised size {p['size']}")
        if not p["hasok"]:
            bad.append("membership queries disagree with the named view")
        if bad:
            rep.violation("; ".join(bad), r)
    rep.case(str(r)[:100])
    rep.states, rep.transitions = max(rep.states, 1), max(rep.transitions, 1)
    rep.sample(r)
    return rep.finish()


# ------------------------------------------------------------------------------------------- histories outside the model's alphabet
def coherent(m):
    """the invariant Coherent of spec/Message.tla evaluated on a real message: one name per listed position, every name refers
    to a listed object, Message Length = size of the serialisation"""
    lst = list(m.avps)
    named = {k: v for k, v in vars(m).items() if "_avp" in k and k != "_avps"}
    bad = []
    if len(named) != len(lst):
        bad.append(f"{len(named)} names for {len(lst)} listed AVPs")
    for k, v in named.items():
        if not any(v is a for a in lst):
            bad.append(f"name {k} refers to an unlisted AVP")
    for i, a in enumerate(lst):
        n = sum(1 for v in named.values() if v is a)
        want = sum(1 for b in lst if b is a)
        if n != want:
            bad.append(f"the AVP at position {i} has {n} name(s) for {want} occurrence(s) in the list")
    raw = m.dump()
    if m.header.get_length() != len(raw):
        bad.append(f"Message Length {m.header.get_length()} != {len(raw)} serialised bytes")
    return bad


def extra_histories(rep):
    """Operation sequences that the container model abstracts away, checked against its invariant directly:
    (a) bulk update that renews the Session-Id in place (its size changes with the new Origin-Host);
    (b) the same AVP object listed several times, then popped / replaced one name at a time;
    (c) copy(): the copy is a coherent message of its own (its names refer to ITS AVPs)."""
    from bromelia.base import DiameterMessage, DiameterRequest
    from bromelia.avps import SessionIdAVP, OriginHostAVP, OriginRealmAVP, UserNameAVP, RouteRecordAVP, ProxyStateAVP
    from bromelia.lib.ietf_rfc6733.messages import SessionTerminationRequest
    from bromelia.constants import DIAMETER_LOGOUT
    n = 0

    def check(m, what, replay):
        nonlocal n
        n += 1
        rep.case(("extra", what, n))
        for b in coherent(m)[:2]:
            rep.violation(f"{what}: {b}", replay)

    # (a)
    for host in ("a.b", "host.example", "a-much-longer-host-name.with.many.labels.example.org", "h" * 37 + ".x"):
        for typed in (True, False):
            try:
                if typed:
                    m = SessionTerminationRequest(destination_realm="example.org", auth_application_id=4, termination_cause=DIAMETER_LOGOUT,
                                                  origin_host="first.example", origin_realm="example", user_name="u")
                else:
                    m = DiameterRequest(command_code=275, application_id=4)
                    m.extend([SessionIdAVP(b"first.example;1;2"), OriginHostAVP("first.example"), OriginRealmAVP("example"), UserNameAVP("u")])
                with guard(10, "update_avps"):
                    m.update_avps({"origin_host": host})
                check(m, f"update_avps(origin_host={host!r}) on a {'typed STR' if typed else 'generic request'} with a Session-Id", {"kind": "extra", "case": "renew", "host": host, "typed": typed})
                m.append(ProxyStateAVP(b"x"))
                m.pop("proxy_state_avp")
                check(m, f"append / pop after update_avps(origin_host={host!r})", {"kind": "extra", "case": "renew", "host": host, "typed": typed})
            except BaseException as e:
                rep.violation(f"update_avps(origin_host={host!r}) raised {type(e).__name__}: {e}", {"kind": "extra", "case": "renew", "host": host, "typed": typed})
    # (b)
    for k in (2, 3):
        for order in range(k):
            m = DiameterRequest(command_code=272, application_id=4)
            rr = RouteRecordAVP("relay.example")
            m.append(UserNameAVP("u"))
            m.extend(k * [rr])
            check(m, f"extend({k} x the same object)", {"kind": "extra", "case": "same-object", "k": k, "order": order})
            names = [kk for kk, v in vars(m).items() if v is rr]
            for j in range(k):
                key = sorted(names)[(order + j) % k]
                m.pop(key)
                check(m, f"extend({k} x the same object) then pop {j + 1} of its names", {"kind": "extra", "case": "same-object", "k": k, "order": order})
    # (c)
    for build in range(3):
        m = DiameterRequest(command_code=272, application_id=4)
        m.extend([SessionIdAVP(b"s;1;2"), OriginHostAVP("a.b"), UserNameAVP("u"), UserNameAVP("v")][:2 + build])
        if not hasattr(m, "copy"):
            break
        cp = m.copy()
        check(cp, "copy()", {"kind": "extra", "case": "copy", "build": build})
        cp.session_id_avp.data = b"changed;in;the;copy"
        cp.refresh()
        cp.pop("origin_host_avp")
        check(cp, "copy() then a change of the copy", {"kind": "extra", "case": "copy", "build": build})
        check(m, "the source after its copy() was changed", {"kind": "extra", "case": "copy", "build": build})
        if m.session_id_avp.data != b"s;1;2" or not m.has_avp("origin_host_avp"):
            rep.violation("a change made to a copy() reached the source message", {"kind": "extra", "case": "copy", "build": build})
    # (e) a bulk update whose later key carries a value its AVP class rejects, after an earlier key has changed the size of its AVP
    from bromelia.avps import ResultCodeAVP
    from bromelia.messages import CEA
    for typed in (False, True):
        for bad in ({"result_code": "not-a-number"}, {"result_code": b"\x00\x01"}, {"origin_realm": 5}):
            try:
                if typed:
                    m = CEA(origin_host="short.example", origin_realm="example", host_ip_address="10.0.0.1")
                else:
                    m = DiameterRequest(command_code=272, application_id=4)
                    m.extend([OriginHostAVP("a.b"), OriginRealmAVP("example"), ResultCodeAVP(2001), UserNameAVP("u")])
            except BaseException as e:
                rep.violation(f"building the message for the failing bulk update raised {type(e).__name__}: {e}", {"kind": "extra", "case": "failing-update"})
                continue
            replay = {"kind": "extra", "case": "failing-update", "typed": typed, "bad": repr(bad)}
            upd = {"origin_host": "a-much-longer-origin-host.with.labels.example.org"}
            upd.update(bad)
            try:
                m.update_avps(upd)
            except BaseException:
                pass
            check(m, f"update_avps({sorted(upd)}) whose later value is rejected, on a {'typed CEA' if typed else 'generic request'}", replay)
            try:
                m.append(UserNameAVP("later"))
                check(m, "append after the failing bulk update", replay)
            except BaseException as e:
                rep.violation(f"append after a failing bulk update raised {type(e).__name__}: {e}", replay)
    # (d) a bulk operation that is refused part-way (an element that is not an AVP, not the first one): whatever the operation
    # leaves behind, the three views agree, and they still agree after the caller carries on
    for op in ("extend", "avps"):
        for pos in (1, 2):
            for junk in ("junk", None, 5):
                for pre in (0, 2):
                    m = DiameterRequest(command_code=272, application_id=4)
                    m.extend([SessionIdAVP(b"s;1;2"), OriginHostAVP("a.b")][:pre])
                    items = [UserNameAVP("u"), UserNameAVP("vv"), RouteRecordAVP("r.example")][:pos] + [junk] + [ProxyStateAVP(b"p")]
                    replay = {"kind": "extra", "case": "refused-bulk", "op": op, "pos": pos, "junk": repr(junk), "pre": pre}
                    try:
                        if op == "extend":
                            m.extend(items)
                        else:
                            m.avps = items
                        rep.violation(f"{op} with an element that is not an AVP ({junk!r}) was accepted", replay)
                        continue
                    except BaseException as e:
                        if type(e).__module__ != "bromelia.exceptions":
                            rep.violation(f"{op} with an element that is not an AVP ({junk!r}) raised {type(e).__name__}: {e}", replay)
                            continue
                    check(m, f"{op}() refused at element {pos + 1} of {len(items)} ({junk!r})", replay)
                    try:
                        m.append(UserNameAVP("later"))
                        check(m, f"append after {op}() was refused at element {pos + 1}", replay)
                        names = [k for k in vars(m) if "_avp" in k and k != "_avps"]
                        if names:
                            m.pop(names[0])
                            check(m, f"append and pop after {op}() was refused at element {pos + 1}", replay)
                    except BaseException as e:
                        rep.violation(f"append / pop after a refused {op}() raised {type(e).__name__}: {e}", replay)
    rep.notes["extra_histories"] = n
