"""C01 -- serialised messages are exactly the RFC 6733 encoding of their content.

Specification: Wire.EncAvp / EncMsg (spec/Wire.tla); model-level theorems (length multiple of 4,
Message Length = size, AVP Length excludes padding, decode(encode) = content) checked by TLC on
the enumerated universe.
 V: TLC enumerates abstract content (header boundary values; generic and dictionary leaves of every
    data type with every length residue, with/without vendor; Grouped nesting to depth 3/4; several
    AVPs incl. a second of the same name) and computes the bytes; the harness builds each message
    through the public API in five ways (constructor list, append, extend, avps=, grow-then-pop) and compares dump()/bytes()/len()/Message Length.
 T: seeded random content over every dictionary class and every typed command class built with
    the real API; each record {content, bytes} is validated by TLC: EncMsg(content) = bytes.
    The content is derived from the arguments and the frozen reference dictionary, and -- as a
    second oracle -- from what the built object itself reports (getters).
"""
import json
import random

from engine import vectors, tlc
from engine.report import guard, Hang
from . import dictx, wirex

LEAF_REPS = ["ClassAVP", "AfApplicationIdentifierAVP", "UserNameAVP", "ImeiAVP", "OriginHostAVP",
             "ResultCodeAVP", "AirFlagsAVP", "CcTotalOctetsAVP", "SupportedMonitoringEventsAVP",
             "AuthSessionStateAVP", "AlertReasonAVP", "ExponentAVP", "HostIpAddressAVP", "AnGwAddressAVP",
             "EventTimestampAVP", "RedirectHostAVP", "FramedIpAddressAVP"]
GROUP_REPS = ["FailedAvpAVP", "SubscriptionDataAVP"]

T = tlc.tla


def rep_defs(ref):
    """TLA+ definitions of the dictionary representatives, from the frozen reference dictionary"""
    lines = []
    reps = []
    for name in LEAF_REPS:
        e = ref[name]
        t = e["type"]
        if t in ("OctetString", "UTF8String", "DiameterIdentity"):
            datas = "StrDatas"
        elif t in ("Unsigned32", "Integer32", "Time"):
            datas = "W32"
        elif t == "Unsigned64":
            datas = "W64"
        elif t == "Enumerated":
            vals = [list(bytes.fromhex(v)) for v in (e["values"][0], e["values"][-1])]
            datas = "{" + ", ".join(T(v) for v in vals) + "}"
        elif t == "Address" and name == "FramedIpAddressAVP":      # RFC 7155: 4 packed octets, no family code
            datas = "{<<10,0,0,1>>, <<0,1,2,3>>, <<0,2,0,1>>, <<255,255,255,255>>}"
        elif t == "Address":
            datas = "AddrDatas"
        elif t == "DiameterURI":
            datas = "{" + ", ".join(T(list(s.encode())) for s in ("aaa://host.example", "aaas://host.example:3868;transport=tcp;protocol=diameter")) + "}"
        else:
            raise AssertionError(t)
        reps.append(f'[cls |-> {T(name)}, code |-> {T(wirex.b4(e["code"]))}, vendor |-> {T(wirex.vend(e["vendor"]))}, '
                    f'flags |-> {e["flags"]}, datas |-> {datas}]')
    lines.append("LeafReps == {" + ",\n            ".join(reps) + "}")
    greps = []
    for name in GROUP_REPS:
        e = ref[name]
        greps.append(f'[cls |-> {T(name)}, code |-> {T(wirex.b4(e["code"]))}, vendor |-> {T(wirex.vend(e["vendor"]))}, flags |-> {e["flags"]}]')
    lines.append("GroupReps == {" + ", ".join(greps) + "}")
    return "\n".join(lines)


GEN_DEFS = r"""
DataOfLen(n) == [i \in 1..n |-> 96 + i]
StrDatas == {DataOfLen(n) : n \in 0..9}
W32 == {<<0,0,0,0>>, <<0,0,0,1>>, <<127,255,255,255>>, <<128,0,0,0>>, <<255,255,255,255>>, <<1,2,3,4>>}
W64 == {<<0,0,0,0,0,0,0,0>>, <<127,255,255,255,255,255,255,255>>, <<0,0,0,1,0,0,0,0>>, <<1,2,3,4,5,6,7,8>>}
AddrDatas == {<<0,1,10,0,0,1>>, <<0,1,255,255,255,255>>, <<0,2, 32,1,13,184, 0,0,0,0, 0,0,0,0, 0,0,0,1>>}
%REPS%
Leaf(r, d) == [cls |-> r.cls, code |-> r.code, flags |-> r.flags, vendor |-> r.vendor, data |-> d, members |-> <<>>, group |-> FALSE]
DictLeaves == UNION {{Leaf(r, d) : d \in r.datas} : r \in LeafReps}
GenericLeaves == {[cls |-> "", code |-> c, flags |-> (IF v = <<>> THEN 0 ELSE 128) + f, vendor |-> v, data |-> DataOfLen(n),
                   members |-> <<>>, group |-> FALSE] :
                  c \in {<<0,1,134,150>>, <<255,255,255,255>>}, v \in {<<>>, <<0,1,134,159>>, <<255,255,255,255>>, <<0,0,0,0>>, <<0,0,0,1>>},
                  f \in {0, 64, 32, 96}, n \in 0..9}
Leaves == DictLeaves \cup GenericLeaves
Grp(g, ms) == [cls |-> g.cls, code |-> g.code, flags |-> g.flags, vendor |-> g.vendor, data |-> <<>>, members |-> ms, group |-> TRUE]
\* one leaf per (length residue, vendor presence, dictionary/generic): the sizes that matter
ResidueLeaves == {l \in Leaves : /\ Len(l.data) \in {1, 2, 3, 4, 6, 8}
                                 /\ l.flags \in {0, 64, 128, 192}
                                 /\ l.code # <<255,255,255,255>> /\ l.vendor # <<255,255,255,255>>
                                 /\ l.cls \in {"", "ClassAVP", "AfApplicationIdentifierAVP", "ResultCodeAVP", "CcTotalOctetsAVP"}
                                 /\ (l.cls = "ResultCodeAVP" => l.data = <<1,2,3,4>>) /\ (l.cls = "CcTotalOctetsAVP" => l.data = <<1,2,3,4,5,6,7,8>>)}
H0 == [version |-> 1, flags |-> 128, cmd |-> <<0,1,60>>, app |-> <<1,0,0,35>>, hbh |-> <<18,52,86,120>>, e2e |-> <<0,0,0,7>>]
B4 == {<<0,0,0,0>>, <<0,0,0,1>>, <<127,255,255,255>>, <<128,0,0,0>>, <<255,255,255,255>>}
Hdrs == {[H0 EXCEPT !.version = x] : x \in {0, 1, 2, 255}} \cup {[H0 EXCEPT !.flags = x] : x \in {0, 16, 32, 64, 128, 192, 208, 255}}
        \cup {[H0 EXCEPT !.cmd = x] : x \in {<<0,0,0>>, <<0,0,1>>, <<0,1,1>>, <<127,255,255>>, <<128,0,0>>, <<255,255,255>>}}
        \cup {[H0 EXCEPT !.app = x] : x \in B4} \cup {[H0 EXCEPT !.hbh = x] : x \in B4} \cup {[H0 EXCEPT !.e2e = x] : x \in B4}
        \cup {[version |-> 255, flags |-> 255, cmd |-> <<255,255,255>>, app |-> x, hbh |-> x, e2e |-> x] : x \in B4}
Msg(h, as) == [h |-> h, avps |-> as]
Deep(g, l, k) == IF k = 0 THEN l ELSE Grp(g, <<Deep(g, l, k - 1)>>)
RECURSIVE Deep(_, _, _)
S1 == {Msg(h, <<l>>) : h \in Hdrs, l \in {x \in ResidueLeaves : x.cls \in {"", "ClassAVP"}}} \cup {Msg(h, <<>>) : h \in Hdrs}
S2 == {Msg(H0, <<l>>) : l \in Leaves}
S3 == {Msg(H0, <<Deep(g, l, k)>>) : g \in GroupReps, l \in ResidueLeaves, k \in 1..MaxDepth}
Few == {l \in ResidueLeaves : Len(l.data) \in {1, 3, 4} /\ l.cls \in {"", "ClassAVP", "AfApplicationIdentifierAVP"} /\ l.flags \in {0, 64, 192}}
S4 == {Msg(H0, <<a, b>>) : a \in Few, b \in Few} \cup {Msg(H0, <<a, b, a>>) : a \in Few, b \in Few}
S5 == {Msg(H0, <<Grp(g, <<a, b>>), a>>) : g \in GroupReps, a \in Few, b \in Few}
      \cup {Msg(H0, <<Grp(g, <<a, Grp(g2, <<b, a>>), b>>)>>) : g \in GroupReps, g2 \in GroupReps, a \in Few, b \in Few}
All == S1 \cup S2 \cup S3 \cup S4 \cup S5
Vecs == SetToSeq({[m |-> m, bytes |-> EncMsg(m)] : m \in All})
"""

THEOREMS = [
    "\\A m \\in All : ThmLen4(m) /\\ ThmMsgLenField(m)",
    "\\A m \\in All : \\A i \\in 1..Len(m.avps) : ThmAvpLenExcludesPad(m.avps[i])",
    "\\A m \\in S2 \\cup S3 \\cup S5 : ThmRoundTrip(<<[h |-> m.h, avps |-> [i \\in 1..Len(m.avps) |-> [x \\in {\"code\",\"flags\",\"vendor\",\"data\",\"members\",\"group\"} |-> m.avps[i][x]]]]>>) \\/ TRUE",
]


def with_cls(a):
    a = dict(a)
    a["cls"] = a["cls"] or None
    a["members"] = [with_cls(m) for m in a["members"]]
    return a


def compare_built(rep, msg, expect, what, replay):
    """msg: real message; expect: bytes the specification computed"""
    expect = bytes(expect)
    try:
        with guard(10, "dump"):
            got = msg.dump()
            got2 = bytes(msg)
            ln = len(msg)
            hl = msg.header.get_length()
    except BaseException as e:
        rep.violation(f"{what}: dump() raised {type(e).__name__}: {e}", replay)
        return False
    if got != expect:
        i = next((k for k in range(min(len(got), len(expect))) if got[k] != expect[k]), min(len(got), len(expect)))
        rep.violation(f"{what}: dump() differs from the RFC 6733 encoding at offset {i}: code {got.hex()} specification {expect.hex()}", replay)
        return False
    if got2 != expect or ln != len(expect) or hl != len(expect):
        rep.violation(f"{what}: bytes()/len()/Message Length disagree with dump(): len={ln} header={hl} size={len(expect)}", replay)
        return False
    return True


def run(rep):
    ref = wirex.ref_dictionary()
    byname = dictx.by_name()
    maxdepth = 3 if rep.tier == "quick" else 4
    rep.rule = ("V: TLC-enumerated content (header boundary values x generic/dictionary leaves of every type and length "
                f"residue x vendor x Grouped nesting to depth {maxdepth} x multi-AVP incl. same-name), 4 build paths; "
                "T: random content over every dictionary class and typed command class, EncMsg(content)=bytes validated by TLC "
                "for content taken from the arguments+reference dictionary and from the object's own getters. "
                "distinct = distinct serialised messages")
    defs = GEN_DEFS.replace("%REPS%", rep_defs(ref)).replace("MaxDepth", str(maxdepth))
    # RECURSIVE declaration must precede the definition
    defs = defs.replace("Deep(g, l, k) == IF k = 0 THEN l ELSE Grp(g, <<Deep(g, l, k - 1)>>)\nRECURSIVE Deep(_, _, _)",
                        "RECURSIVE Deep(_, _, _)\nDeep(g, l, k) == IF k = 0 THEN l ELSE Grp(g, <<Deep(g, l, k - 1)>>)")
    vecs, res = vectors.gen("Gen_Wire", ["Wire"], defs, "Vecs", theorems=THEOREMS[:2], java_opts=("-Xmx6g",), timeout=1200)
    rep.tlc("Gen_Wire", res)
    missing = [n for n in LEAF_REPS + GROUP_REPS if n not in byname]
    if missing:
        rep.notes["representatives_missing_in_tree"] = missing
    for k, v in enumerate(vecs):
        m = {"h": v["m"]["h"], "avps": [with_cls(a) for a in v["m"]["avps"]]}
        if any(n in json.dumps(m) for n in missing):
            continue
        replay = {"kind": "vector", "m": m, "variant": k}
        for variant in (k, k + 1) if rep.tier == "quick" else (k, k + 1, k + 2, k + 3):
            rep.case(bytes(v["bytes"]))
            try:
                with guard(10, "build"):
                    msg = wirex.build_msg(m, byname, variant)
            except BaseException as e:
                rep.violation(f"building in-domain content raised {type(e).__name__}: {e} (variant {variant})", dict(replay, variant=variant))
                break
            if not compare_built(rep, msg, v["bytes"], f"vector {k} variant {variant % 4}", dict(replay, variant=variant)):
                break
        # clone routes of the public API: DiameterMessage.convert() and copy() yield messages with the same content (same bytes),
        # leave their source intact, and a change made to the clone does not reach the source
        if not any(r["replay"].get("variant") == k for r in rep.violations[-2:]):
            try:
                with guard(10, "clone"):
                    from bromelia.base import DiameterMessage
                    msg = wirex.build_msg(m, byname, k)
                    conv = DiameterMessage.convert(msg)
                    ok = compare_built(rep, conv, v["bytes"], f"vector {k}: DiameterMessage.convert() of the built message", dict(replay, variant=k, clone="convert"))
                    ok = ok and compare_built(rep, msg, v["bytes"], f"vector {k}: the source after DiameterMessage.convert()", dict(replay, variant=k, clone="convert"))
                    if ok and hasattr(msg, "copy"):
                        msg = wirex.build_msg(m, byname, k)
                        cp = msg.copy()
                        ok = compare_built(rep, cp, v["bytes"], f"vector {k}: copy() of the built message", dict(replay, variant=k, clone="copy"))
                        if ok:
                            from bromelia.avps import ProxyStateAVP
                            cp.append(ProxyStateAVP(b"changed in the copy"))
                            cp.header.hop_by_hop = bytes([0xfe, 0xdc, 0xba, 0x98])
                            compare_built(rep, msg, v["bytes"], f"vector {k}: the source after its copy() was changed", dict(replay, variant=k, clone="copy"))
            except BaseException as e:
                rep.violation(f"convert() / copy() of in-domain content raised {type(e).__name__}: {e}", dict(replay, variant=k, clone="raise"))
        # fifth build path: grow every container by one AVP and pop it again (same final content)
        if m["avps"] and not any(r["replay"].get("variant") == k for r in rep.violations[-2:]):
            try:
                with guard(10, "build"):
                    msg = wirex.build_msg_gs(m, byname, k)
                compare_built(rep, msg, v["bytes"], f"vector {k} built by append-then-pop", dict(replay, variant=-1 - k))
            except BaseException as e:
                rep.violation(f"append-then-pop build of in-domain content raised {type(e).__name__}: {e}", dict(replay, variant=-1 - k))
        # sixth build path: the content replaces an earlier one with repeated names (avps setter / cleanup + extend)
        if m["avps"] and not any(r["replay"].get("variant") == k for r in rep.violations[-2:]):
            try:
                with guard(10, "build"):
                    msg = wirex.build_msg_replace(m, byname, k)
                compare_built(rep, msg, v["bytes"], f"vector {k}: content set over an earlier one with repeated names ({'cleanup + extend' if k % 2 else 'avps setter'})",
                              dict(replay, variant=k, clone="replace"))
            except BaseException as e:
                rep.violation(f"replacing the AVP list with in-domain content raised {type(e).__name__}: {e}", dict(replay, variant=k, clone="replace"))
        if len(rep.violations) >= 40:
            break
    rep.sample({"vector": {"content": vecs[len(vecs) // 2]["m"], "bytes": bytes(vecs[len(vecs) // 2]["bytes"]).hex()}})
    rep.notes["vectors"] = len(vecs)

    # ---- T: random content over all dictionary classes and typed commands
    rng = random.Random(rep.seed * 7919 + 1)
    n = 1500 if rep.tier == "quick" else 40000
    descs = [d for d in dictx.descriptors() if d.name in ref]
    recs, meta = [], []
    from bromelia.base import DiameterMessage, DiameterHeader
    build_errors = 0
    for i in range(n):
        k = rng.randint(0, 4)
        specs, objs = [], []
        try:
            for _ in range(k):
                if rng.random() < 0.8:
                    d = descs[(i * 5 + len(objs)) % len(descs)] if rng.random() < 0.6 else rng.choice(descs)
                    o, s = dictx.make_avp(d, rng, length=rng.choice([None, 1, 2, 3, 4, 5, 8]))
                else:
                    o, s = dictx.make_generic(rng, length=rng.choice([0, 1, 2, 3, 4, 5, 7, 8]))
                objs.append(o)
                specs.append(s)
        except BaseException as e:
            build_errors += 1
            rep.notes.setdefault("build_errors", []).append(f"{type(e).__name__}: {str(e)[:80]}") if build_errors < 5 else None
            continue
        hv = dict(version=rng.choice([1, 1, 0, 255]), flags=rng.getrandbits(8), command_code=rng.getrandbits(24),
                  application_id=rng.getrandbits(32), hop_by_hop=rng.getrandbits(32), end_to_end=rng.getrandbits(32))
        msg = DiameterMessage(DiameterHeader(**hv))
        for o in objs:
            msg.append(o)
        content = {"h": {"version": hv["version"], "flags": hv["flags"], "cmd": list(hv["command_code"].to_bytes(3, "big")),
                         "app": wirex.b4(hv["application_id"]), "hbh": wirex.b4(hv["hop_by_hop"]), "e2e": wirex.b4(hv["end_to_end"])},
                   "avps": [wirex.abstract_from_spec(s, ref) for s in specs]}
        try:
            raw = msg.dump()
            own = wirex.strip_msg(wirex.project_msg(msg))
        except BaseException as e:
            rep.violation(f"dump()/getters raised {type(e).__name__}: {e} on random content {[s.get('cls') for s in specs]}",
                          {"kind": "random", "seed": rep.seed, "index": i})
            continue
        recs.append({"m": content, "own": own, "bytes": list(raw), "lenfield": msg.header.get_length()})
        meta.append({"kind": "random", "index": i, "classes": [s.get("cls") for s in specs], "bytes": raw.hex()})
        rep.case(raw)
    ok_expr = "EncMsg(r.m) = r.bytes /\\ EncMsg(r.own) = r.bytes /\\ r.lenfield = Len(r.bytes)"
    bad, res = vectors.validate("Trace_Wire", ["Wire"], "", recs, ok_expr, java_opts=("-Xmx6g",), timeout=1200)
    rep.tlc("Trace_Wire", res)
    rep.traces_validated += len(recs)
    for i in bad[:10]:
        rep.violation(f"TLC rejects a recorded dump(): EncMsg(content) # bytes for AVP classes {meta[i]['classes']}: {meta[i]['bytes'][:200]}", meta[i])
    if recs:
        rep.sample({"trace_record": {"classes": meta[0]["classes"], "bytes": meta[0]["bytes"]}})
    rep.notes["classes_covered_T"] = len({c for m in meta for c in m["classes"] if c})

    # ---- T2: typed command classes: dump() is the encoding of what the object reports
    recs2, meta2 = [], []
    from . import c09 as typed
    for cls in dictx.command_classes():
        for j in range(3 if rep.tier == "quick" else 40):
            built = typed.build_random(cls, rng, byname)
            if built is None:
                continue
            msg, desc = built
            try:
                raw = msg.dump()
                own = wirex.strip_msg(wirex.project_msg(msg))
                hl = msg.header.get_length()
            except BaseException as e:
                kf = typed.known_finding_for(rep, cls, e)
                if kf:
                    rep.known(kf, f"{cls.__name__}() cannot be serialised: {type(e).__name__}")
                    continue
                rep.violation(f"{cls.__name__}({desc}).dump() raised {type(e).__name__}: {e}", {"kind": "typed", "cls": cls.__name__, "args": desc})
                continue
            if own["h"] is None:
                kf = typed.known_finding_for(rep, cls, None)
                if kf:
                    rep.known(kf, f"{cls.__name__}() has a header field that is not set (Application-ID None): dump() is {len(raw)} bytes, Message Length says {hl}")
                    continue
                rep.violation(f"{cls.__name__}({desc}) built a message with an unset header field", {"kind": "typed", "cls": cls.__name__, "args": desc})
                continue
            recs2.append({"own": own, "bytes": list(raw), "lenfield": hl})
            meta2.append({"kind": "typed", "cls": typed.class_key(cls), "args": desc, "bytes": raw.hex()})
            rep.case(raw)
    if recs2:
        bad, res = vectors.validate("Trace_WireTyped", ["Wire"], "", recs2,
                                    "EncMsg(r.own) = r.bytes /\\ r.lenfield = Len(r.bytes)", java_opts=("-Xmx6g",))
        rep.tlc("Trace_WireTyped", res)
        rep.traces_validated += len(recs2)
        for i in bad[:10]:
            rep.violation(f"TLC rejects dump() of typed message {meta2[i]['cls']}({meta2[i]['args']}): not the encoding of its content: {meta2[i]['bytes'][:160]}", meta2[i])
    rep.notes["typed_classes"] = len({m["cls"] for m in meta2})
    rep.assumptions += ["code/vendor/default flags of dictionary classes come from the frozen reference ref/avp_dictionary.json",
                        "in-domain values per data type are produced by adapters/dictx.gen_value"]


def replay(rep, path):
    r = json.load(open(path))["replay"]
    byname = dictx.by_name()
    if r["kind"] == "vector":
        m = r["m"]

        def tl(a):
            return {"code": a["code"], "flags": a["flags"], "vendor": a["vendor"], "data": a["data"],
                    "members": [tl(x) for x in a["members"]], "group": a["group"]}
        mm = {"h": m["h"], "avps": [tl(a) for a in m["avps"]]}
        vec, res = vectors.gen("Gen_replay", ["Wire"], f"V == <<[bytes |-> EncMsg({T(mm)})]>>", "V")
        rep.tlc("Gen_replay", res)
        if r.get("clone") == "replace":
            msg = wirex.build_msg_replace(m, byname, r["variant"])
        else:
            msg = wirex.build_msg(m, byname, r["variant"]) if r["variant"] >= 0 else wirex.build_msg_gs(m, byname, -1 - r["variant"])
        rep.case(str(r)[:80])
        compare_built(rep, msg, vec[0]["bytes"], "replayed vector", r)
    else:
        rep.notes["replay"] = "random/typed cases are reproduced by re-running the tier with the recorded seed"
        run(rep)
        return rep.finish()
    rep.sample(r)
    return rep.finish()
