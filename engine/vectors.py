"""Binding V (spec -> code) and function-trace validation (code -> spec).

gen():    TLC evaluates specification operators over an enumerated input set (the enumeration
          and the oracle are the specification's) and serialises the vectors as JSON.
validate(): records produced by driving the real code are deserialised by TLC, which evaluates
          the specification's acceptance predicate on every record and prints the rejected
          line numbers.
"""
import json
import os
import re

from . import tlc
from . import tlaval

_STUB = """
VARIABLE stub__
StubInit__ == stub__ = 0
StubNext__ == UNCHANGED stub__
"""
_CFG = "INIT StubInit__\nNEXT StubNext__\n"


def gen(name, extends, defs, vectors_expr, theorems=(), timeout=900, workers=1, java_opts=()):
    """Returns (list_of_vectors, tlc.Result). `theorems` are TLA+ expressions TLC must find TRUE
    (model-level facts checked on the same enumerated universe)."""
    wd = tlc.workdir(name)
    try:
        out = os.path.join(wd, "vectors.json")
        body = [f"---- MODULE {name} ----",
                f"EXTENDS {', '.join(extends + ['Json', 'TLC', 'TLCExt'])}",
                defs]
        for i, th in enumerate(theorems):
            body.append(f"ASSUME Thm{i} == {th}")
        body.append(f"ASSUME JsonSerialize({tlc.tla_str(out)}, {vectors_expr})")
        body.append(_STUB)
        body.append("====")
        res, _ = tlc.run(name, _CFG, extra_modules={name: "\n".join(body)}, wd=wd, workers=workers,
                         timeout=timeout, java_opts=java_opts)
        if res.violated == "assumption":
            # which theorem failed is in the output
            raise tlc.TlcError(f"{name}: a model-level theorem is false:\n" +
                               "\n".join(res.out.splitlines()[-25:]))
        tlc.must_ok(res, name)
        with open(out) as f:
            data = json.load(f)
        return data, res
    finally:
        tlc.cleanup(wd)


def validate(name, extends, defs, records, ok_expr, timeout=900, java_opts=()):
    """records: list of JSON-serialisable dicts.  ok_expr: TLA+ expression over `r` (one record).
    Returns (sorted list of rejected 0-based indices, tlc.Result)."""
    wd = tlc.workdir(name)
    try:
        inp = os.path.join(wd, "records.json")
        with open(inp, "w") as f:
            json.dump(records, f)
        body = [f"---- MODULE {name} ----",
                f"EXTENDS {', '.join(extends + ['Json', 'TLC', 'TLCExt'])}",
                defs,
                f"Records__ == JsonDeserialize({tlc.tla_str(inp)})",
                f"Ok__(r) == {ok_expr}",
                "Bad__ == {i \\in 1..Len(Records__) : ~Ok__(Records__[i])}",
                'ASSUME PrintT(<<"BADLINES", Len(Records__), Bad__>>)',
                _STUB, "===="]
        res, _ = tlc.run(name, _CFG, extra_modules={name: "\n".join(body)}, wd=wd, workers=1,
                         timeout=timeout, java_opts=java_opts)
        tlc.must_ok(res, name)
        m = re.search(r'<<\s*"BADLINES"', res.out)
        if not m:
            raise tlc.TlcError(f"{name}: no BADLINES in TLC output\n" + res.out[-2000:])
        val, _ = tlaval.parse_at(res.out, m.start())
        if val[1] != len(records):
            raise tlc.TlcError(f"{name}: TLC read {val[1]} records, {len(records)} written")
        bad = sorted(int(x) - 1 for x in val[2])
        return bad, res
    finally:
        tlc.cleanup(wd)
