"""Two (or more) calls of library functions executed concurrently under the deterministic scheduler, with a
preemption point at every source line (or bytecode) of the named bromelia files.

Used for the function-level properties: the specification states each of them as a FUNCTION of its
arguments, so a call's result must not depend on what another thread is computing at the same time.  A shared
cache filled in two steps, a lazily built table, a registry rebuilt in place are the typical ways to lose that
(spec/Cache.tla shows the pattern and its counterexample); they are invisible to any single-threaded sweep.
"""
from . import vsched


def run_threads(seed, jobs, files, opcode=False, budget=6000, max_steps=60000):
    """jobs: list of zero-argument callables.  Returns (results, outcome): results[i] is ('ok', value) or
    ('raised', 'Type: text'); outcome is 'alldone' or a text describing a deadlock / step limit."""
    s = vsched.new_sched(seed, max_steps=max_steps)
    suffixes = tuple(files)
    if opcode:
        s.opcode_files, s.opcode_budget = suffixes, budget
    else:
        s.line_files, s.line_budget = suffixes, budget
    results = [None] * len(jobs)

    def body(i):
        try:
            results[i] = ("ok", jobs[i]())
        except BaseException as e:          # bromelia's exceptions derive from BaseException
            if type(e).__name__ == "ThreadKilled":
                raise
            results[i] = ("raised", f"{type(e).__name__}: {e}")
    for i in range(len(jobs)):
        s.spawn(f"job{i}", body, i)
    chooser = vsched.PCT(seed, depth=1 + seed % 3, horizon=400) if seed % 2 else None
    try:
        out = s.run(chooser=chooser)
    except vsched.Deadlock as e:
        out = "deadlock: " + str(e)
    except (vsched.StepLimit, vsched.StepHang) as e:
        out = type(e).__name__ + ": " + str(e)
    finally:
        s.kill_all()
    return results, out


def sweep_pair(job_a, job_b, files, kmax=400, opcode=False):
    """One-preemption sweep: thread A is stopped after k = 0, 1, 2, ... line (bytecode) steps, B runs to its end,
    then A resumes.  Yields (k, results, outcome) until A finishes before being stopped."""
    for k in range(kmax):
        s = vsched.new_sched(k, max_steps=60000)
        suffixes = tuple(files)
        if opcode:
            s.opcode_files, s.opcode_budget = suffixes, 20000
        else:
            s.line_files, s.line_budget = suffixes, 20000
        results = [None, None]

        def body(i, job):
            try:
                results[i] = ("ok", job())
            except BaseException as e:
                if type(e).__name__ == "ThreadKilled":
                    raise
                results[i] = ("raised", f"{type(e).__name__}: {e}")
        ta = s.spawn("jobA", body, 0, job_a)
        tb = s.spawn("jobB", body, 1, job_b)
        out = "alldone"
        try:
            n = 0
            while n < k and not ta.done and s.enabled(ta) == "go":
                s.step(ta)
                n += 1
            finished_early = ta.done
            guard = 0
            while not tb.done and s.enabled(tb) == "go" and guard < 50000:
                s.step(tb)
                guard += 1
            s.run()
        except vsched.Deadlock as e:
            out = "deadlock: " + str(e)
        except (vsched.StepLimit, vsched.StepHang) as e:
            out = type(e).__name__ + ": " + str(e)
        finally:
            s.kill_all()
        yield k, results, out
        if finished_early:
            return


# ------------------------------------------------------------------------------------------------------------------
# executions in a forked child: module-level state of the library (a table built on first use, a cache) is as it was when
# the check started, for every single execution
import json as _json
import os as _os
import select as _select
import time as _time


def forked(fn, timeout=120):
    """run fn() in a forked child and return its (JSON-serialisable) result; ('child-failed', text) when it does not deliver.
    A child that does not deliver in time is run once more with a five times longer limit (a loaded machine must not turn a slow
    execution into a verdict)."""
    r = _forked_once(fn, timeout)
    if isinstance(r, list) and r and r[0] == "child-failed" and "did not finish in time" in r[1]:
        r = _forked_once(fn, 5 * timeout)
    return r


def _forked_once(fn, timeout):
    r, w = _os.pipe()
    pid = _os.fork()
    if pid == 0:
        try:
            _os.close(r)
            try:
                out = fn()
            except BaseException as e:
                out = ["child-failed", f"{type(e).__name__}: {e}"]
            _os.write(w, _json.dumps(out, default=repr).encode())
        finally:
            _os._exit(0)
    _os.close(w)
    chunks, t0 = [], _time.time()
    try:
        while True:
            left = timeout - (_time.time() - t0)
            if left <= 0:
                break
            ready, _, _ = _select.select([r], [], [], min(left, 1.0))
            if ready:
                b = _os.read(r, 1 << 16)
                if not b:
                    break
                chunks.append(b)
    finally:
        _os.close(r)
        try:
            import signal
            _os.kill(pid, signal.SIGKILL)
        except OSError:
            pass
        _os.waitpid(pid, 0)
    if not chunks:
        return ["child-failed", "no result (the execution did not finish in time)"]
    try:
        return _json.loads(b"".join(chunks).decode())
    except ValueError as e:
        return ["child-failed", f"unreadable result: {e}"]


def virtualise_locks():
    """Locks the library created with the real threading module (class-level or module-level locks of modules that vsched.install
    does not substitute) become scheduler-controlled locks: a thread stopped by the scheduler while it holds a real lock would
    block the next thread for real and wedge the harness.  Called in the forked child, before the execution."""
    import sys as _sys
    from . import vsched as vs
    n = 0
    for name, mod in list(_sys.modules.items()):
        f = getattr(mod, "__file__", None) or ""
        if "/bromelia/" not in f or not name.startswith("bromelia"):
            continue
        holders = [mod] + [v for v in vars(mod).values() if isinstance(v, type) and getattr(v, "__module__", None) == name]
        for h in holders:
            for attr, val in list(vars(h).items()):
                if type(val).__name__ in ("lock", "RLock"):
                    try:
                        setattr(h, attr, vs.VLock())
                        n += 1
                    except (AttributeError, TypeError):
                        pass
    return n


def _one_preemption(k, job_a, job_b, files, opcode):
    from . import vsched as vs
    vs.install(0)          # (in the forked child only: the check process keeps the library's real threading / queue / time)
    virtualise_locks()
    s = vs.new_sched(k, max_steps=80000)
    suffixes = tuple(files)
    if opcode:
        s.opcode_files, s.opcode_budget = suffixes, 30000
    else:
        s.line_files, s.line_budget = suffixes, 30000
    results = [None, None]

    def body(i, job):
        try:
            results[i] = ["ok", repr(job())]
        except BaseException as e:
            if type(e).__name__ == "ThreadKilled":
                raise
            results[i] = ["raised", f"{type(e).__name__}: {e}"]
    ta = s.spawn("jobA", body, 0, job_a)
    tb = s.spawn("jobB", body, 1, job_b)
    out = "alldone"
    finished_early = False
    try:
        n = 0
        while n < k and not ta.done and s.enabled(ta) == "go":
            s.step(ta)
            n += 1
        finished_early = ta.done
        g = 0
        while not tb.done and s.enabled(tb) == "go" and g < 60000:
            s.step(tb)
            g += 1
        s.run()
    except vs.Deadlock as e:
        out = "deadlock: " + str(e)
    except (vs.StepLimit, vs.StepHang) as e:
        out = type(e).__name__ + ": " + str(e)
    return {"results": results, "out": out, "finished_early": finished_early}


def _pct_exec(seed, jobs, files, opcode, depth, horizon):
    """one execution under PCT scheduling: `depth` preemptions at random step indices below `horizon`"""
    from . import vsched as vs
    vs.install(0)
    virtualise_locks()
    s = vs.new_sched(seed, max_steps=200000)
    suffixes = tuple(files)
    if opcode:
        s.opcode_files, s.opcode_budget = suffixes, 100000
    else:
        s.line_files, s.line_budget = suffixes, 100000
    results = [None] * len(jobs)

    def body(i, job):
        try:
            results[i] = ["ok", repr(job())]
        except BaseException as e:
            if type(e).__name__ == "ThreadKilled":
                raise
            results[i] = ["raised", f"{type(e).__name__}: {e}"]
    for i, j in enumerate(jobs):
        s.spawn(f"job{i}", body, i, j)
    out = "alldone"
    try:
        out = s.run(chooser=vs.PCT(seed, depth=depth, horizon=horizon))
    except vs.Deadlock as e:
        out = "deadlock: " + str(e)
    except (vs.StepLimit, vs.StepHang) as e:
        out = type(e).__name__ + ": " + str(e)
    return {"results": results, "out": out, "steps": s.steps}


def pct_runs(pairs, files, nruns, depth=2, opcode=False, judge=None, seed0=0):
    """`nruns` executions per pair under PCT scheduling with `depth` preemption points (two threads that are both stopped in the
    middle of a call: what the one-preemption sweep cannot produce).  Returns (executions, problems)."""
    problems, n = [], 0
    for desc, job_a, job_b in pairs:
        ref = forked(lambda: [["ok", repr(job_a())], ["ok", repr(job_b())]])
        if ref and ref[0] == "child-failed":
            raise RuntimeError(f"concurrent stage, {desc}: the sequential reference execution failed: {ref[1]}")
        horizon = 400
        for i in range(nruns):
            r = forked(lambda: _pct_exec(seed0 + i * 7919 + 1, [job_a, job_b], files, opcode, depth, horizon))
            n += 1
            if isinstance(r, list) and r and r[0] == "child-failed":
                raise RuntimeError(f"concurrent stage, {desc}, PCT execution {i}: {r[1]}")
            horizon = max(horizon, int(r.get("steps", 400) * 0.9))          # the preemption points are spread over the whole execution
            if judge is not None:
                text = judge(r["results"][0], r["results"][1]) if r["out"] == "alldone" else r["out"]
                if text:
                    problems.append((desc, i, text))
                    break
            elif r["out"] != "alldone" or r["results"] != ref:
                bad = 0 if r["results"][0] != ref[0] else 1
                problems.append((desc, i, f"call {'AB'[bad]} gives {r['results'][bad]} instead of {ref[bad]} ({r['out']}; PCT schedule {seed0 + i * 7919 + 1})"))
                break
    return n, problems


def purity_sweep(pairs, files, kmax=300, opcode=False, stride=1, judge=None):
    """pairs: list of (description, job_a, job_b): zero-argument callables returning a value with a faithful repr().
    For each pair: the sequential results (A then B, in a fresh child) are the reference; then, for k = 0, stride, 2 stride, ...,
    A is stopped after k line (bytecode) steps inside the named files, B runs a complete call, A resumes - each execution in a
    child forked from this (untouched) process.  Returns (number of executions, list of (description, k, text))."""
    problems, n = [], 0
    for desc, job_a, job_b in pairs:
        ref = forked(lambda: [["ok", repr(job_a())], ["ok", repr(job_b())]])
        if ref and ref[0] == "child-failed":
            raise RuntimeError(f"concurrent stage, {desc}: the sequential reference execution failed: {ref[1]}")
        for k in range(0, kmax, stride):
            r = forked(lambda: _one_preemption(k, job_a, job_b, files, opcode))
            n += 1
            if isinstance(r, list) and r and r[0] == "child-failed":
                # (executions report deadlocks, step limits and exceptions themselves: a child that delivers nothing is the harness's problem)
                raise RuntimeError(f"concurrent stage, {desc}, execution {k}: {r[1]}")
            if judge is not None:
                # results that are not a function of the arguments (generated identifiers): a verdict on both results together
                text = judge(r["results"][0], r["results"][1]) if r["out"] == "alldone" else r["out"]
                if text:
                    problems.append((desc, k, text))
                    break
            elif r["out"] != "alldone" or r["results"] != ref:
                who = "the interrupted call" if r["results"][0] != ref[0] else "the call that ran in between"
                problems.append((desc, k, f"{who} gives {r['results'][0 if r['results'][0] != ref[0] else 1]} instead of "
                                          f"{ref[0 if r['results'][0] != ref[0] else 1]} ({r['out']})"))
                break
            if r["finished_early"]:
                break
    return n, problems


def model_check_cache(rep, tlc):
    """spec/Cache.tla: the class of defects this stage looks for has a machine-found counterexample (and the stateless design has none)"""
    for mode, expect in (("none", None), ("twostep", "ResultIsFunction"), ("lazytable", "ResultIsFunction")):
        cfg = f'SPECIFICATION Spec\nCONSTANTS Threads = {{1, 2}}\n Args = {{1, 2, 3}}\n Mode = "{mode}"\nINVARIANT ResultIsFunction\nCHECK_DEADLOCK FALSE\n'
        res, _ = tlc.run("Cache", cfg, workers=2, timeout=300)
        if expect is None:
            tlc.must_ok(res, "Cache none")
            rep.tlc("Cache (no shared state)", res)
        elif res.violated != expect:
            raise tlc.TlcError(f"vacuity self-test: Cache.tla mode {mode} does not violate {expect}")


def purity_stage(rep, what, pairs, files, kmax=300, stride=1, model=True, pct=0, pct_pairs=None):
    """the common stage of the function-level checks: Cache.tla model-checked (once), then the one-preemption sweep"""
    from . import tlc
    if model:
        model_check_cache(rep, tlc)
    n, problems = purity_sweep(pairs, files, kmax=kmax, stride=stride)
    if pct and not problems:
        n2, problems = pct_runs(pct_pairs or pairs, files, pct, depth=2, seed0=rep.seed)
        n += n2
    rep.case(("purity", what), n)
    rep.notes["concurrent_executions"] = rep.notes.get("concurrent_executions", 0) + n
    for desc, k, text in problems:
        rep.violation(f"two threads inside {what} ({desc}; execution {k}): {text}", {"kind": "purity", "k": k, "desc": desc})
    rep.assumptions.append("concurrent stage: threads are serialised (GIL semantics), the second thread runs a complete call while the first is "
                           "stopped at a source line of the named library files")
    return problems
