"""Report object shared by all adapters: collects coverage, violations, known findings; writes
the evidence file and the replay files; decides the exit status."""
import contextlib
import json
import os
import signal
import sys
import time

VERIF = os.path.dirname(os.path.dirname(os.path.abspath(__file__)))
REPO = os.environ.get("VERIF_REPO", "/repo")


class Hang(BaseException):
    pass


@contextlib.contextmanager
def guard(seconds, what="call"):
    """Guard around one call of the code under test (main thread only): `seconds` of CPU time of this process (a
    runaway loop), or 6 x `seconds` of wall-clock time (a blocked call).  CPU time, not wall-clock time, so that a
    loaded machine never turns a slow call into a reported hang."""
    def onalarm(_s, _f):
        raise Hang(f"{what} did not return within {seconds}s of CPU time / {6 * seconds}s")
    old_prof = signal.signal(signal.SIGPROF, onalarm)
    old_real = signal.signal(signal.SIGALRM, onalarm)
    signal.setitimer(signal.ITIMER_PROF, seconds)
    signal.setitimer(signal.ITIMER_REAL, 6 * seconds)
    try:
        yield
    finally:
        signal.setitimer(signal.ITIMER_PROF, 0)
        signal.setitimer(signal.ITIMER_REAL, 0)
        signal.signal(signal.SIGPROF, old_prof)
        signal.signal(signal.SIGALRM, old_real)


def load_known_findings():
    p = os.path.join(VERIF, "known_findings.json")
    if not os.path.exists(p):
        return []
    return json.load(open(p)).get("findings", [])


class Report:
    def __init__(self, prop, tier, seed):
        self.prop, self.tier, self.seed = prop, tier, seed
        self.t0 = time.time()
        self.states = 0
        self.transitions = 0
        self.traces_validated = 0
        self.evaluations = 0
        self.distinct = set()
        self.distinct_count_extra = 0
        self.samples = []
        self.violations = []        # dict(what=..., replay=obj)
        self.known_hits = {}        # finding id -> description (reproduced on this run)
        self.notes = {}
        self.assumptions = []
        self.tlc_runs = []
        self.rule = ""
        self.exhaustive = False
        self.nonprop_differences = 0
        self.findings = [f for f in load_known_findings()
                         if (f.get("property") == prop or prop in f.get("properties", [])) and f.get("status") == "known"]

    # ---- coverage bookkeeping
    def tlc(self, name, res):
        self.states += res.distinct
        self.transitions += res.generated
        self.tlc_runs.append({"run": name, "distinct": res.distinct, "generated": res.generated,
                              "depth": res.depth, "wall_s": round(res.wall, 2),
                              "violated": res.violated})

    def case(self, key=None, n=1):
        self.evaluations += n
        if key is not None:
            self.distinct.add(key)

    def sample(self, s, limit=6):
        if len(self.samples) < limit:
            self.samples.append(s)

    # ---- verdicts
    def violation(self, what, replay):
        """A concrete failing execution of the real code. `replay` must be JSON-serialisable and
        sufficient to re-run it. Known findings are matched by the adapter before calling this."""
        if len(self.violations) < 50:
            self.violations.append({"what": what, "replay": replay})
        else:
            self.notes["violations_truncated"] = True

    def known(self, fid, what):
        self.known_hits.setdefault(fid, what)

    # ---- output
    def finish(self):
        wall = time.time() - self.t0
        # development runs against a scratch tree (VERIF_REPO) must not overwrite the real evidence
        alt = os.path.realpath(REPO) != "/repo"
        evdir = os.path.join(VERIF, ".work", "alt", "evidence") if alt else os.path.join(VERIF, "evidence")
        rpdir = os.path.join(VERIF, ".work", "alt", "replays") if alt else os.path.join(VERIF, "replays")
        os.makedirs(evdir, exist_ok=True)
        os.makedirs(rpdir, exist_ok=True)
        nd = len(self.distinct) + self.distinct_count_extra
        cov = {
            "states": self.states, "transitions": self.transitions,
            "traces_validated_against_impl": self.traces_validated,
            "evaluations": self.evaluations, "distinct_nontrivial": nd,
            "rule": self.rule, "samples": self.samples or ["(none)"],
            "exhaustive": self.exhaustive,
            "tlc_runs": self.tlc_runs,
            "known_findings_reproduced": sorted(self.known_hits),
            "non_property_differences": self.nonprop_differences,
        }
        cov.update(self.notes)
        ev = {"property_id": self.prop, "tier": self.tier, "seed": self.seed, "level": "model_checking",
              "coverage": cov, "assumptions": self.assumptions, "wall_s": round(wall, 2),
              "violations": len(self.violations)}
        with open(os.path.join(evdir, self.prop + ".json"), "w") as f:
            json.dump(ev, f, indent=1, default=str)
            f.write("\n")
        for fid, what in sorted(self.known_hits.items()):
            print(f"KNOWN-FINDING: property={self.prop} {fid}: {what}")
        if self.violations:
            for i, v in enumerate(self.violations[:10]):
                path = os.path.join(rpdir, f"{self.prop}-{self.tier}-{i}.json")
                with open(path, "w") as f:
                    json.dump({"property": self.prop, "what": v["what"], "replay": v["replay"],
                               "seed": self.seed, "tier": self.tier}, f, indent=1, default=str)
                    f.write("\n")
                print(f"VIOLATION property={self.prop} replay={path}")
                print(f"  {v['what']}")
            print(f"{self.prop}: {len(self.violations)} violation(s) in {wall:.1f}s")
            return 1
        print(f"{self.prop}: OK  tier={self.tier} seed={self.seed} states={self.states} transitions={self.transitions} "
              f"evaluations={self.evaluations} distinct={nd} traces={self.traces_validated} wall={wall:.1f}s")
        return 0
