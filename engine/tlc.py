"""TLC runner and output parser.

Every TLC invocation of the framework goes through `run()`: it copies the specification
modules into a private work directory (so that generated Gen_/Trace_/MC_ modules can EXTEND
them), runs TLC with a private metadir, parses the result and removes the scratch files.
Exit code 2 of a check means "machinery failure" and is raised from here as TlcError.
"""
import json
import os
import re
import shutil
import subprocess
import tempfile
import time

VERIF = os.path.dirname(os.path.dirname(os.path.abspath(__file__)))
SPEC_DIR = os.path.join(VERIF, "spec")
WORK = os.path.join(VERIF, ".work")
JAR = "/opt/veriftools/tla/tla2tools.jar:/opt/veriftools/tla/CommunityModules-deps.jar"


class TlcError(Exception):
    pass


def workdir(prefix="run"):
    os.makedirs(WORK, exist_ok=True)
    d = tempfile.mkdtemp(prefix=prefix + "-", dir=WORK)
    for f in os.listdir(SPEC_DIR):
        if f.endswith(".tla"):
            shutil.copy(os.path.join(SPEC_DIR, f), d)
    return d


def cleanup(d):
    shutil.rmtree(d, ignore_errors=True)


class Result:
    def __init__(self):
        self.rc = None
        self.out = ""
        self.generated = 0      # states generated (= transitions examined + initial states)
        self.distinct = 0
        self.depth = 0
        self.violated = None    # name of violated invariant / property, or "deadlock", "assumption"
        self.error_lines = []
        self.wall = 0.0
        self.coverage = {}      # action name -> (distinct, total)
        self.printed = []       # values printed with PrintT (raw strings)
        self.trace_json = None  # path of -dumpTrace json output

    @property
    def ok(self):
        return self.rc == 0 and self.violated is None


_FINAL = re.compile(r"^(\d+) states generated, (\d+) distinct states found, (\d+) states left on queue")
_DEPTH = re.compile(r"The depth of the complete state graph search is (\d+)")
_INV = re.compile(r"Error: Invariant (\S+) is violated")
_PROP = re.compile(r"Error: (?:Temporal properties were violated|Temporal property (\S+) was violated|Action property (\S+) is violated)")
_COV = re.compile(r"^<(\w+) line \d+, col \d+ to line \d+, col \d+ of module \w+>: (\d+):(\d+)")


def run(module, cfg_text, extra_modules=None, workers=8, args=(), env=None, timeout=900,
        keep=False, wd=None, simulate=None, coverage=False, dump_trace=False, deadlock=False,
        java_opts=()):
    """Run TLC on `module` (name without .tla; must exist in spec/ or in extra_modules).

    extra_modules: {name: text} generated modules written next to the copied spec.
    Returns (Result, workdir) -- workdir is removed unless keep=True.
    """
    own = wd is None
    wd = wd or workdir(module)
    try:
        for name, text in (extra_modules or {}).items():
            with open(os.path.join(wd, name + ".tla"), "w") as f:
                f.write(text)
        cfgp = os.path.join(wd, module + ".cfg")
        with open(cfgp, "w") as f:
            f.write(cfg_text)
        meta = os.path.join(wd, "meta")
        cmd = ["java", "-XX:+UseParallelGC", "-Xss16m"] + list(java_opts) + ["-cp", JAR, "tlc2.TLC",
               "-workers", str(workers), "-metadir", meta, "-noGenerateSpecTE", "-config", cfgp]
        if not deadlock:
            cmd += ["-deadlock"]
        if coverage:
            cmd += ["-coverage", "1"]
        if simulate:
            cmd += ["-simulate", simulate]
        res = Result()
        if dump_trace:
            res.trace_json = os.path.join(wd, "cex.json")
            cmd += ["-dumpTrace", "json", res.trace_json]
        cmd += list(args) + [module + ".tla"]
        e = dict(os.environ)
        e.update(env or {})
        t0 = time.time()
        try:
            p = subprocess.run(cmd, cwd=wd, env=e, stdout=subprocess.PIPE, stderr=subprocess.STDOUT,
                               timeout=timeout, text=True, errors="replace")
        except subprocess.TimeoutExpired as ex:
            res.rc = -9
            res.out = (ex.stdout or b"").decode("utf-8", "replace") if isinstance(ex.stdout, bytes) else (ex.stdout or "")
            res.violated = None
            res.wall = time.time() - t0
            res.timed_out = True
            return res, wd
        res.wall = time.time() - t0
        res.rc = p.returncode
        res.out = p.stdout
        res.timed_out = False
        for line in p.stdout.splitlines():
            m = _FINAL.match(line)
            if m:
                res.generated, res.distinct = int(m.group(1)), int(m.group(2))
            m = _DEPTH.search(line)
            if m:
                res.depth = int(m.group(1))
            m = _INV.search(line)
            if m:
                res.violated = m.group(1)
            m = _PROP.search(line)
            if m:
                res.violated = m.group(1) or m.group(2) or "temporal"
            if "Error: Deadlock reached" in line:
                res.violated = "deadlock"
            if "Error: Assumption" in line or ("Assumption line" in line and "is false" in line):
                res.violated = "assumption"
            if line.startswith("Error:"):
                res.error_lines.append(line)
            m = _COV.match(line)
            if m:
                res.coverage[m.group(1)] = (int(m.group(2)), int(m.group(3)))
        return res, wd
    finally:
        if own and not keep:
            cleanup(wd)


def must_ok(res, what):
    """Raise TlcError unless TLC finished without any error (for runs that are machinery)."""
    if getattr(res, "timed_out", False):
        raise TlcError(f"{what}: TLC timed out after {res.wall:.0f}s")
    if res.rc != 0 or res.violated:
        tail = "\n".join(res.out.splitlines()[-40:])
        raise TlcError(f"{what}: TLC rc={res.rc} violated={res.violated}\n{tail}")


def sany(path):
    p = subprocess.run(["java", "-cp", JAR, "tla2sany.SANY", os.path.basename(path)],
                       cwd=os.path.dirname(path), stdout=subprocess.PIPE, stderr=subprocess.STDOUT, text=True)
    ok = p.returncode == 0 and "Semantic errors" not in p.stdout and "*** Errors" not in p.stdout \
        and "Parse Error" not in p.stdout and "Fatal errors" not in p.stdout
    return ok, p.stdout


def load_counterexample(path):
    """-dumpTrace json file -> list of (action name or None, state dict)."""
    d = json.load(open(path))
    steps = []
    acts = d["counterexample"]["action"]
    if not acts:
        for _i, st in d["counterexample"]["state"]:
            steps.append((None, st))
        return steps
    first = acts[0][0][1]
    steps.append((None, first))
    for (_i, _s0), meta, (_j, s1) in acts:
        steps.append((meta["name"], s1))
    return steps


def tla_str(s):
    return '"' + s.replace("\\", "\\\\").replace('"', '\\"') + '"'


def tla(v):
    """Python value -> TLA+ expression (ints, bools, strings, lists/tuples as sequences,
    dicts with string keys as records, frozenset/set as sets)."""
    if isinstance(v, bool):
        return "TRUE" if v else "FALSE"
    if isinstance(v, int):
        return str(v)
    if isinstance(v, str):
        return tla_str(v)
    if isinstance(v, (bytes, bytearray)):
        return "<<" + ",".join(str(b) for b in v) + ">>"
    if isinstance(v, (list, tuple)):
        return "<<" + ", ".join(tla(x) for x in v) + ">>"
    if isinstance(v, (set, frozenset)):
        return "{" + ", ".join(sorted(tla(x) for x in v)) + "}"
    if isinstance(v, dict):
        if not v:
            return "<<>>"
        return "[" + ", ".join(f"{k} |-> {tla(x)}" for k, x in v.items()) + "]"
    raise TypeError(type(v))
