"""Apalache runner (symbolic checks of inductive invariants: what TLC's bounded exploration cannot give)."""
import os
import re
import shutil
import subprocess
import tempfile
import time

from . import tlc


def check(module, init, inv, length, timeout=900):
    """returns ('NoError' | 'Error' | 'failed: ...', seconds)"""
    wd = tlc.workdir("apa-" + module)
    try:
        t0 = time.time()
        try:
            p = subprocess.run(["apalache-mc", "check", f"--init={init}", f"--inv={inv}", f"--length={length}", "--out-dir=" + os.path.join(wd, "out"),
                                module + ".tla"], cwd=wd, stdout=subprocess.PIPE, stderr=subprocess.STDOUT, text=True, timeout=timeout)
        except subprocess.TimeoutExpired:
            return "failed: timeout", time.time() - t0
        m = re.search(r"The outcome is: (\w+)", p.stdout)
        if not m:
            return "failed: " + p.stdout[-400:], time.time() - t0
        return m.group(1), time.time() - t0
    finally:
        tlc.cleanup(wd)
