"""Parser for the TLA+ values TLC prints (states in dot dumps / simulation files / PrintT)."""
import re


class Parser:
    def __init__(self, s, i=0):
        self.s, self.i = s, i

    def ws(self):
        s = self.s
        while self.i < len(s) and s[self.i] in " \n\t\r":
            self.i += 1

    def peek(self, t):
        self.ws()
        return self.s.startswith(t, self.i)

    def eat(self, t):
        self.ws()
        if not self.s.startswith(t, self.i):
            raise ValueError(f"expected {t!r} at {self.s[self.i:self.i + 40]!r}")
        self.i += len(t)

    def value(self):
        self.ws()
        c = self.s[self.i]
        if self.peek("<<"):
            self.eat("<<")
            out = []
            while not self.peek(">>"):
                out.append(self.value())
                if self.peek(","):
                    self.eat(",")
            self.eat(">>")
            return tuple(out)
        if c == "{":
            self.eat("{")
            out = []
            while not self.peek("}"):
                out.append(self.value())
                if self.peek(","):
                    self.eat(",")
            self.eat("}")
            return frozenset(out)
        if c == "[":
            self.eat("[")
            out = {}
            while not self.peek("]"):
                self.ws()
                m = re.match(r"\w+", self.s[self.i:])
                k = m.group(0)
                self.i += len(k)
                self.eat("|->")
                out[k] = self.value()
                if self.peek(","):
                    self.eat(",")
            self.eat("]")
            return FrozenDict(out)
        if c == "(":
            self.eat("(")
            out = {}
            while True:
                k = self.value()
                self.eat(":>")
                out[k] = self.value()
                if self.peek("@@"):
                    self.eat("@@")
                    continue
                break
            self.eat(")")
            return FrozenDict(out)
        if c == '"':
            j = self.i + 1
            buf = []
            while self.s[j] != '"':
                if self.s[j] == "\\":
                    j += 1
                buf.append(self.s[j])
                j += 1
            self.i = j + 1
            return "".join(buf)
        m = re.match(r"-?\d+|TRUE|FALSE|\w+", self.s[self.i:])
        t = m.group(0)
        self.i += len(t)
        if t == "TRUE":
            return True
        if t == "FALSE":
            return False
        if re.fullmatch(r"-?\d+", t):
            return int(t)
        return ModelValue(t)


class ModelValue(str):
    pass


class FrozenDict(dict):
    def __hash__(self):
        return hash(frozenset(self.items()))


def parse(s):
    return Parser(s).value()


def parse_at(s, i):
    p = Parser(s, i)
    v = p.value()
    return v, p.i


def parse_state(text):
    """'/\\ a = 1\n/\\ b = <<>>' -> {a: 1, b: ()}"""
    st = {}
    for part in re.split(r"(?:^|\n)\s*/\\ ", text):
        if not part.strip():
            continue
        var, val = part.split(" = ", 1)
        st[var.strip()] = parse(val)
    return st


def to_py(v):
    """tuples -> lists, FrozenDict -> dict (for JSON)"""
    if isinstance(v, tuple):
        return [to_py(x) for x in v]
    if isinstance(v, frozenset):
        return sorted((to_py(x) for x in v), key=repr)
    if isinstance(v, dict):
        return {str(k): to_py(x) for k, x in v.items()}
    return v
