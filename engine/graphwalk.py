"""Binding G: implementation-driven walk of a TLC state graph.

TLC explores a bounded model exhaustively and dumps the labelled state graph
(-dump dot,actionlabels).  The walker starts a fresh real object at Init and explores the
sub-graph the implementation actually reaches: for every reached state s and every action label
L enabled at s in the graph it re-creates s on a fresh real object by replaying a known path,
applies the real operation for L, projects the real object and requires the projection to equal
ONE OF the TLC successors of s under L (the specification may be nondeterministic where the
property is silent).  A projection that matches no successor is handed to the adapter's
property-level judge: only a property failure is a violation; anything else is a recorded
non-property difference.
"""
import collections
import re

from . import tlaval


def parse_dot(path):
    nodes, edges, init = {}, collections.defaultdict(lambda: collections.defaultdict(list)), None
    edge_re = re.compile(r'(-?\d+) -> (-?\d+) \[label="((?:[^"\\]|\\.)*)"')
    node_re = re.compile(r'(-?\d+) \[label="((?:[^"\\]|\\.)*)"(,style = filled)?')
    with open(path) as f:
        for line in f:
            m = edge_re.match(line)
            if m:
                lab = m.group(3).replace('\\"', '"').replace("\\\\", "\\")
                edges[m.group(1)][lab].append(m.group(2))
                continue
            m = node_re.match(line)
            if m:
                txt = m.group(2).replace('\\"', '"').replace("\\n", "\n").replace("\\\\", "\\")
                nodes[m.group(1)] = tlaval.parse_state(txt)
                if m.group(3):
                    init = m.group(1)
    return nodes, edges, init


def parse_label(label):
    m = re.match(r"(\w+)\((.*)\)$", label, re.S)
    if m:
        return m.group(1), list(tlaval.parse("<<" + m.group(2) + ">>"))
    return label.strip(), []


class WalkResult:
    def __init__(self):
        self.states = 0          # implementation-reachable spec states visited
        self.groups = 0          # (state, label) groups exercised on the real object
        self.mismatches = []     # (history, label, verdict, detail)
        self.nonprop = 0
        self.graph_states = 0
        self.graph_edges = 0


def walk(dot, adapter, max_groups=None, stop_after=40, skip_label=None):
    """adapter: fresh() -> real object handle; apply(h, op, args, spec_state) ; project(h) -> comparable;
    same(spec_state, projection) -> bool; judge(h, projection, spec_state_before, op, args) -> None | text"""
    nodes, edges, init = parse_dot(dot)
    res = WalkResult()
    res.graph_states = len(nodes)
    res.graph_edges = sum(len(v) for e in edges.values() for v in e.values())
    path = {init: []}              # spec state -> list of (label, state id after)
    order = collections.deque([init])
    seen = {init}
    while order:
        u = order.popleft()
        res.states += 1
        for label in sorted(edges[u]):
            if skip_label and skip_label(label):
                continue
            succs = edges[u][label]
            op, args = parse_label(label)
            if max_groups and res.groups >= max_groups:
                return res
            # re-create u
            h = adapter.fresh()
            ok = True
            for (l2, sid) in path[u]:
                o2, a2 = parse_label(l2)
                try:
                    adapter.apply(h, o2, a2, None)
                except BaseException as e:
                    ok = False
                    break
            if not ok or not adapter.same(nodes[u], adapter.project(h)):
                # the real object did not reproduce a state it reached before: nondeterminism in the harness
                res.mismatches.append(([p[0] for p in path[u]], label, "machinery", "state not reproducible"))
                continue
            res.groups += 1
            try:
                adapter.apply(h, op, args, nodes[u])
                proj = adapter.project(h)
                exc = None
            except BaseException as e:
                proj, exc = None, e
            hist = [p[0] for p in path[u]]
            if exc is not None:
                verdict = adapter.judge_exception(exc, nodes[u], op, args)
                if verdict:
                    res.mismatches.append((hist, label, "violation", verdict))
                else:
                    res.nonprop += 1
                continue
            match = next((v for v in succs if adapter.same(nodes[v], proj)), None)
            if match is None:
                verdict = adapter.judge(h, proj, nodes[u], op, args, [nodes[v] for v in succs])
                if verdict:
                    res.mismatches.append((hist, label, "violation", verdict))
                    if len([m for m in res.mismatches if m[2] == "violation"]) >= stop_after:
                        return res
                else:
                    res.nonprop += 1
                continue
            if match not in seen:
                seen.add(match)
                path[match] = path[u] + [(label, match)]
                order.append(match)
    return res


def tour(dot, adapter, max_steps_per_run=80, max_total=None, stop_after=30, skip_label=None, on_progress=None):
    """Edge-covering tours: like walk(), but the real object is not re-created for every (state, label)
    group.  A run starts at Init with a fresh real object and keeps going: at each state it takes an
    uncovered label if there is one, otherwise it follows edges the implementation is already known to
    take towards the nearest state with an uncovered label.  Runs are repeated until every (state,
    label) group of the implementation-reachable sub-graph has been exercised."""
    nodes, edges, init = parse_dot(dot)
    res = WalkResult()
    res.graph_states = len(nodes)
    res.graph_edges = sum(len(v) for e in edges.values() for v in e.values())
    covered = set()
    bad = set()                 # (state, label) groups that ended in a mismatch: never used as a path
    real_next = {}              # (state, label) -> successor the implementation takes
    reached = {init}
    total = 0

    def labels_of(u):
        return [l for l in sorted(edges[u]) if not (skip_label and skip_label(l))]

    def uncovered(u):
        return [l for l in labels_of(u) if (u, l) not in covered]

    def path_to_uncovered(u):
        """BFS over real_next from u to a state that has an uncovered label"""
        prev = {u: None}
        dq = collections.deque([u])
        while dq:
            x = dq.popleft()
            if x != u and uncovered(x):
                path = []
                while prev[x] is not None:
                    px, l = prev[x]
                    path.append(l)
                    x = px
                return path[::-1]
            for l in labels_of(x):
                v = real_next.get((x, l))
                if v is not None and v not in prev:
                    prev[v] = (x, l)
                    dq.append(v)
        return None

    while True:
        if not uncovered(init) and path_to_uncovered(init) is None:
            break
        h = adapter.fresh()
        u = init
        hist = []
        plan = []
        steps = 0
        while steps < max_steps_per_run:
            if max_total and total >= max_total:
                res.states = len(reached)
                return res
            if not plan:
                unc = uncovered(u)
                if unc:
                    plan = [unc[0]]
                else:
                    p = path_to_uncovered(u)
                    if p is None:
                        break
                    plan = p
            label = plan.pop(0)
            op, args = parse_label(label)
            first_time = (u, label) not in covered
            try:
                adapter.apply(h, op, args, nodes[u])
                proj = adapter.project(h)
                exc = None
            except BaseException as e:
                proj, exc = None, e
            steps += 1
            total += 1
            covered.add((u, label))
            if first_time:
                res.groups += 1
            if exc is not None:
                verdict = adapter.judge_exception(exc, nodes[u], op, args)
                if verdict:
                    res.mismatches.append((list(hist), label, "violation", verdict))
                else:
                    res.nonprop += 1
                bad.add((u, label))
                break
            match = next((v for v in edges[u][label] if adapter.same(nodes[v], proj)), None)
            if match is None:
                verdict = adapter.judge(h, proj, nodes[u], op, args, [nodes[v] for v in edges[u][label]])
                if verdict:
                    res.mismatches.append((list(hist), label, "violation", verdict))
                else:
                    res.nonprop += 1
                bad.add((u, label))
                break
            real_next[(u, label)] = match
            reached.add(match)
            hist.append(label)
            u = match
        if hasattr(adapter, "dispose"):
            adapter.dispose(h)
        if len([m for m in res.mismatches if m[2] == "violation"]) >= stop_after:
            break
        if on_progress:
            on_progress(len(covered), total)
    res.states = len(reached)
    return res
