"""Deterministic scheduler + doubles for threading / queue / time / selectors / socket.

bromelia reaches the outside world only through module attributes looked up at call time
(`threading.Thread`, `queue.Queue`, `time.sleep`, `selectors.DefaultSelector`, `socket.socket`,
`os.urandom`).  `install()` replaces those names inside the bromelia modules, so no source hook is
needed and a mutated tree cannot bypass the instrumentation.

Every operation on a double is a yield point.  Each bromelia thread is a real OS thread parked on
its own semaphore; exactly one runs at a time.  A thread announces its next operation, the
scheduler picks who goes next, the chosen thread performs the announced operation atomically and
runs to its next announcement (one *step* = one code block between two synchronisation points).

Time.  Short sleeps (< SHORT) are plain yield points.  Long timers (sleep / wait / select with a
timeout >= SHORT) carry a virtual deadline and fire, earliest first, only when no thread can make
progress otherwise ("quiescence"): a thread that just completed an iteration without writing to
any double (the idle 0.1 ms ticker of the state machine) counts as idle.

No real socket is ever opened, no wall-clock time is consulted.
"""
import collections
import errno
import queue as _queue
import random
import selectors as _sel
import sys
import threading as _rt
import time as _time

SHORT = 0.05
IDLE_ITERS = 3
STEP_CPU_LIMIT = 20.0
RUNAWAY = False            # a thread of an earlier execution is spinning for ever: nothing measured afterwards is reliable
STEP_WALL_LIMIT = 120.0     # wall clock, generous: a loaded machine must never turn a slow step into a reported hang


class Deadlock(Exception):
    pass


class StepLimit(Exception):
    pass


class Runaway(Exception):
    """raised when a new execution is started although a thread of an earlier one is stuck in an endless loop"""


class StepHang(Exception):
    pass


class ThreadKilled(BaseException):
    """raised inside a parked virtual thread when its scheduler is disposed of"""


class DoubleMisuse(Exception):
    """unknown attribute / impossible call on a double: machinery error, never a verdict"""


class VThread:
    _count = 0

    def __init__(self, sched, name, target, args=(), kwargs=None, daemon=None):
        VThread._count += 1
        self.sched, self.name, self.target, self.args, self.kwargs = sched, name or f"Thread-{VThread._count}", target, args, kwargs or {}
        self.daemon = daemon
        self.sem = _rt.Semaphore(0)
        self.pending = None          # (kind, obj, extra)
        self.deadline = None
        self.done = False
        self.started = False
        self.exc = None
        self.result = None
        self.timed_out = False
        self.idle = False
        self.idle_iters = 0
        self.progress = True
        self.where = []
        self.rt = None
        self.ident = None
        self.holds = []

    def start(self):
        if self.started:
            raise RuntimeError("threads can only be started once")
        self.started = True
        self.sched.register(self)

    def run(self):
        return self.target(*self.args, **self.kwargs)

    def _boot(self):
        self.ident = _rt.get_ident()
        self.sem.acquire()
        if self.sched.killed:
            self.done = True
            return
        if self.sched.opcode_funcs or self.sched.line_funcs or self.sched.line_files or self.sched.opcode_files:
            sys.settrace(self.sched._tracer)
        try:
            self.result = self.run()
        except ThreadKilled:
            self.done = True
            return
        except BaseException as e:      # bromelia's exceptions derive from BaseException
            self.exc = e
        finally:
            sys.settrace(None)
        self.done = True
        self.pending = None
        if not self.sched.killed:
            self.sched.main_sem.release()

    def join(self, timeout=None):
        if self.sched.cur is None:
            return
        self.sched.yield_op(("join", self, timeout))

    def is_alive(self):
        return self.started and not self.done

    def getName(self):
        return self.name

    def __repr__(self):
        return f"<VThread {self.name} {'done' if self.done else self.pending and self.pending[0]}>"


class Sched:
    def __init__(self, seed=0, max_steps=200000):
        self.threads = []
        self.main_sem = _rt.Semaphore(0)
        self.cur = None
        self.rng = random.Random(seed)
        self.steps = 0
        self.max_steps = max_steps
        self.trace = []
        self.now = 0.0
        self.opcode_funcs = set()
        self.opcode_budget = 0
        self.line_funcs = set()          # (function name) -> every source line is a yield point
        self.line_budget = 0
        self._lt, self._ot = self._linetrace, self._optrace
        self.line_files = ()             # tuple of file name suffixes: every function of these bromelia files is traced by line
        self.opcode_files = ()           # ... by bytecode
        self.log_ops = False
        self.on_step = None
        self.idle_bias = 0.03
        self.killed = False

    # ---- thread management
    def register(self, t):
        t.pending = ("start", None, None)
        t.progress = True
        self.threads.append(t)
        rt = _rt.Thread(target=t._boot, daemon=True, name="v-" + t.name)
        t.rt = rt
        rt.start()

    def spawn(self, name, target, *args):
        t = VThread(self, name, target, args)
        t.start()
        return t

    def thread(self, name):
        for t in self.threads:
            if t.name == name:
                return t
        return None

    # ---- called from inside a virtual thread
    def yield_op(self, op, write=True):
        t = self.cur
        if t is None or _rt.get_ident() != t.ident:
            return False                 # set-up phase outside the scheduler: execute immediately
        kind = op[0]
        if (kind == "sleep" and (op[2] or 0) < SHORT) or kind == "select" or (kind == "wait" and op[2] is not None and getattr(op[1], "flag", False)):
            # (a timed wait on an event that is already set returns at once: a loop around it polls like a ticker)
            # an iteration of a ticker (or of a selector loop) ends here; IDLE_ITERS consecutive iterations without a write
            # anywhere make the thread idle (it found nothing to do, repeatedly)
            t.idle_iters = 0 if t.progress else t.idle_iters + 1
            t.idle = t.idle_iters >= IDLE_ITERS
            t.progress = False
        elif write:
            t.progress = True
            self.wake_idle()
        if kind in ("sleep", "wait", "select", "join", "qget") and op[2] is not None and op[2] >= SHORT:
            t.deadline = self.now + op[2]
        else:
            t.deadline = None
        t.pending = op
        t.timed_out = False
        f = sys._getframe(2)
        where = []
        while f is not None and len(where) < 6:
            if "/bromelia/" in f.f_code.co_filename:
                where.append(f.f_code.co_name)
            f = f.f_back
        t.where = where
        self.main_sem.release()
        t.sem.acquire()
        if self.killed:
            raise ThreadKilled()
        if write and not ((kind == "sleep" and (op[2] or 0) < SHORT) or kind == "select" or kind == "wait"):
            # the operation is executed now (it was only announced above): whoever went idle in between has work again
            self.wake_idle()
        return t.timed_out

    def kill_all(self):
        """unwind every parked thread of this scheduler (frees the OS threads)"""
        self.killed = True
        for t in self.threads:
            if not t.done and t.rt is not None:
                for _ in range(50):
                    t.sem.release()
                    t.rt.join(0.02)
                    if not t.rt.is_alive():
                        break

    def wake_idle(self):
        for o in self.threads:
            o.idle = False
            o.idle_iters = 0

    # ---- enabledness
    def enabled(self, t):
        """'go' | 'timer' (long timer that may fire at quiescence) | None (blocked)"""
        if t.done or t.pending is None:
            return None
        kind, obj, extra = t.pending
        if kind in ("start", "op"):
            return "go"
        if kind == "sleep":
            return "go" if (extra or 0) < SHORT else "timer"
        if kind == "lock":
            return "go" if not obj.held else None
        if kind == "wait":
            if obj.flag:
                return "go"
            return None if extra is None else ("go" if extra < SHORT else "timer")
        if kind == "qget":
            if obj.items:
                return "go"
            return None if extra is None else "timer"
        if kind == "select":
            if obj._ready():
                return "go"
            return None if extra is None else ("go" if extra < SHORT else "timer")
        if kind == "join":
            if obj.done:
                return "go"
            return None if extra is None else "timer"
        raise DoubleMisuse(kind)

    def is_idle(self, t):
        """idle = found nothing to do for IDLE_ITERS iterations AND is waiting at its iteration boundary"""
        if not t.idle or t.pending is None:
            return False
        k = t.pending[0]
        return (k == "sleep" and (t.pending[2] or 0) < SHORT) or k == "select" or (k == "wait" and t.pending[2] is not None and getattr(t.pending[1], "flag", False))

    def candidates(self):
        go, timers = [], []
        for t in self.threads:
            e = self.enabled(t)
            if e == "go":
                go.append(t)
            elif e == "timer":
                timers.append(t)
        return go, timers

    def choose(self, chooser=None):
        """returns (thread, fire_timeout) or None when nothing can run"""
        go, timers = self.candidates()
        busy = [t for t in go if not self.is_idle(t)]
        if busy:
            pool = busy
            if len(busy) < len(go) and self.rng.random() < self.idle_bias:
                pool = go
            t = chooser(pool) if chooser else self.rng.choice(pool)
            return t, False
        if timers and not (go and self.rng.random() < 0.5):
            # quiescence: a long timer fires (idle tickers keep ticking in between, so none of them starves)
            t = min(timers, key=lambda x: (x.deadline, self.threads.index(x)))
            return t, True
        if go:
            t = chooser(go) if chooser else self.rng.choice(go)
            return t, False
        return None

    def step(self, t, fire_timeout=False):
        """run exactly one block of thread t"""
        self.steps += 1
        if self.steps > self.max_steps:
            raise StepLimit(f"more than {self.max_steps} scheduler steps")
        if fire_timeout:
            self.now = max(self.now, t.deadline or self.now)
            t.timed_out = True
        else:
            t.timed_out = False
        if self.log_ops:
            self.trace.append((t.name, t.pending[0], getattr(t.pending[1], "vname", None), t.pending[2], fire_timeout))
        self.cur = t
        t.sem.release()
        # a step that never reaches its next synchronisation point: STEP_CPU_LIMIT seconds of CPU spent by this process while waiting
        # (every other thread is parked, so it is the stepping thread that spins) or STEP_WALL_LIMIT seconds of wall clock
        cpu0, waited = _time.process_time(), 0.0
        while not self.main_sem.acquire(timeout=1.0):
            waited += 1.0
            if _time.process_time() - cpu0 > STEP_CPU_LIMIT or waited > STEP_WALL_LIMIT:
                self.cur = None
                global RUNAWAY
                RUNAWAY = True
                raise StepHang(f"thread {t.name} does not reach its next synchronisation point (in {t.where[:3]})")
        self.cur = None
        if self.on_step:
            self.on_step(t)

    def run(self, until=None, chooser=None, max_steps=None):
        """run until `until()` holds, all threads are done ('alldone'), or nothing can run (Deadlock)"""
        limit = self.steps + max_steps if max_steps else None
        while True:
            if until and until():
                return "until"
            c = self.choose(chooser)
            if c is None:
                if all(t.done for t in self.threads):
                    return "alldone"
                raise Deadlock(self.describe_blocked())
            if limit is not None and self.steps >= limit:
                return "limit"
            self.step(*c)

    def quiescent(self):
        """no thread can make progress except idle tickers and long timers"""
        go, _timers = self.candidates()
        return not [t for t in go if not self.is_idle(t)]

    def describe_blocked(self):
        out = []
        for t in self.threads:
            if not t.done:
                k = t.pending
                out.append(f"{t.name}: {k[0]}({getattr(k[1], 'vname', type(k[1]).__name__)}) in {t.where[:2]} holding {[l.vname for l in t.holds]}")
        return "; ".join(out)

    # ---- opcode-level preemption inside named functions
    def _tracer(self, frame, event, arg):
        if event == "call" and "/bromelia/" in frame.f_code.co_filename:
            fn = frame.f_code.co_filename
            if self.opcode_files and fn.endswith(self.opcode_files):
                frame.f_trace_opcodes = True
                return self._ot
            if self.line_files and fn.endswith(self.line_files):
                return self._lt
            if frame.f_code.co_name in self.opcode_funcs:
                frame.f_trace_opcodes = True
                return self._ot
            if frame.f_code.co_name in self.line_funcs:
                return self._lt
        return None

    # (the local trace functions are returned as the SAME object every time: with a fresh bound method per event CPython 3.12
    # stops delivering 'opcode' events after the first one)
    def _linetrace(self, frame, event, arg):
        if event == "line" and self.line_budget > 0:
            self.line_budget -= 1
            self.yield_op(("op", None, "line"), write=False)
        return self._lt

    def _optrace(self, frame, event, arg):
        if event == "opcode" and self.opcode_budget > 0:
            self.opcode_budget -= 1
            self.yield_op(("op", None, "opcode"), write=False)
        return self._ot


class PCT:
    """PCT-style chooser (Burckhardt et al.): every thread gets a random priority when first seen, the
    enabled thread with the highest priority runs, and at d randomly chosen step indices the running
    thread's priority drops below all others.  Finds orderings in which one thread is delayed for long."""
    def __init__(self, seed, depth=2, horizon=400):
        self.rng = random.Random(seed)
        self.prio = {}
        self.low = 0
        self.changes = sorted(self.rng.randrange(1, horizon) for _ in range(depth))
        self.n = 0

    def __call__(self, pool):
        self.n += 1
        for t in pool:
            if id(t) not in self.prio:
                self.prio[id(t)] = self.rng.random() + 1.0
        t = max(pool, key=lambda x: self.prio[id(x)])
        if self.changes and self.n >= self.changes[0]:
            self.changes.pop(0)
            self.low -= 1
            self.prio[id(t)] = self.low
            t = max(pool, key=lambda x: self.prio[id(x)])
        return t


SCHED = None


def cur_sched():
    if SCHED is None:
        raise DoubleMisuse("no scheduler installed")
    return SCHED


class _Named:
    _n = collections.Counter()

    def _name(self, prefix):
        _Named._n[prefix] += 1
        self.vname = f"{prefix}{_Named._n[prefix]}"


class VLock(_Named):
    def __init__(self):
        self._name("lock")
        self.held = False
        self.owner = None

    def acquire(self, blocking=True, timeout=-1):
        s = cur_sched()
        if not blocking:
            s.yield_op(("op", self, "try_acquire"), write=False)
            if self.held:
                return False
        else:
            s.yield_op(("lock", self, None), write=False)      # taking / releasing a lock alone is not progress
            if self.held and s.cur is not None:
                raise DoubleMisuse("scheduler ran a thread blocked on a held lock")
        self.held = True
        self.owner = s.cur
        if s.cur is not None:
            s.cur.holds.append(self)
        return True

    def release(self):
        s = cur_sched()
        s.yield_op(("op", self, "release"), write=False)
        if not self.held:
            raise RuntimeError("release unlocked lock")
        if self.owner is not None and self in self.owner.holds:
            self.owner.holds.remove(self)
        self.held = False
        self.owner = None

    def locked(self):
        return self.held

    def __enter__(self):
        self.acquire()
        return True

    def __exit__(self, *a):
        self.release()


class VEvent(_Named):
    def __init__(self):
        self._name("event")
        self.flag = False

    def set(self):
        cur_sched().yield_op(("op", self, "set"), write=not self.flag)
        self.flag = True

    def clear(self):
        cur_sched().yield_op(("op", self, "clear"), write=self.flag)
        self.flag = False

    def is_set(self):
        cur_sched().yield_op(("op", self, "is_set"), write=False)
        return self.flag

    isSet = is_set

    def wait(self, timeout=None):
        cur_sched().yield_op(("wait", self, timeout), write=False)
        return self.flag


class VQueue(_Named):
    def __init__(self, maxsize=0):
        self._name("queue")
        self.items = collections.deque()
        self.queue = self.items
        self.maxsize = maxsize

    def put(self, x, block=True, timeout=None):
        cur_sched().yield_op(("op", self, "put"))
        self.items.append(x)

    put_nowait = put

    def get(self, block=True, timeout=None):
        s = cur_sched()
        if not block:
            return self.get_nowait()
        to = s.yield_op(("qget", self, timeout), write=False)
        if not self.items:
            raise _queue.Empty()
        s.wake_idle()
        return self.items.popleft()

    def get_nowait(self):
        cur_sched().yield_op(("op", self, "get_nowait"))
        if not self.items:
            raise _queue.Empty()
        return self.items.popleft()

    def empty(self):
        cur_sched().yield_op(("op", self, "empty"), write=False)
        return not self.items

    def qsize(self):
        return len(self.items)

    def full(self):
        return False

    def task_done(self):
        pass


class VPriorityQueue(VQueue):
    """queue.PriorityQueue under the scheduler: get() returns the smallest item"""
    def _take(self):
        x = min(self.items)
        self.items.remove(x)
        return x

    def get(self, block=True, timeout=None):
        s = cur_sched()
        if not block:
            return self.get_nowait()
        s.yield_op(("qget", self, timeout), write=False)
        if not self.items:
            raise _queue.Empty()
        s.wake_idle()
        return self._take()

    def get_nowait(self):
        cur_sched().yield_op(("op", self, "get_nowait"))
        if not self.items:
            raise _queue.Empty()
        return self._take()


class VLifoQueue(VPriorityQueue):
    def _take(self):
        return self.items.pop()


class VSemaphore(_Named):
    """threading.Semaphore / BoundedSemaphore under the scheduler (`held` = no permit left: the scheduler's lock rule applies)"""
    def __init__(self, value=1, bounded=False):
        self._name("semaphore")
        self.value, self.initial, self.bounded = value, value, bounded
        self.owner = None

    @property
    def held(self):
        return self.value <= 0

    def acquire(self, blocking=True, timeout=None):
        s = cur_sched()
        if not blocking:
            s.yield_op(("op", self, "try_acquire"), write=False)
            if self.value <= 0:
                return False
        elif timeout is not None:
            s.yield_op(("op", self, "timed_acquire"), write=False)
            if self.value <= 0:
                return False                 # (a timed acquire that finds no permit gives up: the timeout fired)
        else:
            s.yield_op(("lock", self, None), write=False)
            if self.value <= 0 and s.cur is not None:
                raise DoubleMisuse("scheduler ran a thread blocked on a semaphore without permits")
            if self.value <= 0:
                # called from the harness thread itself (a sequential stage): nobody else can release a permit
                raise Deadlock(f"acquire() on {self.vname} with no permit left and no other thread to release one: the call would never return")
        self.value -= 1
        return True

    def release(self, n=1):
        cur_sched().yield_op(("op", self, "release"), write=False)
        if self.bounded and self.value + n > self.initial:
            raise ValueError("Semaphore released too many times")
        self.value += n

    def __enter__(self):
        self.acquire()
        return True

    def __exit__(self, *a):
        self.release()


class VBarrier:
    """fewer parties than bromelia's thresholds (40/50) always ends in the timeout branch"""
    def __init__(self, parties, action=None, timeout=None):
        self.parties = parties

    def wait(self, timeout=None):
        cur_sched().yield_op(("op", self, "barrier"), write=False)
        raise _rt.BrokenBarrierError()

    def reset(self):
        pass

    def abort(self):
        pass


class NS:
    def __init__(self, real=None):
        self.__dict__["_real"] = real

    def __getattr__(self, name):
        real = self.__dict__.get("_real")
        if real is not None and hasattr(real, name):
            return getattr(real, name)
        raise DoubleMisuse(f"double has no attribute {name!r}")


def make_threading():
    ns = NS()

    def Thread(group=None, target=None, name=None, args=(), kwargs=None, daemon=None):
        return VThread(cur_sched(), name, target, args, kwargs, daemon)
    ns.Thread = Thread
    ns.Lock = VLock
    ns.RLock = VLock
    ns.Event = VEvent
    ns.Semaphore = VSemaphore
    ns.BoundedSemaphore = lambda value=1: VSemaphore(value, bounded=True)
    ns.local = _rt.local                 # (virtual threads are real OS threads)
    ns.Barrier = VBarrier
    ns.BrokenBarrierError = _rt.BrokenBarrierError
    ns.current_thread = lambda: cur_sched().cur
    ns.get_ident = _rt.get_ident
    return ns


def make_queue():
    ns = NS()
    ns.Queue = VQueue
    ns.PriorityQueue = VPriorityQueue
    ns.LifoQueue = VLifoQueue
    ns.SimpleQueue = VQueue
    ns.Empty = _queue.Empty
    ns.Full = _queue.Full
    return ns


def make_time():
    import time as _t
    ns = NS()

    def sleep(s):
        cur_sched().yield_op(("sleep", None, s), write=False)
    ns.sleep = sleep
    ns.time = lambda: cur_sched().now
    ns.monotonic = lambda: cur_sched().now
    return ns


# ---------------------------------------------------------------- fake socket / selector

def os_strerror(e):
    import os as _os
    return _os.strerror(e)


class FakeSock(_Named):
    def __init__(self, *a, **k):
        self._name("sock")
        self.inbox = collections.deque()   # segments the peer has sent, delivered one per recv
        self.eof = False
        self.sent = bytearray()            # bytes accepted by send()
        self.write_plan = None             # list of maximum sizes accepted by successive send() calls
        self.closed = False
        self.refused = False               # connect fails: send / connect raise OSError(refused_errno)
        self.refused_errno = errno.ECONNREFUSED
        self.listening = False
        self.backlog = collections.deque()
        self.blocked_writes = 0            # number of send() calls that raise BlockingIOError first
        self.reset = False                 # recv raises ConnectionResetError
        self.stalled = False               # the peer's window is full: the socket is not writable (send raises EAGAIN)
        self.full = False                  # a short write has just filled the kernel buffer: another send() before the next
                                           # WRITE event reported by select() raises EAGAIN (as a real non-blocking socket does)

    def setblocking(self, f):
        pass

    def setsockopt(self, *a):
        pass

    def bind(self, a):
        pass

    def fileno(self):
        return id(self) % 100000

    def listen(self, *a):
        self.listening = True

    def accept(self):
        cur_sched().yield_op(("op", self, "accept"))
        if not self.backlog:
            raise BlockingIOError()
        return self.backlog.popleft(), ("127.0.0.1", 40000)

    def connect_ex(self, addr):
        cur_sched().yield_op(("op", self, "connect"))
        return errno.EINPROGRESS

    def connect(self, addr):
        cur_sched().yield_op(("op", self, "connect"))
        if self.refused:
            raise OSError(self.refused_errno, os_strerror(self.refused_errno))

    def send(self, data):
        cur_sched().yield_op(("op", self, "send"))
        if self.closed:
            raise OSError(errno.EBADF, "Bad file descriptor")
        if self.refused:
            raise OSError(self.refused_errno, os_strerror(self.refused_errno))
        if self.reset and data:
            raise ConnectionResetError(errno.ECONNRESET, "Connection reset by peer")
        if self.stalled and data:
            raise BlockingIOError(errno.EAGAIN, "Resource temporarily unavailable")
        if self.blocked_writes > 0 and data:
            self.blocked_writes -= 1
            raise BlockingIOError(errno.EAGAIN, "Resource temporarily unavailable")
        if self.full and data:
            raise BlockingIOError(errno.EAGAIN, "Resource temporarily unavailable")
        n = len(data)
        if self.write_plan and data:
            n = max(1, min(n, self.write_plan.pop(0)))
            if n < len(data):
                self.full = True
        self.sent += data[:n]
        return n

    def recv(self, n):
        cur_sched().yield_op(("op", self, "recv"))
        if self.closed:
            raise OSError(errno.EBADF, "Bad file descriptor")
        if self.reset:
            raise ConnectionResetError(errno.ECONNRESET, "Connection reset by peer")
        if self.inbox:
            seg = self.inbox.popleft()
            if len(seg) > n:
                self.inbox.appendleft(seg[n:])
                seg = seg[:n]
            return seg
        if self.eof:
            return b""
        raise BlockingIOError(errno.EAGAIN, "Resource temporarily unavailable")

    def close(self):
        cur_sched().yield_op(("op", self, "close"))
        self.closed = True

    def shutdown(self, how):
        pass

    def readable(self):
        return bool(self.inbox) or self.eof or bool(self.backlog) or self.reset

    def writable(self):
        return not self.listening and not self.stalled

    def getpeername(self):
        if self.reset or self.closed:
            raise OSError(errno.ENOTCONN, "Transport endpoint is not connected")
        return ("127.0.0.1", 40000)

    def getsockname(self):
        return ("127.0.0.1", 3868)

    def shutdown(self, how):
        if self.reset or self.closed:
            raise OSError(errno.ENOTCONN, "Transport endpoint is not connected")


class FakeKey:
    def __init__(self, fileobj, events, data):
        self.fileobj, self.events, self.data = fileobj, events, data
        self.fd = fileobj.fileno()


class FakeSelector(_Named):
    def __init__(self):
        self._name("selector")
        self.map = {}

    def register(self, sock, events, data=None):
        cur_sched().yield_op(("op", self, "register"))
        if id(sock) in self.map:
            raise KeyError(f"{sock!r} is already registered")
        self.map[id(sock)] = FakeKey(sock, events, data)
        return self.map[id(sock)]

    def modify(self, sock, events, data=None):
        cur_sched().yield_op(("op", self, "modify"))
        if id(sock) not in self.map:
            raise KeyError(f"{sock!r} is not registered")
        self.map[id(sock)] = FakeKey(sock, events, data)
        return self.map[id(sock)]

    def unregister(self, sock):
        cur_sched().yield_op(("op", self, "unregister"))
        if id(sock) not in self.map:
            raise KeyError(f"{sock!r} is not registered")
        return self.map.pop(id(sock))

    def get_map(self):
        return {k.fd: k for k in self.map.values()}

    def get_key(self, sock):
        if id(sock) not in self.map:
            raise KeyError(f"{sock!r} is not registered")
        return self.map[id(sock)]

    def _ready(self):
        out = []
        for k in list(self.map.values()):
            if k.fileobj.closed:
                continue
            m = 0
            if k.events & _sel.EVENT_READ and k.fileobj.readable():
                m |= _sel.EVENT_READ
            if k.events & _sel.EVENT_WRITE and k.fileobj.writable():
                m |= _sel.EVENT_WRITE
            if m:
                out.append((k, m))
        return out

    def select(self, timeout=None):
        cur_sched().yield_op(("select", self, timeout), write=False)
        ready = self._ready()
        for k, m in ready:
            if m & _sel.EVENT_WRITE:
                k.fileobj.full = False          # reported writable: the kernel buffer has drained
        return ready

    def close(self):
        self.map.clear()


NEXT_SOCKS = collections.deque()
ALL_SOCKS = []


def make_socket():
    import socket as _s
    ns = NS(_s)

    def socket(*a, **k):
        s = NEXT_SOCKS.popleft() if NEXT_SOCKS else FakeSock()
        ALL_SOCKS.append(s)
        return s
    ns.socket = socket
    return ns


def make_selectors():
    ns = NS()
    ns.EVENT_READ, ns.EVENT_WRITE = _sel.EVENT_READ, _sel.EVENT_WRITE
    ns.DefaultSelector = FakeSelector
    ns.SelectSelector = FakeSelector
    return ns


class Urandom:
    """scripted os.urandom: values from `script` (list of bytes) then from a seeded generator"""
    def __init__(self, real_os, seed=0):
        self.__dict__["_real"] = real_os
        self.__dict__["script"] = collections.deque()
        self.__dict__["rng"] = random.Random(seed)
        self.__dict__["draws"] = 0

    def urandom(self, n):
        self.__dict__["draws"] += 1
        if SCHED is not None and SCHED.cur is not None:
            SCHED.yield_op(("op", None, "urandom"), write=False)
        out = b""
        while self.script and len(out) < n:
            # a caller that asks for more than one word gets the next words of the scripted stream (block reads)
            out += bytes(self.script.popleft())
        if out:
            return out[:n].rjust(n, b"\0") if len(out) >= n or not self.script else out[:n]
        return bytes(self.rng.getrandbits(8) for _ in range(n))

    def __getattr__(self, name):
        return getattr(self.__dict__["_real"], name)


def install(seed=0):
    """substitute the doubles inside the bromelia modules; returns the namespaces"""
    import bromelia.setup, bromelia.transport, bromelia.statemachine, bromelia.bromelia, bromelia.base
    th, q, tm = make_threading(), make_queue(), make_time()
    for m in (bromelia.setup, bromelia.transport, bromelia.statemachine, bromelia.bromelia, bromelia.base):
        if hasattr(m, "threading"):
            m.threading = th
        if hasattr(m, "queue"):
            m.queue = q
        if hasattr(m, "time"):
            m.time = tm
    bromelia.transport.selectors = make_selectors()
    sock = make_socket()
    bromelia.transport.socket = sock
    bromelia.setup.socket = sock
    import os as _os
    ur = Urandom(_os, seed)
    bromelia.base.os = ur
    return {"threading": th, "queue": q, "time": tm, "os": ur}


def new_sched(seed=0, max_steps=200000):
    global SCHED
    if RUNAWAY:
        raise Runaway("a thread of an earlier execution never returned; the remaining executions are skipped")
    SCHED = Sched(seed, max_steps)
    NEXT_SOCKS.clear()
    del ALL_SOCKS[:]
    return SCHED
