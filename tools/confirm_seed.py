#!/venv/bin/python
"""tools/confirm_seed.py <PROP> <dir with patch.diff demo.py notes.txt> <seed-id> [--no-suite]

Confirms a seeded change in a scratch worktree (outside /repo and /verif):
  1. demo passes on the clean tree, fails with the patch;
  2. the unedited test suite still passes every test of BASELINE.stable_pass (full suite, in a private
     network namespace because tests/test_setup.py uses fixed TCP ports);
  3. the quick check of PROP, pointed at the patched worktree (VERIF_REPO), reports a violation.
Stores patch, demo and meta.json under /verif/seeded/<seed-id>/ and removes the worktree.
"""
import fcntl
import json
import os
import shutil
import subprocess
import sys
import tempfile
import xml.etree.ElementTree as ET

VERIF = "/verif"
PY = "/venv/bin/python"


def sh(cmd, cwd=None, env=None, timeout=3600):
    e = dict(os.environ)
    e.update(env or {})
    p = subprocess.run(cmd, cwd=cwd, env=e, shell=isinstance(cmd, str), stdout=subprocess.PIPE, stderr=subprocess.STDOUT,
                       text=True, timeout=timeout)
    return p.returncode, p.stdout


def passed_tests(junit):
    out = set()
    for tc in ET.parse(junit).getroot().iter("testcase"):
        if not any(ch.tag in ("failure", "error", "skipped") for ch in tc):
            out.add(f"{tc.get('classname')}::{tc.get('name')}")
    return out


def main():
    prop, src, sid = sys.argv[1], sys.argv[2], sys.argv[3]
    no_suite = "--no-suite" in sys.argv
    extra_checks = [x for a in sys.argv if a.startswith("--also=") for x in a.split("=", 1)[1].split(",") if x]
    wt = tempfile.mkdtemp(prefix="cs_", dir="/tmp")
    os.rmdir(wt)
    meta = {"property": prop, "seed_id": sid, "ran": []}
    try:
        rc, out = sh(["git", "-C", "/repo", "worktree", "add", "-q", "--detach", wt, "HEAD"])
        assert rc == 0, out
        env = {"BROMELIA_TREE": wt, "PYTHONPATH": wt, "PYTHONDONTWRITEBYTECODE": "1"}
        demo = os.path.join(src, "demo.py")
        rc0, out0 = sh([PY, demo], cwd=wt, env=env, timeout=600)
        meta["demo_clean_rc"] = rc0
        rc, out = sh(["git", "apply", os.path.join(src, "patch.diff")], cwd=wt)
        if rc != 0:
            meta["error"] = "patch does not apply to current /repo HEAD: " + out[-300:]
            print(json.dumps(meta, indent=1))
            return 3
        rc1, out1 = sh([PY, demo], cwd=wt, env=env, timeout=600)
        meta["demo_patched_rc"] = rc1
        meta["demo_patched_tail"] = out1[-400:]
        meta["ran"].append("demo.py on clean worktree (rc %d) and with patch (rc %d)" % (rc0, rc1))
        if not no_suite:
            base = json.load(open("/root/.vp/BASELINE.json"))
            junit = wt + ".junit.xml"
            # a private network namespace per run: the suite binds fixed TCP ports, this lets several confirmations run at once
            # (the suite's own threads sometimes keep the pytest process alive after its summary: the junit file is complete by then)
            rc, out = sh(f"timeout -k 5 600 unshare -n sh -c 'ip link set lo up; cd {wt} && {PY} -m pytest -ra -q -p no:cacheprovider --timeout=900 "
                         f"--continue-on-collection-errors --junitxml={junit}'",
                         env={"PYTHONDONTWRITEBYTECODE": "1"}, timeout=3000)
            ok = passed_tests(junit) if os.path.exists(junit) else set()
            lost = sorted(set(base["stable_pass"]) - ok)
            meta["suite_summary"] = out.strip().splitlines()[-1] if out.strip() else ""
            meta["suite_stable_pass_lost"] = lost[:10]
            meta["ran"].append("full unedited suite in the patched worktree: " + meta["suite_summary"])
            if os.path.exists(junit):
                os.remove(junit)
        prev = os.path.join(VERIF, "seeded", sid, "meta.json")
        if no_suite and os.path.exists(prev):
            # a re-confirmation after the checks were strengthened: the suite result of the first confirmation stands
            old = json.load(open(prev))
            for k in ("suite_summary", "suite_stable_pass_lost"):
                if k in old:
                    meta[k] = old[k]
            meta["ran"] += [x for x in old.get("ran", []) if x.startswith("full unedited suite")]
            meta["first_confirmation_detected"] = old.get("first_confirmation_detected", old.get("detected"))
        results = {}
        for pr in [prop] + extra_checks:
            rc, out = sh(["./check", pr, "--tier", "quick"], cwd=VERIF, env={"VERIF_REPO": wt}, timeout=3000)
            results[pr] = {"rc": rc, "first_lines": [l for l in out.splitlines() if l.startswith(("VIOLATION", "  ", "MACHINERY", "KNOWN"))][:6],
                           "tail": out.strip().splitlines()[-1] if out.strip() else ""}
            meta["ran"].append(f"VERIF_REPO=<patched worktree> ./check {pr} --tier quick -> exit {rc}")
        meta["check_results"] = results
        meta["detected"] = any(r["rc"] == 1 for r in results.values())
        meta["valid_seed"] = (rc0 == 0 and rc1 != 0 and not meta.get("suite_stable_pass_lost", [] if no_suite else ["?"]))
        dst = os.path.join(VERIF, "seeded", sid)
        os.makedirs(dst, exist_ok=True)
        for f in ("patch.diff", "demo.py", "notes.txt"):
            if os.path.exists(os.path.join(src, f)) and os.path.realpath(src) != os.path.realpath(dst):
                shutil.copy(os.path.join(src, f), dst)
        if os.path.exists(os.path.join(src, "notes.txt")):
            meta["needs_to_manifest"] = open(os.path.join(src, "notes.txt")).read()[:1500]
        json.dump(meta, open(os.path.join(dst, "meta.json"), "w"), indent=1)
        print(json.dumps({k: meta[k] for k in ("seed_id", "valid_seed", "detected", "demo_clean_rc", "demo_patched_rc")}),
              meta.get("suite_summary", ""), {k: (v["rc"], v["first_lines"][:2]) for k, v in results.items()})
        return 0
    finally:
        sh(["git", "-C", "/repo", "worktree", "remove", "--force", wt])
        shutil.rmtree(wt, ignore_errors=True)


if __name__ == "__main__":
    sys.exit(main())
