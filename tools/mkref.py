#!/venv/bin/python
"""One-off generator of ref/avp_dictionary.json and ref/command_table.json from the tree it is run
on (the pinned tree at the time of vendoring), cross-read with docs/list-of-avps.md.
The output is FROZEN: the checks compare the live tree against it, they never regenerate it."""
import json, os, random, re, sys, inspect
sys.path.insert(0, "/verif"); sys.path.insert(0, os.environ.get("VERIF_REPO", "/repo"))
import warnings; warnings.simplefilter("ignore")
from adapters import dictx

def main():
    rng = random.Random(1)
    docs = {}
    for line in open("/repo/docs/list-of-avps.md"):
        m = re.match(r"\|\d+\|`([^`]+)`\|(\d+)\|(\w+)\|([^|]*)\|([^|]*)\|[^|]*\|(\w+)", line)
        if m:
            docs[m.group(6)] = {"name": m.group(1), "code": int(m.group(2)), "type": m.group(3), "spec": m.group(4).strip()}
    out = {}
    for d in dictx.descriptors():
        avp, _ = dictx.make_avp(d, rng)
        e = {"code": d.code, "vendor": d.vendor, "type": d.type.replace("Type", ""),
             "flags": avp.get_flags(), "module": d.module}
        if d.values:
            e["values"] = [v.hex() for v in d.values]
        if d.mandatory:
            e["mandatory"] = {k: c.__name__ for k, c in d.mandatory.items()}
        if d.name in docs:
            e["published"] = docs[d.name]
        if d.name in out and out[d.name] != e:
            print("DIFFERENT DUPLICATE", d.name)
        out[d.name] = e
    json.dump(out, open("/verif/ref/avp_dictionary.json", "w"), indent=1, sort_keys=True)
    print(len(out), "classes;", sum(1 for e in out.values() if "published" in e), "published")
    # command table
    from bromelia.base import DiameterRequest
    cmds = {}
    for c in dictx.command_classes():
        sig = inspect.signature(c.__init__)
        params = [(p.name, None if p.default is inspect._empty else repr(p.default)) for p in sig.parameters.values() if p.name not in ("self", "kwargs")]
        try:
            hdr = None
        except Exception:
            pass
        cmds[c.__module__.split(".")[2] + "." + c.__name__] = {
            "request": issubclass(c, DiameterRequest),
            "mandatory": {k: v.__name__ for k, v in getattr(c, "mandatory", {}).items()},
            "optionals": {k: v.__name__ for k, v in getattr(c, "optionals", {}).items()},
            "params": params,
        }
    json.dump(cmds, open("/verif/ref/command_table_raw.json", "w"), indent=1, sort_keys=True)
    print(len(cmds), "command classes")
main()
