#!/venv/bin/python
"""One-off: ref/command_table.json = hand-verified command code / Application-ID / request flag per typed
command class (RFC 6733, TS 29.272, 29.273, 29.212, 29.214, RFC 4006/8506) joined with the parameter
tables (kind, AVP class) read from the tree at vendoring time.  FROZEN afterwards."""
import json, os, sys, inspect
sys.path.insert(0, "/verif"); sys.path.insert(0, "/repo")
import warnings; warnings.simplefilter("ignore")
from adapters import dictx
APPS = {"gx": 16777238, "gy": 4, "rx": 16777236, "s13": 16777252, "s6a": 16777251, "s6b": 16777272, "swm": 16777264, "swx": 16777265, "rfc6733": 0}
CMD = {"CreditControl": 272, "ReAuth": 258, "AA": 265, "AbortSession": 274, "SessionTermination": 275, "MeIdentityCheck": 324,
       "AuthenticationInformation": 318, "CancelLocation": 317, "Notify": 323, "PurgeUe": 321, "UpdateLocation": 316,
       "DiameterEap": 268, "MultimediaAuth": 303, "RegistrationTermination": 304, "ServerAssignment": 301,
       "CapabilitiesExchange": 257, "DeviceWatchdog": 280, "DisconnectPeer": 282}
out = {}
for c in dictx.command_classes():
    lib = c.__module__.split(".")[2].split("_")[-1]
    base = c.__name__.replace("Request", "").replace("Answer", "")
    req = c.__name__.endswith("Request")
    app = APPS[lib]
    if lib == "rfc6733" and base in ("AbortSession", "ReAuth"):
        app = "arg:auth_application_id" if req else "unset"
    src = inspect.getsource(c.__init__)
    if "application_id=auth_application_id" in src:
        app = "arg:auth_application_id"
    params = {}
    for k, v in c.mandatory.items(): params[k] = {"kind": "mand", "avp": v.__name__}
    for k, v in c.optionals.items(): params[k] = {"kind": "opt", "avp": v.__name__}
    out[lib + "." + c.__name__] = {"cmd": CMD[base], "app": app, "request": req, "params": params}
json.dump(out, open("/verif/ref/command_table.json", "w"), indent=1, sort_keys=True)
print(len(out))
for k, v in out.items():
    if v["app"] not in APPS.values(): print(k, v["app"])
