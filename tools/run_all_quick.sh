#!/bin/bash
# Runs every quick check once on /repo (regenerates /verif/evidence/*.json) and prints a one-line summary per property.
cd "$(dirname "$0")/.."
rc=0
for i in $(seq -w 1 20); do
  c=C$i
  s=$(date +%s)
  out=$(./check $c --tier quick 2>&1)
  r=$?
  echo "$c rc=$r $(( $(date +%s) - s ))s $(echo "$out" | grep "^$c:" | tail -1)"
  echo "$out" | grep -E "^VIOLATION|^MACHINERY|^KNOWN-FINDING" | cut -c1-200
  [ $r -ne 0 ] && rc=1
done
exit $rc
