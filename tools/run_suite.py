#!/venv/bin/python
"""Runs the repository's unedited suite in /repo (or argv[1]) under the port lock and compares with BASELINE.stable_pass."""
import fcntl, json, os, subprocess, sys, xml.etree.ElementTree as ET
tree = sys.argv[1] if len(sys.argv) > 1 else "/repo"
junit = "/tmp/suite_%d.xml" % os.getpid()
with open("/tmp/suite.lock", "w") as lk:
    fcntl.flock(lk, fcntl.LOCK_EX)
    p = subprocess.run(f"cd {tree} && /venv/bin/python -m pytest -ra -q -p no:cacheprovider --timeout=900 --continue-on-collection-errors --junitxml={junit}",
                       shell=True, stdout=subprocess.PIPE, stderr=subprocess.STDOUT, text=True, env=dict(os.environ, PYTHONDONTWRITEBYTECODE="1"))
ok = set()
for tc in ET.parse(junit).getroot().iter("testcase"):
    if not any(ch.tag in ("failure", "error", "skipped") for ch in tc):
        ok.add(f"{tc.get('classname')}::{tc.get('name')}")
base = json.load(open("/root/.vp/BASELINE.json"))
lost = sorted(set(base["stable_pass"]) - ok)
print(p.stdout.strip().splitlines()[-1])
print("stable_pass:", len(base["stable_pass"]), "still passing:", len(set(base["stable_pass"]) & ok), "LOST:", lost[:20])
os.remove(junit)
sys.exit(1 if lost else 0)
