#!/bin/bash
# tools/try_seed.sh <seed-id> [<prop> ...]: the quick check(s) against a scratch worktree with the seeded change applied
sid=$1; shift
props=${@:-${sid%%-*}}
wt=$(mktemp -d /tmp/ts_XXXXXX); rmdir $wt
git -C /repo worktree add -q --detach $wt HEAD || exit 3
if ! git -C $wt apply /verif/seeded/$sid/patch.diff; then echo "patch does not apply"; git -C /repo worktree remove --force $wt; exit 3; fi
cd /verif
for p in $props; do
  VERIF_REPO=$wt ./check $p --tier quick 2>&1 | grep -E "^VIOLATION|^  |^$p:|MACHINERY|KNOWN" | cut -c1-400 | head -8
done
git -C /repo worktree remove --force $wt; rm -rf $wt
