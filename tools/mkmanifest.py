#!/venv/bin/python
"""Regenerates /verif/MANIFEST.json from the table below (single source of truth for the
interface).  Run after adding an adapter:  tools/mkmanifest.py"""
import json
import os
import subprocess

VERIF = os.path.dirname(os.path.dirname(os.path.abspath(__file__)))

# property -> (technique, level text, level note, design ref)
CHECKS = {
    "C18": ("TLA+ operators TbcdEnc/TbcdDec (spec/Types.tla): TLC enumerates all digit strings and emits vectors replayed "
            "on the real functions; recorded behaviours of the real functions validated by TLC",
            "TLC proves round-trip and filler rule on the model for every digit string up to the bound and supplies the "
            "expected encoding of each; the implementation is compared on every one of them (exhaustive to length 5/6) and "
            "TLC validates recorded runs on random 7..20 digit strings.",
            "Trusted: TLC, CommunityModules Json, the 20-line concretisation (digits <-> str, nibbles <-> hex).", "4 C18"),
    "C01": ("TLA+ operators EncAvp/EncMsg (spec/Wire.tla) with model-level theorems (length multiple of 4, Message Length = "
            "size, AVP Length excludes padding); TLC-enumerated content built through the public API four ways and compared "
            "with TLC's bytes; recorded dump() of random content over all dictionary and typed command classes validated by "
            "TLC (EncMsg(content) = bytes)",
            "TLC is the reference encoder: ~3,500 structurally enumerated messages (every type, length residue, vendor, "
            "nesting depth 3/4, repeated names) and random content over all 207 dictionary classes and 50 typed commands.",
            "Trusted: TLC, Json module, ref/avp_dictionary.json (code, vendor, default flags), the concretisation in "
            "adapters/wirex.py. Known finding F-C09-asa-raa-unset-appid is reported, not suppressed beyond its call site.", "4 C01"),
    "C02": ("TLA+ operators DecMsgs / DecodeView / ReDump (spec/Wire.tla) with the known deviation D_Reflag as a named switch; "
            "TLC proves on the model that the deviation-free design re-encodes byte-identically and that D_Reflag does not; "
            "TLC-built wire images decoded by the real loader and compared field by field; recorded decodes of random streams "
            "validated by TLC, which decodes the recorded bytes itself",
            "~7,000 enumerated streams (all header flag bytes, all 128 non-V AVP flag values, every data type, unknown/foreign "
            "keys, nesting, 1..3 messages) and random streams over all 207 classes; the decoder is compared with "
            "Spec({D_Reflag}) so every other difference is reported.",
            "Trusted: TLC, Json module, ref/avp_dictionary.json as the dictionary K, the 15-line generator-side encoder "
            "(its output is re-decoded by TLC; a malformed stream is a machinery error).", "4 C02"),
    "C03": ("TLA+ total decoder DecMsgs / WellFormed (spec/Wire.tla): TLC evaluates it on every small byte string and generates the "
            "structured corruptions (all truncation points, every length field x boundary values, flag flips) of real message "
            "streams with their verdicts; the real decoder runs each under a step bound and must end cleanly; malformed segments "
            "are injected into a live association under the deterministic scheduler (C03b)",
            "Thousands of TLC-generated corruptions plus random garbage/mutations, each decoded within 2000+400n+4n^2 traced lines "
            "with a clean outcome; live-node injection in every connection state.",
            "Trusted: TLC, the line-counting tracer, engine/vsched.py. A clean outcome is a list of messages or an exception class "
            "of bromelia/exceptions.py.", "4 C03"),
    "C04": ("TLA+ spec/RecvPath.tla (network with arbitrary segmentation, transport thread, receive worker with reassembly, state "
            "machine thread, 1..2 consumers; one action per scheduler step) model-checked by TLC: InOrderOnce, PerConsumerOrder, "
            "BaseInOrder, AllDelivered, TerminalOk; three historic deviations shown to violate them; the real node run under a "
            "deterministic scheduler with random / every-single-split / byte-by-byte segmentations and one-preemption sweeps at "
            "opcode and line granularity; recorded executions validated by TLC as behaviours of RecvPath",
            "All segmentations and interleavings of 3 (quick) / 4 (thorough) messages in the model; hundreds/thousands of scheduled "
            "executions of the real threads, every byte split point of a two-message stream, every preemption point of the "
            "transport/worker/consumer/state-machine critical sections against the conflicting operation.",
            "Trusted: TLC, engine/vsched.py (scheduler, fake socket/selector, timer rule), adapters/node.py, the wrappers that "
            "record the data-flow operations. Threads are serialised (GIL semantics) with preemption at synchronisation "
            "operations and, in the named functions, at every line / bytecode.", "4 C04"),
    "C05": ("TLA+ spec/SendPath.tla (submitters, state machine batching, selector hand-off, transport thread with partial writes, "
            "concurrent reads) model-checked by TLC: NoTear, NoDup, InOrder, NoLoss; three historic deviations shown to violate "
            "them; the real node run under a deterministic scheduler (random and PCT schedules, partial-write plans, inbound "
            "traffic, small send buffer) with an end-to-end monitor on the bytes written; recorded executions validated by TLC",
            "All interleavings of 2 submitters x 2 messages x partial writes in the model; hundreds/thousands of scheduled "
            "executions of the real threads with 1..3 submitters.",
            "Trusted: as C04. A write that fails with EAGAIN after the selector reported writable closes the connection in "
            "bromelia; that fault is outside the statement (partial writes are inside).", "4 C05"),
    "C08": ("TLA+ spec/Life.tla (non-atomic teardown by the state machine thread, transport thread, receive worker, consumers "
            "blocked in get_message, application threads calling close() and send_message(), the peer as environment) "
            "model-checked by TLC for both roles: TerminalOk, ClosedIsReleased, NoLockLeak and, under fairness, "
            "EventuallyReleased / CausesEnd; ten deviations shown to violate them; the real node run under a deterministic "
            "scheduler for every cause x point x consumer x role with restart on the same object, and one-preemption sweeps "
            "that generalise TLC's counterexample schedules",
            "Every interleaving of the teardown with 2 consumers in the model (3.5M states per role in the thorough tier); every "
            "termination cause at every point of the connection life on the real threads; every line-level preemption point of "
            "the worker / consumer / state machine thread against the rest of the teardown.",
            "Trusted: as C04. A close() issued before the connection is Open only clears a flag that the capabilities exchange "
            "sets again (the connection does not end): outside the statement.", "4 C08"),
    "C06": ("TLA+ state machine spec/Psm.tla (one action per tick + environment events, including the send queue with its batching "
            "rule and application submissions) model-checked by TLC for both roles until the reachable set closes: 13 action "
            "properties + ClosedImpliesReleased; five historic deviations shown to violate "
            "them; the dumped state graph covered by edge-covering tours on the real threaded node under a deterministic "
            "scheduler (state machine thread advanced tick by tick), projection compared with TLC successors after every step; "
            "spec/Pair.tla composes a client and a server instance through two channels, is model-checked (agreement of the two "
            "ends, both open, a stop closes both) and toured on two real nodes in one scheduler",
            "Every (state, event) group of the closed model (all 14 message values, local stop, peer disconnect, idle timeout, "
            "connect ack/nack, application submissions building a backlog, restart) is executed on a real Diameter object with all "
            "its threads.",
            "Trusted: TLC, engine/vsched.py (scheduler, fake socket/selector, timer rule), adapters/node.py. Receive queue bound "
            "1 (quick) / 2 (thorough) for the toured graph; bound 2 model-checked in both tiers.", "4 C06"),
    "C07": ("Same specification and binding as C06 (spec/Psm.tla, property AnswersEcho and per-step output), configured with two "
            "identifier values mapped to boundary Hop-by-Hop/End-to-End pairs, receive queue 2, a backlog of up to two application "
            "batches in the send queue, restart on the same node object; "
            "emitted CEA/DWA/DPA decoded from the bytes written to the fake socket",
            "Back-to-back answerable requests with different identifiers, mixed with application traffic, in every state that "
            "answers them, across reconnects; quick tier tours 2500 steps per role, thorough tier the whole graph.",
            "Trusted: as C06.", "4 C07"),
    "C09": ("TLA+ operator Build over the typed command table (spec/Dict.tla); TLC enumerates argument subsets per class "
            "and checks table invariants; real constructors driven with in-domain values and compared; recorded random "
            "constructions validated by TLC",
            "Every typed command class x {no optional, each single optional, pairs, all, each mandatory omitted} x 0..2 extra "
            "AVPs, compared on header, AVP class order, carried values and serialise/decode round trip.",
            "Trusted: TLC, ref/command_table.json (hand-verified command codes / Application-IDs; parameter kinds frozen "
            "from the pinned tree), the type-driven value generator.", "4 C09"),
    "C10": ("TLA+ table invariants of spec/Dict.tla evaluated by TLC over five dictionary tables extracted on every run (tree, "
            "frozen reference, docs, definitions.py, decode dispatch); TLA+ operators Construct_* (spec/Types.tla) enumerated by "
            "TLC into in/out-of-domain vectors applied to every class of each type; recorded random constructions validated by TLC",
            "Function-ness of (vendor, code), V flag rule, agreement of all published tables and dispatch for all 207 classes; "
            "every class of every data type against width / membership / family / scheme / mandatory-member vectors.",
            "Trusted: TLC, Json module, ref/avp_dictionary.json (vendored from the pinned tree, cross-read with the docs table), "
            "the concretisation of abstract inputs. A rejected in-domain value is a recorded non-property difference (the "
            "statement allows failing with an exception).", "4 C10"),
    "C11": ("TLA+ state machine spec/Message.tla (ordered list + name map + Message Length) model-checked exhaustively by TLC "
            "(invariants Coherent, NoDup; action property OrderPreserved; four historic deviations shown to violate Coherent); "
            "implementation-driven walk of the dumped state graph on real DiameterMessage objects (3 flavours) and a real "
            "Grouped AVP; TLC trace validation of random 40-step operation sequences recorded from real messages",
            "Every (implementation-reached state, operation) group of the closed bounded model is executed on the real objects "
            "(all histories within the bound), and random longer histories are validated step by step by TLC.",
            "Trusted: TLC, the 150-line adapter (object identity map, key <-> name parsing). Bound: 5 objects, list length 2 "
            "(quick) / 3 (thorough) for the walk; 8 objects, length 6 for traces.", "4 C11"),
    "C12": ("TLA+ operators Decorate / SentOk (spec/Answer.tla, error-flag rule from Types.Family); TLC proves SentOk(Decorate) on the "
            "enumerated universe and emits expected sent answers; real request/answer objects of every typed class pair pushed "
            "through decorate_answer and through the real callback_route onto an in-process worker's send queue; recorded random "
            "pairs validated by TLC",
            "Every Result-Code constant of the library plus family boundaries x {Result-Code, Experimental-Result, both} x request "
            "Session-Id absent / every length residue x boundary identifiers, rotating over all typed request/answer pairs.",
            "Trusted: TLC, Json module, the builders of real request/answer objects. The handler's answer starts with the E flag "
            "clear; with Experimental-Result only (no Result-Code sent) the flag is not constrained.", "4 C12"),
    "C13": ("TLA+ state machine spec/Router.tla model-checked by TLC over all route tables (2 applications x 2 command codes) and "
            "request sequences (RightHandler, ExactlyOneAnswer, FallbackRule); every TLC-enumerated scenario executed on a real "
            "Bromelia object with real route registration and callback_route; recorded random scenarios validated by TLC",
            "All 15 route tables x all request sequences up to length 2/3 x 4 handler outcomes: which handler ran, what reached the "
            "worker's send queue, and the identity of the fallback answer.",
            "Trusted: TLC, the in-process worker (real Worker objects on threading primitives, barrier waits short-circuited to the "
            "timeout branch they always take below 40 parties).", "4 C13"),
    "C14": ("TLA+ state machine spec/Pending.tla (caller / dispatcher / two-event rendezvous) model-checked by TLC for 2..3 callers "
            "with answers arriving at any point and optionally repeated: OwnAnswer, NoLostWake, deadlock freedom, <>AllReturn "
            "under fairness; the pinned queue-then-register order shown to violate NoLostWake; real send_message / "
            "handler_pending_answers run under a deterministic scheduler with monitors; every recorded execution validated by TLC "
            "as a behaviour of the specification",
            "All interleavings of the rendezvous for 2..3 callers in the model; hundreds/thousands of seeded schedules of the real "
            "code with yield points at every queue, registry and event operation, each trace accepted by TLC.",
            "Trusted: TLC, engine/vsched.py (scheduler and doubles), the traced registry/event wrappers. Threads are serialised "
            "(GIL semantics).", "4 C14"),
    "C15": ("TLA+ spec/Ids.tla: operator Run (sequential draw-until-unused) enumerated by TLC over creation histories x all outputs of "
            "a 3-valued random source and replayed with a scripted os.urandom; state machine of the concurrent draw/test/append "
            "protocol model-checked (Distinct, Mutex; lock-free variant violates Distinct); real constructors run in 2..3 threads "
            "under a deterministic scheduler with an adversarial source; recorded executions validated by TLC",
            "Every history of length <= 3/4 x every source output of length 5/6; all interleavings of the protocol for 2..3 "
            "threads in the model; 300/6000 scheduled executions with yield points at every draw, membership test and append "
            "(plus bytecode-level preemption in the thorough tier).",
            "Trusted: TLC, engine/vsched.py, the substituted random source and registry lists.", "4 C15"),
    "C16": ("TLA+ state machine spec/Session.tla model-checked by TLC (Unique, Counted; the historic reset-on-switch deviation is shown "
            "to violate them); every TLC-enumerated operation sequence executed on the real generator under a controlled clock; "
            "recorded histories validated by TLC",
            "All 7^5 / 7^6 sequences over NewSession/Reoriginate/Tick for two identities through three generation routes and bulk "
            "origin update, plus long random histories with many generations per clock second.",
            "Trusted: TLC, the controlled clock substituted for bromelia._internal_utils.datetime, the Session-Id parser.", "4 C16"),
    "C17": ("TLA+ operator Family (long division of the 4-byte word, spec/Types.tla) cross-checked on the model against n div 1000 "
            "for all n in 0..65535; TLC-generated vectors replayed on the integer and answer-object predicates; recorded "
            "predicate results on random 32-bit words validated by TLC",
            "Exhaustive over all 65536 16-bit codes plus boundary 32-bit words through all ten predicates; random 32-bit "
            "words checked against the specification by TLC.",
            "Trusted: TLC, Json module, the construction of a DiameterAnswer carrying ResultCodeAVP(word).", "4 C17"),
    "C19": ("TLA+ operators Outcome / YamlConfigs (spec/Config.tla) over abstract value classes; TLC proves order-independence on the "
            "model and enumerates configurations and YAML spec lists with their expected results; each is concretised and run "
            "through _convert_config_to_connection_obj, Diameter(config=...) and _convert_file_to_config; recorded random "
            "configurations and YAML conversions validated by TLC",
            "Every key x every abstract value class (single and double deviations), unknown key at every position, rotations / "
            "transpositions / reversal of key order; all YAML lists of 1..2/3 entries over mode/transport spellings.",
            "Trusted: TLC, Json module, the concrete representatives chosen per abstract value class.", "4 C19"),
    "C20": ("TLA+ operators BitTest/BitSet/BitClear, AddressData, TimeWord (spec/Types.tla) with model-level theorems "
            "(set/clear inverse, single-bit effect, byte arithmetic = integer arithmetic); TLC-generated vectors replayed on "
            "every Unsigned32/Address/Time class; recorded accessor behaviour on random inputs validated by TLC",
            "Every (boundary word, bit -1..32) pair, structured IPv4/IPv6 literals in three textual forms and instants at "
            "every byte boundary of the seconds counter, on every class of the type found in the live tree.",
            "Trusted: TLC, Json module, Python's datetime/ipaddress used by the harness to build literals and instants. "
            "Framed-IP-Address (RFC 7155: 4 packed octets, no family code) is specified as its own format PackedV4.", "4 C20"),
}

ALL = ["C%02d" % i for i in range(1, 21)]


# additions of the third round (appended to the technique / level text of the table above)
CONC = ("; the function is also executed by two threads at once under the deterministic scheduler (spec/Cache.tla shows the class of defects: "
        "a shared cache or lazily built table filled in several steps), one preemption at every source line, each execution in a child forked "
        "from the untouched process")
ADDENDA = {
    "C01": ("; two more build routes: the content set over an earlier one with repeated names (avps setter, cleanup + extend), Grouped AVPs serialised and measured while they grow", ""),
    "C02": (CONC + " (plus PCT schedules with two preemptions); the well-formed vectors again after 135 streams refused inside Grouped AVPs", ""),
    "C03": ("; live injections include runaway Grouped nesting, V-bit flips on addressing AVPs and another vendor's AVP under a base-protocol code", ""),
    "C06": ("; spec/Validate.tla (the validators' verdict) over every single and double mutation of each base message, including vendor-specific "
            "AVPs under base-protocol codes, with theorems OnlyPeer / NoForeignIdentity and the historic count-only verdict as vacuity self-test; "
            "a DPA is injected in both forms (Closing leaves on any DPA)", ""),
    "C07": ("; two node objects with different identities in one scheduler (templates belong to a node object); the application submitting "
            "messages in the middle of the tick that answers a DWR (sweep over the source lines of the tick)", ""),
    "C08": ("; 'Closed implies the transport has been released' is evaluated after every scheduler step; unusual DPAs (E bit, no Result-Code) after a local close", ""),
    "C09": ("; NAI user names, extra AVPs of an unknown vendor under base-protocol codes", ""),
    "C10": ("; Grouped lists with a repeated mandatory member and the others absent; text around a DiameterURI; zero-length data is not replaced by a class default" + CONC, ""),
    "C11": ("; bulk operations refused part-way (an element that is not an AVP); a bulk update that fails at a later key", ""),
    "C12": ("; Decorate / SentOk now range over EVERY answer a route function may return (no Session-Id of its own, E flag already set)" + CONC, ""),
    "C13": ("; whole-stack stage (spec/Stack.tla: peer -> connection -> Worker.recv_handler -> Bromelia.main -> per-message threads -> "
            "Worker.set_outgoing_message / send_handler -> connection -> peer; model-checked with liveness, deviations D_NoSendLock and "
            "D_QueueBeforeRegister as vacuity self-test): a real node + the library's Worker loops + Bromelia.main under the scheduler with "
            "end-to-end monitors (exactly one answer per peer request ON THE WIRE), every execution validated by TLC (Trace_Stack); answers built "
            "for another application must leave on the request's connection",
            " Whole stack: Stack.tla for 1-2 callers x 1-2 peer requests; 60 (quick) / 1500 (thorough) scheduled executions, each trace-validated."),
    "C14": ("; Resend.tla extended with a repeated first answer (Dup) and unregistration by identity (PopByIdentity; by key is the tree before "
            "F-C14-pop-by-key), sweep over the repeated answer's dispatcher; answers without a Result-Code; a repeated answer while the same "
            "Hop-by-Hop is outstanding on another interface; spec/Nested.tla (route functions waiting for nested answers through the main loop, "
            "no limit on message threads; a limit deadlocks) bound by 90 such route functions on the real main loop; whole-stack stage (spec/Stack.tla, Trace_Stack) as in C13 with local callers in every execution",
            " Whole stack: Stack.tla with liveness; 60 / 1500 executions trace-validated."),
    "C15": ("; Ids.tla extended with constructions that fail after their draws (IdAbort; deviation ReleaseLast; invariant Registered); after every "
            "concurrent execution the source repeats every identifier handed out; block reads of the random source are honoured by the doubles", ""),
    "C16": ("; Apalache: an inductive invariant of SessionConc (spec/Apa_SessionConc.tla) for arbitrary counter values and any number of generations; spec/SessionConc.tla (concurrent generation: load / store / read of the counter, UseLock) model-checked, and two threads generating "
            "Session-Ids at the same time with one preemption at every source line of the generator (forked children, the library's locks virtualised)", ""),
    "C17": (CONC + "; another vendor's AVP with code 268 next to the Result-Code (built and decoded)", ""),
    "C18": (CONC + " (both threads doing the first TBCD call of their process)", ""),
    "C20": ("; a rejected bit operation changes nothing (word, serialisation, later accessor results)" + CONC + "; timezone-aware datetimes (refused, or the instant's seconds)", ""),
    "C19": (CONC + "; identities with capital letters; YAML lists with an entry that cannot be converted", ""),
    "C04": ("; 'slow network' scenarios: pauses longer than every timeout of the node's threads between two segments", ""),
    "C05": ("; sweep of an application thread submitting against the state machine thread's sending tick", ""),
}
for _p, (_t, _l) in ADDENDA.items():
    if _p in CHECKS:
        t, text, note, ref = CHECKS[_p]
        CHECKS[_p] = (t + _t, text + _l, note, ref)


def main():
    hooks_commits = []
    checks = []
    for pid in ALL:
        if pid not in CHECKS:
            continue
        tech, text, note, ref = CHECKS[pid]
        checks.append({
            "property_id": pid,
            "quick_cmd": f"./check {pid} --tier quick",
            "thorough_cmd": f"./check {pid} --tier thorough",
            "evidence_file": f"/verif/evidence/{pid}.json",
            "replay_cmd_template": f"./check {pid} --replay {{path}}",
            "engine": "tlc-bound",
            "level_claimed": {"category": "model_checking", "text": text, "design_ref": "DESIGN.md section " + ref},
            "level_note": note,
            "technique": tech,
        })
    na = [{"property_id": p, "reason": "check not built yet (work in progress; see DESIGN.md section 8)"}
          for p in ALL if p not in CHECKS]
    m = {
        "version": 1,
        "setup_cmd": "./setup.sh",
        "hooks": {
            "guard": "BROMELIA_VERIF",
            "enable": "no source hooks: the harness substitutes threading/queue/time/selectors/socket/os.urandom inside "
                      "the bromelia modules at run time (engine/vsched.py); BROMELIA_VERIF is reserved and unused",
            "baseline_off_cmd": "cd /repo && /venv/bin/python -m pytest -ra -q -p no:cacheprovider --timeout=900 "
                                "--continue-on-collection-errors",
            "source_commits": hooks_commits,
            "add_only": True,
        },
        "engines": [
            {"name": "tlc-bound", "path": "/verif/engine",
             "serves_properties": [c["property_id"] for c in checks],
             "kind_free_text": "TLA+ specification in /verif/spec checked with TLC; bound to the code by vectors and "
                               "graph walks generated by TLC (spec -> code), schedule replay of TLC behaviours under a "
                               "deterministic scheduler, and TLC validation of traces recorded from the real code"},
            {"name": "apalache-inductive", "path": "/verif/engine/apalache.py", "serves_properties": ["C16"],
             "kind_free_text": "Apalache symbolic check of an inductive invariant (spec/Apa_SessionConc.tla): the unbounded complement of "
                               "TLC's bounded exploration of SessionConc.tla"},
        ],
        "checks": checks,
        "not_applicable": na,
        "notes": "One TLA+ specification (spec/*.tla). See DESIGN.md. fix: commits in /repo are listed in known_findings.json.",
    }
    with open(os.path.join(VERIF, "MANIFEST.json"), "w") as f:
        json.dump(m, f, indent=1)
        f.write("\n")
    # validate
    p = subprocess.run(["python3-vt", "-c", """
import json, jsonschema
jsonschema.validate(json.load(open('/verif/MANIFEST.json')), json.load(open('/root/.vp/MANIFEST.schema.json')))
print('MANIFEST ok')
"""], capture_output=True, text=True)
    print(p.stdout, p.stderr)


if __name__ == "__main__":
    main()
