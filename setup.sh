#!/bin/sh
# Offline set-up: nothing is installed.  Parses every specification module with SANY and
# checks that the Python engine imports under /venv/bin/python.
set -e
cd "$(dirname "$0")"
mkdir -p .work evidence replays
rc=0
for f in spec/*.tla; do
  case "$(basename "$f")" in
    Apa_*)
      # Apalache wrappers EXTEND the Apalache module (inside Apalache's own jar): they are type-checked by apalache-mc
      rm -rf .work/apa-setup && mkdir -p .work/apa-setup && cp spec/*.tla .work/apa-setup/
      out=$(cd .work/apa-setup && timeout 300 apalache-mc typecheck --out-dir=out "$(basename "$f")" 2>&1) || true
      rm -rf .work/apa-setup
      if ! echo "$out" | grep -q "Type checker \[OK\]"; then
        echo "APALACHE TYPECHECK FAILED: $f"; echo "$out" | tail -20; rc=2
      fi
      continue;;
  esac
  out=$(cd spec && java -cp /opt/veriftools/tla/tla2tools.jar:/opt/veriftools/tla/CommunityModules-deps.jar tla2sany.SANY "$(basename "$f")" 2>&1) || true
  if echo "$out" | grep -q -e "Semantic errors" -e "Parse Error" -e "Fatal errors" -e "\*\*\* Errors"; then
    echo "SANY FAILED: $f"; echo "$out" | tail -20; rc=2
  fi
done
PYTHONDONTWRITEBYTECODE=1 /venv/bin/python -c "
import sys; sys.path.insert(0, '/verif')
import engine.tlc, engine.tlaval, engine.vectors, engine.report
print('engine ok')
" || rc=2
exit $rc
