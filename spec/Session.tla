------------------------------ MODULE Session ------------------------------
(***************************************************************************)
(* Session-Id generation (bromelia/_internal_utils.py SessionHandler, used  *)
(* by SessionIdAVP / AcctMultiSessionIdAVP given an identity string, by     *)
(* typed messages, and by DiameterMessage.update_avps when the origin host  *)
(* is re-assigned).  RFC 6733 8.8: <identity>;<high 32>;<low 32>[;<opt>].   *)
(*                                                                         *)
(* State: the process clock (whole seconds), the (high, low) pair of the   *)
(* generator and the set of ids issued so far.  An id is <<identity, high,  *)
(* low>>.  Actions:                                                        *)
(*   NewSession(i)      -- an AVP / typed message created from identity i  *)
(*   Reoriginate(p, i)  -- bulk origin update of a message whose current   *)
(*                         Session-Id belongs to identity p, to identity i *)
(*   Tick               -- a second passes                                 *)
(* Intended design: high is fixed when the process starts, low counts      *)
(* every generation.  Deviation D_ResetOnSwitch (pinned tree, repaired):   *)
(* a re-origination that switches identity resets high to the clock and    *)
(* low to 0.                                                               *)
(* Decides C16.                                                            *)
(***************************************************************************)
EXTENDS Naturals, FiniteSets, Sequences, TLC

CONSTANTS Identities, MaxClock, MaxGen, Deviations

VARIABLES clock, high, low, issued, last, ngen
vars == <<clock, high, low, issued, last, ngen>>

None == <<"none", 0, 0>>
Init == clock = 0 /\ high = 0 /\ low = 0 /\ issued = {} /\ last = None /\ ngen = 0

Issue(i, h, l) == /\ last' = <<i, h, l>> /\ issued' = issued \cup {<<i, h, l>>} /\ ngen' = ngen + 1

NewSession(i) == /\ ngen < MaxGen
                 /\ low' = low + 1 /\ UNCHANGED <<high, clock>>
                 /\ Issue(i, high, low + 1)

Reoriginate(p, i) == /\ ngen < MaxGen
                     /\ IF "D_ResetOnSwitch" \in Deviations /\ p # i
                        THEN high' = clock /\ low' = 0 /\ Issue(i, clock, 0)
                        ELSE low' = low + 1 /\ UNCHANGED high /\ Issue(i, high, low + 1)
                     /\ UNCHANGED clock

Tick == clock < MaxClock /\ clock' = clock + 1 /\ UNCHANGED <<high, low, issued, last, ngen>>

Next == (\E i \in Identities : NewSession(i)) \/ (\E p, i \in Identities : Reoriginate(p, i)) \/ Tick
Spec == Init /\ [][Next]_vars

\* C16: every generated id is new and starts with the identity it was generated for
Unique == [][(ngen' = ngen + 1) => last' \notin issued]_vars
Counted == Cardinality(issued) = ngen

\* the property on a recorded history of generated ids (used to validate traces of the real code):
\* gens is a sequence of [identity, out = <<identity, high, low>>, wf]
HistoryOk(gens) == /\ \A k \in 1..Len(gens) : gens[k].wf /\ gens[k].out[1] = gens[k].identity
                   /\ Cardinality({gens[k].out : k \in 1..Len(gens)}) = Len(gens)      \* pairwise distinct
\* the intended design's prediction for the same history (start at clock c0)
Predicted(gens, c0) == [k \in 1..Len(gens) |-> <<gens[k].identity, c0, k>>]
=============================================================================
