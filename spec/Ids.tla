-------------------------------- MODULE Ids --------------------------------
(***************************************************************************)
(* Request identifiers (bromelia/base.py DiameterRequest: draw-until-unused *)
(* over the process-wide registries hop_by_hop_identifiers and              *)
(* end_to_end_identifiers).  Threads create requests concurrently; the      *)
(* random source is the environment and may return any value of Vals, with  *)
(* repeats.                                                                 *)
(*                                                                         *)
(* One action per code block between two observable operations:            *)
(*   IdLock(t) IdDraw(t, v) IdTest(t) IdAppend(t) IdUnlock(t)                         *)
(* for the Hop-by-Hop registry first, then the End-to-End registry.         *)
(* UseLock = TRUE is the design (draw/test/append under one class-level     *)
(* lock); UseLock = FALSE is the historic deviation (test-then-append not   *)
(* atomic), kept to show that Distinct is not vacuous.                      *)
(* Decides C15b; the sequential part (C15a) is operator Create.             *)
(***************************************************************************)
EXTENDS Naturals, Sequences, FiniteSets, TLC

CONSTANTS Threads, Vals, UseLock, Failing, ReleaseLast

\* A construction may fail after its identifiers were drawn (an invalid command code or Application-ID is only noticed when
\* the header is built).  Failing: the threads whose construction fails.  The design leaves the two identifiers registered
\* (burnt, never handed out again).  ReleaseLast = TRUE is a deviation that "gives them back" by popping the LAST entry of each
\* registry, which need not be the failing thread's own: a request created in between loses its registration and its
\* identifier can be drawn again.  (Failing = {} and ReleaseLast = FALSE give the plain protocol.)

Regs == <<"hbh", "e2e">>
VARIABLES pc, reg, val, issued, owner, result
vars == <<pc, reg, val, issued, owner, result>>

NoVal == 0        \* threads and values are positive integers
Init == /\ pc = [t \in Threads |-> IF UseLock THEN "lock" ELSE "draw"]
        /\ reg = [t \in Threads |-> 1]
        /\ val = [t \in Threads |-> NoVal]
        /\ issued = [r \in {"hbh", "e2e"} |-> <<>>]
        /\ owner = NoVal
        /\ result = [t \in Threads |-> [r \in {"hbh", "e2e"} |-> NoVal]]

InSeq(v, s) == \E i \in 1..Len(s) : s[i] = v

IdLock(t) == /\ pc[t] = "lock" /\ owner = NoVal
           /\ owner' = t /\ pc' = [pc EXCEPT ![t] = "draw"]
           /\ UNCHANGED <<reg, val, issued, result>>
IdDraw(t, v) == /\ pc[t] = "draw"
              /\ val' = [val EXCEPT ![t] = v] /\ pc' = [pc EXCEPT ![t] = "test"]
              /\ UNCHANGED <<reg, issued, owner, result>>
IdTest(t) == /\ pc[t] = "test"
           /\ pc' = [pc EXCEPT ![t] = IF InSeq(val[t], issued[Regs[reg[t]]]) THEN "draw" ELSE "append"]
           /\ UNCHANGED <<reg, val, issued, owner, result>>
IdAppend(t) == /\ pc[t] = "append"
             /\ issued' = [issued EXCEPT ![Regs[reg[t]]] = Append(@, val[t])]
             /\ result' = [result EXCEPT ![t][Regs[reg[t]]] = val[t]]
             /\ pc' = [pc EXCEPT ![t] = IF UseLock THEN "unlock" ELSE IF reg[t] = 1 THEN "draw" ELSE "done"]
             /\ reg' = [reg EXCEPT ![t] = IF UseLock THEN @ ELSE IF @ = 1 THEN 2 ELSE @]
             /\ UNCHANGED <<val, owner>>
IdUnlock(t) == /\ pc[t] = "unlock" /\ owner = t
             /\ owner' = NoVal
             /\ pc' = [pc EXCEPT ![t] = IF reg[t] = 1 THEN "lock" ELSE "done"]
             /\ reg' = [reg EXCEPT ![t] = IF @ = 1 THEN 2 ELSE @]
             /\ UNCHANGED <<val, issued, result>>

\* the construction of a failing thread raises once both identifiers are drawn: no request exists
DropLast(q) == IF q = <<>> THEN q ELSE SubSeq(q, 1, Len(q) - 1)
IdAbort(t) == /\ t \in Failing /\ pc[t] = "done"
              /\ pc' = [pc EXCEPT ![t] = "aborted"]
              /\ result' = [result EXCEPT ![t] = [r \in {"hbh", "e2e"} |-> NoVal]]
              /\ issued' = IF ReleaseLast THEN [r \in {"hbh", "e2e"} |-> DropLast(issued[r])] ELSE issued
              /\ UNCHANGED <<reg, val, owner>>

Next == \E t \in Threads : IdLock(t) \/ (\E v \in Vals : IdDraw(t, v)) \/ IdTest(t) \/ IdAppend(t) \/ IdUnlock(t) \/ IdAbort(t)
Spec == Init /\ [][Next]_vars

NoDupSeq(s) == \A i, j \in 1..Len(s) : s[i] = s[j] => i = j
\* (a failing thread counts while it still holds its identifiers: pc = "done" is the moment before the exception)
Distinct == /\ \A r \in {"hbh", "e2e"} : NoDupSeq(issued[r])
            /\ \A t, u \in Threads, r \in {"hbh", "e2e"} :
                  (t # u /\ result[t][r] # NoVal /\ result[u][r] # NoVal) => result[t][r] # result[u][r]
\* an identifier of a request that exists stays registered for ever
Registered == \A t \in Threads, r \in {"hbh", "e2e"} :
                  (result[t][r] # NoVal /\ (pc[t] \in {"done", "aborted"} \/ (r = "hbh" /\ reg[t] = 2))) => InSeq(result[t][r], issued[r])
Mutex == UseLock => \A t \in Threads : pc[t] \in {"draw", "test", "append", "unlock"} => owner = t

(***************************************************************************)
(* Sequential creation histories (C15a).  A history is a sequence of        *)
(* operations "req" (request without header), "ans" (answer), "hdr"         *)
(* (request from an explicit header), "ansh" / "reqh" (answer / request     *)
(* built from the header of the latest request, as the error-answer path    *)
(* does); src is the sequence of values the                                 *)
(* random source will return.  Run(ops, src) is the sequence of            *)
(* [op, hbh, e2e, draws] the library must produce, where hbh/e2e are        *)
(* positions in src (0 = no identifier drawn).                              *)
(***************************************************************************)
RECURSIVE FirstUnused(_, _, _)
\* index of the first value of src at or after position p that is not in used; 0 if src is exhausted
FirstUnused(src, p, used) == IF p > Len(src) THEN 0
                             ELSE IF src[p] \notin used THEN p ELSE FirstUnused(src, p + 1, used)
RECURSIVE RunFrom(_, _, _, _, _)
RunFrom(ops, src, p, usedH, usedE) ==
    IF ops = <<>> THEN <<>>
    ELSE IF Head(ops) # "req" THEN <<[op |-> Head(ops), hbh |-> 0, e2e |-> 0, next |-> p]>> \o RunFrom(Tail(ops), src, p, usedH, usedE)
    ELSE LET h == FirstUnused(src, p, usedH)
             e == IF h = 0 THEN 0 ELSE FirstUnused(src, h + 1, usedE)
         IN IF h = 0 \/ e = 0 THEN <<[op |-> "req", hbh |-> h, e2e |-> e, next |-> 0]>>       \* source exhausted: stop
            ELSE <<[op |-> "req", hbh |-> h, e2e |-> e, next |-> e + 1]>>
                 \o RunFrom(Tail(ops), src, e + 1, usedH \cup {src[h]}, usedE \cup {src[e]})
Run(ops, src) == RunFrom(ops, src, 1, {}, {})
=============================================================================
