------------------------------ MODULE SendPath ------------------------------
(***************************************************************************)
(* The outbound path of a connection (bromelia/setup.py                     *)
(* put_message_into_send_queue / send_message_from_queue, bromelia/          *)
(* transport.py _run / _absorb_attached_stream / write / _write /            *)
(* _set_selector_events_mask), as repaired: the byte stream is handed from   *)
(* the state machine thread to the transport thread through the *data* of    *)
(* the selector registration, which is an accumulator protected by the       *)
(* transport lock.                                                           *)
(*                                                                         *)
(* Threads: submitters (application threads), psm (state machine thread,     *)
(* flushing the send queue), tr (transport thread).  One action per          *)
(* scheduler step: the announced synchronisation / IO operation plus the      *)
(* local code up to the next one.  A message m is the unit sequence           *)
(* <<m,1>>, <<m,2>>; partial socket writes accept any non-empty prefix of     *)
(* the send buffer.                                                          *)
(*                                                                         *)
(* Deviations (the pinned tree's behaviour, shown to break the invariants):  *)
(*   D_DowngradeDrops   the downgrade to READ is unconditional and drops a   *)
(*                      stream attached meanwhile (loss)                     *)
(*   D_Reabsorb         the attached stream is not cleared when taken over   *)
(*                      (duplication / tearing)                              *)
(*   D_RequeueBehind    a message that does not fit the batch is re-queued   *)
(*                      behind later ones (order); an oversized one never    *)
(*                      leaves                                               *)
(* Decides C05.                                                             *)
(***************************************************************************)
EXTENDS Naturals, Sequences, FiniteSets, SequencesExt, TLC

CONSTANTS Subs,          \* submitters, e.g. {1, 2}
          PerSub,        \* messages per submitter
          Batch,         \* send buffer limit in units (a message has 2 units)
          MaxPartial,    \* number of partial socket writes
          Inbound,       \* number of inbound segments (read events interleave)
          Deviations

MsgOf(s, k) == s * 10 + k                       \* k-th message of submitter s
Units(m) == <<<<m, 1>>, <<m, 2>>>>
RECURSIVE Flat(_)
Flat(ms) == IF ms = <<>> THEN <<>> ELSE Units(Head(ms)) \o Flat(Tail(ms))

VARIABLES sendQ, alock, tlock, regEv, regData, ds, sb, queued, out, inAvail, partialLeft,
          spc, snext,            \* submitters: program counter, next message index
          ppc, pstream,          \* psm: program counter, local stream
          tpc, tmask             \* transport: program counter, event mask being handled
vars == <<sendQ, alock, tlock, regEv, regData, ds, sb, queued, out, inAvail, partialLeft, spc, snext, ppc, pstream, tpc, tmask>>

Free == 0
Init == /\ sendQ = <<>> /\ alock = Free /\ tlock = Free
        /\ regEv = "r" /\ regData = <<>> /\ ds = <<>> /\ sb = <<>> /\ queued = FALSE /\ out = <<>>
        /\ inAvail = Inbound /\ partialLeft = MaxPartial
        /\ spc = [s \in Subs |-> "acq"] /\ snext = [s \in Subs |-> 1]
        /\ ppc = "idle" /\ pstream = <<>>
        /\ tpc = "select" /\ tmask = {}

(* ---- submitter s: put_message_into_send_queue *)
SAcq(s) == /\ spc[s] = "acq" /\ snext[s] <= PerSub /\ alock = Free
           /\ alock' = s /\ spc' = [spc EXCEPT ![s] = "put"]
           /\ UNCHANGED <<sendQ, tlock, regEv, regData, ds, sb, queued, out, inAvail, partialLeft, snext, ppc, pstream, tpc, tmask>>
SPut(s) == /\ spc[s] = "put"
           /\ sendQ' = Append(sendQ, MsgOf(s, snext[s])) /\ spc' = [spc EXCEPT ![s] = "rel"]
           /\ UNCHANGED <<alock, tlock, regEv, regData, ds, sb, queued, out, inAvail, partialLeft, snext, ppc, pstream, tpc, tmask>>
SRel(s) == /\ spc[s] = "rel"
           /\ alock' = Free /\ snext' = [snext EXCEPT ![s] = @ + 1] /\ spc' = [spc EXCEPT ![s] = "acq"]
           /\ UNCHANGED <<sendQ, tlock, regEv, regData, ds, sb, queued, out, inAvail, partialLeft, ppc, pstream, tpc, tmask>>

(* ---- psm: Open.run sees a non-empty send queue and calls send_message_from_queue *)
PSM == 100
PAcq == /\ ppc = "idle" /\ sendQ # <<>> /\ alock = Free
        /\ alock' = PSM /\ ppc' = "drain" /\ pstream' = <<>>
        /\ UNCHANGED <<sendQ, tlock, regEv, regData, ds, sb, queued, out, inAvail, partialLeft, spc, snext, tpc, tmask>>
\* take the head of the queue if it fits the batch (the first message always goes)
Fits == pstream = <<>> \/ Len(pstream) + 2 <= Batch
PTake == /\ ppc = "drain" /\ sendQ # <<>> /\ Len(pstream) <= Batch
         /\ IF Fits
            THEN /\ pstream' = pstream \o Units(Head(sendQ)) /\ sendQ' = Tail(sendQ) /\ UNCHANGED ppc
            ELSE IF "D_RequeueBehind" \in Deviations
                 THEN /\ sendQ' = Append(Tail(sendQ), Head(sendQ)) /\ ppc' = "attach" /\ UNCHANGED pstream
                 ELSE /\ ppc' = "attach" /\ UNCHANGED <<sendQ, pstream>>
         /\ UNCHANGED <<alock, tlock, regEv, regData, ds, sb, queued, out, inAvail, partialLeft, spc, snext, tpc, tmask>>
PDone == /\ ppc = "drain" /\ (sendQ = <<>> \/ Len(pstream) > Batch)
         /\ ppc' = "attach"
         /\ UNCHANGED <<sendQ, alock, tlock, regEv, regData, ds, sb, queued, out, inAvail, partialLeft, spc, snext, pstream, tpc, tmask>>
\* _set_selector_events_mask("rw", stream): under the transport lock, append to what is attached
PTLock == /\ ppc = "attach" /\ pstream # <<>> /\ tlock = Free
          /\ tlock' = PSM /\ ppc' = "modify"
          /\ UNCHANGED <<sendQ, alock, regEv, regData, ds, sb, queued, out, inAvail, partialLeft, spc, snext, pstream, tpc, tmask>>
PModify == /\ ppc = "modify"
           /\ regEv' = "rw" /\ regData' = regData \o pstream /\ ppc' = "trel"
           /\ UNCHANGED <<sendQ, alock, tlock, ds, sb, queued, out, inAvail, partialLeft, spc, snext, pstream, tpc, tmask>>
PTRel == /\ ppc = "trel" /\ tlock' = Free /\ ppc' = "arel"
         /\ UNCHANGED <<sendQ, alock, regEv, regData, ds, sb, queued, out, inAvail, partialLeft, spc, snext, pstream, tpc, tmask>>
PSkip == /\ ppc = "attach" /\ pstream = <<>> /\ ppc' = "arel"
         /\ UNCHANGED <<sendQ, alock, tlock, regEv, regData, ds, sb, queued, out, inAvail, partialLeft, spc, snext, pstream, tpc, tmask>>
PARel == /\ ppc = "arel" /\ alock' = Free /\ ppc' = "idle" /\ pstream' = <<>>
         /\ UNCHANGED <<sendQ, tlock, regEv, regData, ds, sb, queued, out, inAvail, partialLeft, spc, snext, tpc, tmask>>

(* ---- transport thread: one selector event at a time *)
Readable == inAvail > 0
Ready == {x \in {"r", "w"} : (x = "r" /\ Readable) \/ (x = "w" /\ regEv = "rw")}
TSelect == /\ tpc = "select" /\ Ready # {}
           /\ tmask' = Ready /\ tpc' = "absorb"
           /\ UNCHANGED <<sendQ, alock, tlock, regEv, regData, ds, sb, queued, out, inAvail, partialLeft, spc, snext, ppc, pstream>>
\* _absorb_attached_stream: under tlock take the attached stream over, exactly once
TAbsorbLock == /\ tpc = "absorb" /\ tlock = Free /\ tlock' = 200 /\ tpc' = "absorb2"
               /\ UNCHANGED <<sendQ, alock, regEv, regData, ds, sb, queued, out, inAvail, partialLeft, spc, snext, ppc, pstream, tmask>>
AfterAbsorb == IF "w" \in tmask THEN "write" ELSE "read"
TAbsorb == /\ tpc = "absorb2"
           /\ LET got == ds \o regData
                  mv == "w" \in tmask /\ got # <<>>            \* write(): everything pending moves to the send buffer
              IN /\ ds' = IF mv THEN <<>> ELSE got
                 /\ sb' = IF mv THEN sb \o got ELSE sb
                 /\ queued' = IF mv THEN TRUE ELSE queued
                 /\ tpc' = IF "w" \in tmask THEN (IF sb' # <<>> THEN "send" ELSE "wdone") ELSE "recv"
           /\ regData' = IF "D_Reabsorb" \in Deviations THEN regData ELSE <<>>
           /\ tlock' = Free
           /\ UNCHANGED <<sendQ, alock, regEv, out, inAvail, partialLeft, spc, snext, ppc, pstream, tmask>>
TSend == /\ tpc = "send"
         /\ \/ /\ out' = out \o sb /\ sb' = <<>> /\ UNCHANGED partialLeft
            \/ /\ partialLeft > 0 /\ Len(sb) > 1
               /\ \E k \in 1..(Len(sb) - 1) : out' = out \o SubSeq(sb, 1, k) /\ sb' = SubSeq(sb, k + 1, Len(sb))
               /\ partialLeft' = partialLeft - 1
         /\ tpc' = "wdone"
         /\ UNCHANGED <<sendQ, alock, tlock, regEv, regData, ds, queued, inAvail, spc, snext, ppc, pstream, tmask>>
\* after write(): downgrade to READ only when everything has gone
Pending == regData # <<>> \/ ds # <<>> \/ sb # <<>>
TWDone == /\ tpc = "wdone"
          /\ IF queued /\ sb = <<>> THEN tpc' = "wdown" ELSE tpc' = (IF "r" \in tmask THEN "recv" ELSE "select")
          /\ UNCHANGED <<sendQ, alock, tlock, regEv, regData, ds, sb, queued, out, inAvail, partialLeft, spc, snext, ppc, pstream, tmask>>
Downgrade(nextpc) == /\ tlock = Free
                     /\ IF Pending /\ "D_DowngradeDrops" \notin Deviations
                        THEN UNCHANGED <<regEv, regData>>
                        ELSE regEv' = "r" /\ regData' = <<>>
                     /\ tpc' = nextpc
TWDown == /\ tpc = "wdown" /\ Downgrade(IF "r" \in tmask THEN "recv" ELSE "select") /\ queued' = FALSE
          /\ UNCHANGED <<sendQ, alock, tlock, ds, sb, out, inAvail, partialLeft, spc, snext, ppc, pstream, tmask>>
TRecv == /\ tpc = "recv" /\ inAvail > 0 /\ inAvail' = inAvail - 1 /\ tpc' = "rdown"
         /\ UNCHANGED <<sendQ, alock, tlock, regEv, regData, ds, sb, queued, out, partialLeft, spc, snext, ppc, pstream, tmask>>
TRDown == /\ tpc = "rdown" /\ Downgrade("select")
          /\ UNCHANGED <<sendQ, alock, tlock, ds, sb, queued, out, inAvail, partialLeft, spc, snext, ppc, pstream, tmask>>

Next == \/ \E s \in Subs : SAcq(s) \/ SPut(s) \/ SRel(s)
        \/ PAcq \/ PTake \/ PDone \/ PTLock \/ PModify \/ PTRel \/ PSkip \/ PARel
        \/ TSelect \/ TAbsorbLock \/ TAbsorb \/ TSend \/ TWDone \/ TWDown \/ TRecv \/ TRDown
Spec == Init /\ [][Next]_vars

(* ---- C05 *)
Submitted(s) == [k \in 1..PerSub |-> MsgOf(s, k)]
AllMsgs == {MsgOf(s, k) : s \in Subs, k \in 1..PerSub}
\* whole messages in out, in order of appearance (a trailing first half is an incomplete write in progress)
RECURSIVE Whole(_)
Whole(o) == IF Len(o) < 2 THEN <<>>
            ELSE IF o[1][2] = 1 /\ o[2] = <<o[1][1], 2>> THEN <<o[1][1]>> \o Whole(SubSeq(o, 3, Len(o)))
            ELSE <<-1>>                                      \* torn or interleaved
Clean(o) == LET w == Whole(o) IN
              /\ \A i \in 1..Len(w) : w[i] # -1
              /\ (Len(o) % 2 = 1 => o[Len(o)][2] = 1)
NoTear == Clean(out)
NoDup == LET w == Whole(out) IN \A i, j \in 1..Len(w) : (w[i] = w[j] /\ w[i] # -1) => i = j
InOrder == LET w == Whole(out) IN
             \A s \in Subs : \A i, j \in 1..Len(w) :
                 (w[i] \div 10 = s /\ w[j] \div 10 = s /\ i < j) => w[i] < w[j]
Quiescent == /\ \A s \in Subs : snext[s] > PerSub
             /\ sendQ = <<>> /\ ppc = "idle" /\ tpc = "select" /\ Ready = {} /\ ~Pending
NoLoss == Quiescent => (Len(out) = 2 * Cardinality(AllMsgs) /\ {Whole(out)[i] : i \in 1..Len(Whole(out))} = AllMsgs)
\* conservation: every unit of every submitted message is in exactly one place
=============================================================================
