------------------------------- MODULE Answer -------------------------------
(***************************************************************************)
(* What happens to an answer between a route handler and the wire          *)
(* (bromelia/bromelia.py decorate_answer, called by Bromelia.callback_route)*)
(*                                                                         *)
(* Abstract answer  : [app, hbh, e2e : 4 bytes; eflag : BOOLEAN;           *)
(*                     hasSid : BOOLEAN, sid : bytes;                      *)
(*                     hasRc : BOOLEAN, rc : 4 bytes; hasExp : BOOLEAN]    *)
(* Abstract request : [app, hbh, e2e; hasSid, sid]                         *)
(* The handler's answer may lack a Session-Id AVP (a.hasSid = FALSE: a      *)
(* hand-made DiameterAnswer with a Result-Code only) and may have the E     *)
(* flag set already; the answer that is sent satisfies SentOk all the same. *)
(* Decides C12 (with Types.Family for the error-flag rule).                *)
(***************************************************************************)
EXTENDS Types

Decorate(a, r) ==
    LET ids == [a EXCEPT !.app = r.app, !.hbh = r.hbh, !.e2e = r.e2e]
        sid == IF r.hasSid THEN [ids EXCEPT !.hasSid = TRUE, !.sid = r.sid] ELSE ids
        \* the error flag follows the Result-Code, whatever the handler had set; without a Result-Code it is left as it is
        err == [sid EXCEPT !.eflag = IF a.hasRc THEN IsErrorFamily(a.rc) ELSE a.eflag]
    IN IF a.hasExp /\ a.hasRc THEN [err EXCEPT !.hasRc = FALSE] ELSE err

\* the property, as a predicate on the answer that is sent
SentOk(s, a, r) ==
    /\ s.app = r.app /\ s.hbh = r.hbh /\ s.e2e = r.e2e
    /\ (r.hasSid => (s.hasSid /\ s.sid = r.sid))
    /\ (s.hasRc => (s.eflag = IsErrorFamily(s.rc)))
    /\ ~(s.hasRc /\ s.hasExp)
    /\ s.hasExp = a.hasExp
    /\ (s.hasRc => s.rc = a.rc)
    /\ ((a.hasRc /\ ~a.hasExp) => s.hasRc)

\* for EVERY answer a handler may return: with or without a Session-Id of its own, with the E flag already set or not
ThmDecorate(a, r) == SentOk(Decorate(a, r), a, r)
=============================================================================
