------------------------------- MODULE Answer -------------------------------
(***************************************************************************)
(* What happens to an answer between a route handler and the wire          *)
(* (bromelia/bromelia.py decorate_answer, called by Bromelia.callback_route)*)
(*                                                                         *)
(* Abstract answer  : [app, hbh, e2e : 4 bytes; eflag : BOOLEAN;           *)
(*                     hasSid : BOOLEAN, sid : bytes;                      *)
(*                     hasRc : BOOLEAN, rc : 4 bytes; hasExp : BOOLEAN]    *)
(* Abstract request : [app, hbh, e2e; hasSid, sid]                         *)
(* Decides C12 (with Types.Family for the error-flag rule).                *)
(***************************************************************************)
EXTENDS Types

Decorate(a, r) ==
    LET ids == [a EXCEPT !.app = r.app, !.hbh = r.hbh, !.e2e = r.e2e]
        sid == IF r.hasSid THEN [ids EXCEPT !.hasSid = TRUE, !.sid = r.sid] ELSE ids
        err == [sid EXCEPT !.eflag = a.eflag \/ (a.hasRc /\ IsErrorFamily(a.rc))]
    IN IF a.hasExp /\ a.hasRc THEN [err EXCEPT !.hasRc = FALSE] ELSE err

\* the property, as a predicate on the answer that is sent
SentOk(s, a, r) ==
    /\ s.app = r.app /\ s.hbh = r.hbh /\ s.e2e = r.e2e
    /\ (r.hasSid => (s.hasSid /\ s.sid = r.sid))
    /\ (s.hasRc => (s.eflag = IsErrorFamily(s.rc)))
    /\ ~(s.hasRc /\ s.hasExp)
    /\ s.hasExp = a.hasExp
    /\ (s.hasRc => s.rc = a.rc)
    /\ ((a.hasRc /\ ~a.hasExp) => s.hasRc)

ThmDecorate(a, r) == (~a.eflag) => SentOk(Decorate(a, r), a, r)
=============================================================================
