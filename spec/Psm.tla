-------------------------------- MODULE Psm --------------------------------
(***************************************************************************)
(* The peer state machine (bromelia/statemachine.py, process.py, proxy.py)  *)
(* at tick granularity: one Tick is                                         *)
(*     current_state.run(); current_state = get_next_state(next_state)      *)
(* transcribed with the code's evaluation order inside each run() (last     *)
(* assignment to next_state wins).  Environment actions inject one event    *)
(* of the property's alphabet.                                              *)
(*                                                                         *)
(* A message is [k, valid, id]: k in {CER, CEA, DWR, DWA, DPR, DPA, REQ,    *)
(* ANS, MIS} (application request / answer, misaddressed request); valid    *)
(* is the verdict of process.py for base messages (exact flag byte, exact   *)
(* count of good AVPs, configured peer identity); id stands for the         *)
(* Hop-by-Hop / End-to-End identifiers.                                     *)
(*                                                                         *)
(* out / dlv are the messages put on the wire / handed to the application   *)
(* by the last action (so the state space stays finite and every step's     *)
(* observable output can be compared with the real node).                   *)
(*                                                                         *)
(* sendQ is the association's send queue.  Every send puts its message at   *)
(* the tail and flushes ONE batch from the head (messages are batched up to *)
(* Limit bytes; a message that does not fit any more waits for the next     *)
(* tick; the head always goes).  The application may submit messages while  *)
(* the connection is Open (AppSend); Open flushes a waiting batch before it  *)
(* looks at the receive queue, so an answer is never queued behind a         *)
(* backlog.                                                                 *)
(*                                                                         *)
(* Deviations (pinned tree, repaired by fix: commits):                      *)
(*   D_NoReturnAfterRelease  Open.run goes on to the queues after a release *)
(*                           event: next_state is overwritten, second DPR   *)
(*   D_MisaddressedKills     a misaddressed request raises out of the tick  *)
(*   D_EofIgnored            Wait-I-CEA and Closing do not look at the peer *)
(*                           disconnect signal                              *)
(*   D_RefusedSpins          a refused connection never yields a nack       *)
(*   D_ClosingKeepsBacklog   Closing does not flush the send queue: a DPR   *)
(*                           queued behind a backlog never leaves           *)
(* Decides C06 and C07.                                                     *)
(***************************************************************************)
EXTENDS Naturals, Sequences, FiniteSets, TLC

CONSTANTS Role,          \* "client" | "server"
          Kinds,         \* message kinds that may be injected
          IdSet,         \* identifier values of injected requests
          MaxQ,          \* bound on the receive queue
          ValidOnly,     \* inject only messages the validator accepts (used to focus on identifiers)
          MaxS,          \* bound on the application messages waiting in the send queue
          Limit, SzApp, SzCER, SzCEA, SzDWR, SzDWA, SzDPR, SzDPA,     \* batch limit and encoded sizes (measured on the real node)
          Deviations

States == {"Closed", "WaitConnAck", "WaitICEA", "Open", "Closing", "WaitReturns", "WaitConnAckElect"}
Base == {"CER", "CEA", "DWR", "DWA", "DPR", "DPA"}
Msgs == {[k |-> k, valid |-> v, id |-> i] : k \in Kinds, v \in BOOLEAN, i \in IdSet}
\* (validity only matters where it is computed; a DPA is injected in both forms all the same: Closing leaves on ANY DPA - a
\* protocol-error answer with the E bit, one without a Result-Code, one from an alias of the peer - since nothing else ends it)
InjMsgs == {m \in Msgs : (m.k \in {"REQ", "ANS", "MIS"} => m.valid) /\ (ValidOnly => m.valid)}

VARIABLES st, recvQ, sendQ, active, peerGone, connected, refused, idle, running, released, out, dlv
vars == <<st, recvQ, sendQ, active, peerGone, connected, refused, idle, running, released, out, dlv>>

M(k, i) == [k |-> k, id |-> i]
Sz(m) == CASE m.k = "APP" -> SzApp [] m.k = "CER" -> SzCER [] m.k = "CEA" -> SzCEA [] m.k = "DWR" -> SzDWR
           [] m.k = "DWA" -> SzDWA [] m.k = "DPR" -> SzDPR [] OTHER -> SzDPA
\* send_message_from_queue: one batch from the head of the queue
RECURSIVE FlushFrom(_, _, _)
FlushFrom(q, acc, used) ==
    IF q = <<>> \/ used > Limit THEN [o |-> acc, q |-> q]
    ELSE IF acc # <<>> /\ Sz(Head(q)) > Limit - used THEN [o |-> acc, q |-> q]
    ELSE FlushFrom(Tail(q), Append(acc, Head(q)), used + Sz(Head(q)))
Flush(q) == FlushFrom(q, <<>>, 0)
Init == /\ st = "Closed" /\ recvQ = <<>> /\ sendQ = <<>> /\ active = FALSE /\ peerGone = FALSE /\ connected = FALSE
        /\ refused = FALSE /\ idle = FALSE /\ running = FALSE /\ released = TRUE /\ out = <<>> /\ dlv = <<>>

(* ---- environment *)
\* start() / restart of the same node object; rf: the peer refuses the connection (client only)
Start(rf) == /\ ~running /\ st = "Closed"
             /\ running' = TRUE /\ connected' = TRUE /\ released' = FALSE /\ recvQ' = <<>> /\ sendQ' = <<>> /\ active' = FALSE
             /\ peerGone' = FALSE /\ idle' = FALSE /\ out' = <<>> /\ dlv' = <<>>
             /\ refused' = rf
             /\ UNCHANGED st
Inject(m) == /\ running /\ connected /\ ~released /\ Len(recvQ) < MaxQ
             /\ recvQ' = Append(recvQ, m) /\ out' = <<>> /\ dlv' = <<>>
             /\ UNCHANGED <<st, sendQ, active, peerGone, connected, refused, idle, running, released>>
\* the application submits a message (send_message); it waits in the send queue for the next tick
NApp(q) == Cardinality({i \in 1..Len(q) : q[i].k = "APP"})
AppSend == /\ running /\ st = "Open" /\ ~released /\ NApp(sendQ) < MaxS
           /\ sendQ' = Append(sendQ, M("APP", 0)) /\ out' = <<>> /\ dlv' = <<>>
           /\ UNCHANGED <<st, recvQ, active, peerGone, connected, refused, idle, running, released>>
LocalStop == /\ running /\ st # "Closed" /\ active
             /\ active' = FALSE /\ out' = <<>> /\ dlv' = <<>>
             /\ UNCHANGED <<st, recvQ, sendQ, peerGone, connected, refused, idle, running, released>>
PeerDisc == /\ running /\ connected /\ ~peerGone /\ ~released
            /\ (st \in {"WaitICEA", "Open", "Closing"} \/ (st = "Closed" /\ Role = "server"))
            /\ peerGone' = TRUE /\ idle' = FALSE /\ out' = <<>> /\ dlv' = <<>>      \* the disconnect is a socket event
            /\ UNCHANGED <<st, recvQ, sendQ, active, connected, refused, running, released>>
IdleReached == /\ running /\ st = "Open" /\ ~idle /\ ~peerGone
               /\ idle' = TRUE /\ out' = <<>> /\ dlv' = <<>>
               /\ UNCHANGED <<st, recvQ, sendQ, active, peerGone, connected, refused, running, released>>

(* ---- one tick.  Result of run() as [next, q, act, o, d, idl, dead, sq]; o is what the tick puts on the wire, sq what stays queued *)
\* a tick that sends msgs: put them at the tail, flush one batch
RS(next, q, act, msgs, d, idl, sq0) == LET f == Flush(sq0 \o msgs) IN
    [next |-> next, q |-> q, act |-> act, o |-> f.o, d |-> d, idl |-> idl, dead |-> FALSE, sq |-> f.q]
\* (outside Open the send queue is empty and the messages of a tick fit one batch)
R(next, q, act, o, d, idl) == IF o = <<>> THEN [next |-> next, q |-> q, act |-> act, o |-> o, d |-> d, idl |-> idl, dead |-> FALSE, sq |-> sendQ]
                              ELSE RS(next, q, act, o, d, idl, sendQ)
Stay(s) == R(s, recvQ, active, <<>>, <<>>, idle)

RunClosed ==
    IF Role = "client" THEN R("WaitConnAck", recvQ, active, <<>>, <<>>, idle)
    ELSE IF recvQ = <<>> THEN Stay("Closed")
    ELSE LET m == Head(recvQ) IN
         IF m.k = "CER" /\ m.valid THEN R("Open", Tail(recvQ), TRUE, <<M("CEA", m.id)>>, <<>>, idle)
         ELSE R("Closed", Tail(recvQ), active, <<>>, <<>>, idle)

RunWaitConnAck ==
    LET first == IF ~connected THEN Stay("WaitConnAck")
                 ELSE IF refused THEN (IF "D_RefusedSpins" \in Deviations THEN [Stay("WaitConnAck") EXCEPT !.dead = TRUE]
                                       ELSE Stay("Closed"))
                 ELSE R("WaitICEA", recvQ, active, <<M("CER", 0)>>, <<>>, idle)
    IN IF first.dead \/ recvQ = <<>> THEN first
       ELSE LET m == Head(recvQ) IN
            IF m.k = "CER" /\ m.valid THEN [first EXCEPT !.next = "WaitConnAckElect", !.q = Tail(recvQ), !.act = TRUE]
            ELSE [first EXCEPT !.q = Tail(recvQ)]

RunWaitICEA ==
    IF peerGone /\ "D_EofIgnored" \notin Deviations THEN Stay("Closed")
    ELSE IF recvQ = <<>> THEN Stay("WaitICEA")
    ELSE LET m == Head(recvQ) q == Tail(recvQ) IN
         CASE m.k = "CEA" -> IF m.valid THEN R("Open", q, TRUE, <<>>, <<>>, idle) ELSE R("WaitICEA", q, active, <<>>, <<>>, idle)
           [] m.k = "CER" -> IF m.valid THEN R("WaitReturns", q, TRUE, <<>>, <<>>, idle) ELSE R("WaitICEA", q, active, <<>>, <<>>, idle)
           [] OTHER -> R("Closed", q, active, <<>>, <<>>, idle)

\* Open: watchdog, release signals, then ONE batch of the send queue, else one message of the receive queue
RunOpen ==
    LET q0 == IF idle THEN Append(sendQ, M("DWR", 0)) ELSE sendQ          \* tracking_events queues the watchdog request
        release == IF peerGone THEN "peer" ELSE IF ~active THEN "local" ELSE "none"
        NoSend(next, q, act, d, sq) == [next |-> next, q |-> q, act |-> act, o |-> <<>>, d |-> d, idl |-> FALSE, dead |-> FALSE, sq |-> sq]
    IN IF release = "peer" /\ "D_NoReturnAfterRelease" \notin Deviations
         THEN NoSend("Closed", recvQ, active, <<>>, q0)
       ELSE IF release = "local" /\ "D_NoReturnAfterRelease" \notin Deviations
         THEN RS("Closing", recvQ, active, <<M("DPR", 0)>>, <<>>, FALSE, q0)
       ELSE
         \* no release (or the pinned tree's fall-through after one)
         LET a == IF release = "local" THEN Flush(Append(q0, M("DPR", 0))) ELSE [o |-> <<>>, q |-> q0]      \* only with the deviation
             nxt0 == IF release = "peer" THEN "Closed" ELSE IF release = "local" THEN "Closing" ELSE "Open"
             With(r) == [r EXCEPT !.o = a.o \o r.o]
         IN IF a.q # <<>> THEN With(RS("Open", recvQ, active, <<>>, <<>>, FALSE, a.q))
            ELSE IF recvQ = <<>> THEN With(NoSend(nxt0, recvQ, active, <<>>, <<>>))
            ELSE LET m == Head(recvQ) q == Tail(recvQ)
                     Ans(next, msgs) == With(RS(next, q, active, msgs, <<>>, FALSE, <<>>))
                 IN
                 CASE m.k = "DWR" -> IF m.valid THEN Ans("Open", <<M("DWA", m.id)>>) ELSE Ans(nxt0, <<>>)
                   [] m.k = "DWA" -> Ans(IF m.valid THEN "Open" ELSE "Closing", <<>>)
                   [] m.k = "DPR" -> Ans("Closed", IF m.valid THEN <<M("DPA", m.id)>> ELSE <<>>)
                   [] m.k = "CER" -> Ans("Open", IF m.valid THEN <<M("CEA", m.id)>> ELSE <<>>)
                   [] m.k = "CEA" -> Ans(IF m.valid THEN "Open" ELSE nxt0, <<>>)
                   [] m.k = "MIS" -> IF "D_MisaddressedKills" \in Deviations
                                     THEN [Ans(nxt0, <<>>) EXCEPT !.dead = TRUE]
                                     ELSE Ans("Open", <<>>)
                   [] OTHER -> With(NoSend("Open", q, active, <<M(m.k, m.id)>>, <<>>))         \* REQ, ANS, DPA: handed to the application

\* Closing: what was queued before the DPR (and the DPR itself) still has to leave, one batch per tick
RunClosing ==
    IF peerGone /\ "D_EofIgnored" \notin Deviations THEN Stay("Closed")
    ELSE IF sendQ # <<>> /\ "D_ClosingKeepsBacklog" \notin Deviations THEN RS("Closing", recvQ, active, <<>>, <<>>, idle, sendQ)
    ELSE IF recvQ = <<>> THEN Stay("Closing")
    ELSE LET m == Head(recvQ) q == Tail(recvQ) IN
         IF m.k = "DPA" THEN R("Closed", q, active, <<>>, <<>>, idle) ELSE R("Closing", q, active, <<>>, <<>>, idle)

Run == CASE st = "Closed" -> RunClosed [] st = "WaitConnAck" -> RunWaitConnAck [] st = "WaitICEA" -> RunWaitICEA
         [] st = "Open" -> RunOpen [] st = "Closing" -> RunClosing [] OTHER -> Stay(st)

Tick == /\ running
        /\ LET r == Run IN
             IF r.dead
             THEN \* the state machine thread dies: nothing ticks any more (a violation of the property)
                  /\ running' = FALSE /\ out' = r.o /\ dlv' = r.d /\ recvQ' = r.q /\ sendQ' = r.sq
                  /\ UNCHANGED <<st, active, peerGone, connected, refused, idle, released>>
             ELSE /\ st' = r.next /\ recvQ' = r.q /\ dlv' = r.d /\ idle' = r.idl
                  /\ out' = IF peerGone THEN <<>> ELSE r.o        \* nothing reaches a peer that has disconnected
                  /\ IF r.next = "Closed" /\ (st # "Closed" \/ (peerGone /\ connected /\ "D_EofIgnored" \notin Deviations))
                     THEN \* (a server still in Closed whose peer disconnected before the CER releases its transport too) \* get_next_state: the thread stops and the association is closed
                          /\ running' = FALSE /\ released' = TRUE /\ connected' = FALSE /\ active' = FALSE
                          /\ peerGone' = FALSE                  \* the transport object is dropped with its signal
                          /\ sendQ' = r.sq
                     ELSE /\ active' = r.act /\ sendQ' = r.sq /\ UNCHANGED <<running, released, connected, peerGone>>
                  /\ UNCHANGED refused

Next == (\E rf \in (IF Role = "client" THEN BOOLEAN ELSE {FALSE}) : Start(rf)) \/ (\E m \in InjMsgs : Inject(m)) \/ AppSend \/ LocalStop \/ PeerDisc \/ IdleReached \/ Tick
Spec == Init /\ [][Next]_vars

(* ---- C06 *)
TypeOK == st \in States /\ Len(recvQ) <= MaxQ
OpenOnlyAfterCapx ==
    [][(st' = "Open" /\ st # "Open") =>
         /\ recvQ # <<>> /\ Head(recvQ).valid
         /\ (Role = "client" => st = "WaitICEA" /\ Head(recvQ).k = "CEA")
         /\ (Role = "server" => st = "Closed" /\ Head(recvQ).k = "CER")]_vars
DeliveredOnlyWhileOpen == [][dlv' # <<>> => st = "Open"]_vars
\* a local stop sends exactly one DPR, from Open, and moves to Closing
Count(s, k) == Cardinality({i \in 1..Len(s) : s[i].k = k})
OneDPR == [][Count(out', "DPR") > 0 => (Count(out', "DPR") = 1 /\ ((st = "Open" /\ st' = "Closing" /\ ~active) \/ st = "Closing"))]_vars
\* (a DPR that had to wait behind a backlog leaves from Closing; it is still the only one)
NoDPRWhileClosing == [][(st = "Closing" /\ Count(out', "DPR") > 0) => (Count(out', "DPR") = 1 /\ Count(sendQ, "DPR") = 1)]_vars
\* a local stop puts exactly one DPR into the send queue and it leaves: at once, or after the batches queued before it
StopQueuesDPR == [][(Tick /\ running /\ st = "Open" /\ ~active /\ ~peerGone) => Count(out', "DPR") + Count(sendQ', "DPR") = 1]_vars
BacklogLeaves == [][(Tick /\ running /\ st = "Closing" /\ ~peerGone /\ sendQ # <<>>) => (out' # <<>> /\ Len(sendQ') < Len(sendQ))]_vars
DPRAnswered == [][(st = "Open" /\ running /\ recvQ # <<>> /\ Head(recvQ).k = "DPR" /\ recvQ' = Tail(recvQ))
                   => (st' = "Closed" /\ (Head(recvQ).valid => out' = <<M("DPA", Head(recvQ).id)>>))]_vars
\* Closed after a connection ended (the machine no longer runs) implies the transport has been released;
\* a started node that has not left Closed yet (server awaiting the CER) still owns its transport
ClosedImpliesReleased == (st = "Closed" /\ ~running) => released
\* no input makes the state machine raise or stop ticking: it only stops when it reaches Closed
KeepsTicking == [][(running /\ ~running') => st' = "Closed"]_vars
\* a peer disconnect closes the connection at the next tick
PeerDiscCloses == [][(Tick /\ peerGone /\ (st \in {"WaitICEA", "Open", "Closing"} \/ (st = "Closed" /\ st' = "Closed")))
                      => (st' = "Closed" /\ released' /\ ~running')]_vars
\* anything but a CEA while awaiting one closes it (a CER there enters the unimplemented election states)
NonCeaCloses == [][(Tick /\ st = "WaitICEA" /\ ~peerGone /\ recvQ # <<>> /\ Head(recvQ).k \notin {"CEA", "CER"}) => st' = "Closed"]_vars
\* an idle open connection emits exactly one watchdog request and restarts the idle count
\* (behind a backlog of application messages the request leaves with the batch that reaches it)
WatchdogOnIdle == [][(Tick /\ st = "Open" /\ idle /\ ~peerGone) => (Count(out', "DWR") + Count(sendQ', "DWR") = 1 + Count(sendQ, "DWR") /\ ~idle')]_vars
\* every base answer echoes the identifiers of the request processed in the same tick (C07)
AnswersEcho == [][\A i \in 1..Len(out') : out'[i].k \in {"CEA", "DWA", "DPA"} =>
                     (recvQ # <<>> /\ out'[i].id = Head(recvQ).id /\ recvQ' = Tail(recvQ)
                      /\ Head(recvQ).k = (CASE out'[i].k = "CEA" -> "CER" [] out'[i].k = "DWA" -> "DWR" [] OTHER -> "DPR"))]_vars
=============================================================================
