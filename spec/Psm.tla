-------------------------------- MODULE Psm --------------------------------
(***************************************************************************)
(* The peer state machine (bromelia/statemachine.py, process.py, proxy.py)  *)
(* at tick granularity: one Tick is                                         *)
(*     current_state.run(); current_state = get_next_state(next_state)      *)
(* transcribed with the code's evaluation order inside each run() (last     *)
(* assignment to next_state wins).  Environment actions inject one event    *)
(* of the property's alphabet.                                              *)
(*                                                                         *)
(* A message is [k, valid, id]: k in {CER, CEA, DWR, DWA, DPR, DPA, REQ,    *)
(* ANS, MIS} (application request / answer, misaddressed request); valid    *)
(* is the verdict of process.py for base messages (exact flag byte, exact   *)
(* count of good AVPs, configured peer identity); id stands for the         *)
(* Hop-by-Hop / End-to-End identifiers.                                     *)
(*                                                                         *)
(* out / dlv are the messages put on the wire / handed to the application   *)
(* by the last action (so the state space stays finite and every step's     *)
(* observable output can be compared with the real node).                   *)
(*                                                                         *)
(* Deviations (pinned tree, repaired by fix: commits):                      *)
(*   D_NoReturnAfterRelease  Open.run goes on to the queues after a release *)
(*                           event: next_state is overwritten, second DPR   *)
(*   D_MisaddressedKills     a misaddressed request raises out of the tick  *)
(*   D_EofIgnored            Wait-I-CEA and Closing do not look at the peer *)
(*                           disconnect signal                              *)
(*   D_RefusedSpins          a refused connection never yields a nack       *)
(* Decides C06 and C07.                                                     *)
(***************************************************************************)
EXTENDS Naturals, Sequences, FiniteSets, TLC

CONSTANTS Role,          \* "client" | "server"
          Kinds,         \* message kinds that may be injected
          IdSet,         \* identifier values of injected requests
          MaxQ,          \* bound on the receive queue
          ValidOnly,     \* inject only messages the validator accepts (used to focus on identifiers)
          Deviations

States == {"Closed", "WaitConnAck", "WaitICEA", "Open", "Closing", "WaitReturns", "WaitConnAckElect"}
Base == {"CER", "CEA", "DWR", "DWA", "DPR", "DPA"}
Msgs == {[k |-> k, valid |-> v, id |-> i] : k \in Kinds, v \in BOOLEAN, i \in IdSet}
InjMsgs == {m \in Msgs : (m.k \in {"REQ", "ANS", "MIS", "DPA"} => m.valid) /\ (ValidOnly => m.valid)}     \* validity only matters where it is computed

VARIABLES st, recvQ, active, peerGone, connected, refused, idle, running, released, out, dlv
vars == <<st, recvQ, active, peerGone, connected, refused, idle, running, released, out, dlv>>

M(k, i) == [k |-> k, id |-> i]
Init == /\ st = "Closed" /\ recvQ = <<>> /\ active = FALSE /\ peerGone = FALSE /\ connected = FALSE
        /\ refused = FALSE /\ idle = FALSE /\ running = FALSE /\ released = TRUE /\ out = <<>> /\ dlv = <<>>

(* ---- environment *)
\* start() / restart of the same node object; rf: the peer refuses the connection (client only)
Start(rf) == /\ ~running /\ st = "Closed"
             /\ running' = TRUE /\ connected' = TRUE /\ released' = FALSE /\ recvQ' = <<>> /\ active' = FALSE
             /\ peerGone' = FALSE /\ idle' = FALSE /\ out' = <<>> /\ dlv' = <<>>
             /\ refused' = rf
             /\ UNCHANGED st
Inject(m) == /\ running /\ connected /\ ~released /\ Len(recvQ) < MaxQ
             /\ recvQ' = Append(recvQ, m) /\ out' = <<>> /\ dlv' = <<>>
             /\ UNCHANGED <<st, active, peerGone, connected, refused, idle, running, released>>
LocalStop == /\ running /\ st # "Closed" /\ active
             /\ active' = FALSE /\ out' = <<>> /\ dlv' = <<>>
             /\ UNCHANGED <<st, recvQ, peerGone, connected, refused, idle, running, released>>
PeerDisc == /\ running /\ connected /\ ~peerGone /\ ~released
            /\ (st \in {"WaitICEA", "Open", "Closing"} \/ (st = "Closed" /\ Role = "server"))
            /\ peerGone' = TRUE /\ idle' = FALSE /\ out' = <<>> /\ dlv' = <<>>      \* the disconnect is a socket event
            /\ UNCHANGED <<st, recvQ, active, connected, refused, running, released>>
IdleReached == /\ running /\ st = "Open" /\ ~idle /\ ~peerGone
               /\ idle' = TRUE /\ out' = <<>> /\ dlv' = <<>>
               /\ UNCHANGED <<st, recvQ, active, peerGone, connected, refused, running, released>>

(* ---- one tick.  Result of run() as [next, q, act, o, d, idl, dead] *)
R(next, q, act, o, d, idl) == [next |-> next, q |-> q, act |-> act, o |-> o, d |-> d, idl |-> idl, dead |-> FALSE]
Stay(s) == R(s, recvQ, active, <<>>, <<>>, idle)

RunClosed ==
    IF Role = "client" THEN R("WaitConnAck", recvQ, active, <<>>, <<>>, idle)
    ELSE IF recvQ = <<>> THEN Stay("Closed")
    ELSE LET m == Head(recvQ) IN
         IF m.k = "CER" /\ m.valid THEN R("Open", Tail(recvQ), TRUE, <<M("CEA", m.id)>>, <<>>, idle)
         ELSE R("Closed", Tail(recvQ), active, <<>>, <<>>, idle)

RunWaitConnAck ==
    LET first == IF ~connected THEN Stay("WaitConnAck")
                 ELSE IF refused THEN (IF "D_RefusedSpins" \in Deviations THEN [Stay("WaitConnAck") EXCEPT !.dead = TRUE]
                                       ELSE Stay("Closed"))
                 ELSE R("WaitICEA", recvQ, active, <<M("CER", 0)>>, <<>>, idle)
    IN IF first.dead \/ recvQ = <<>> THEN first
       ELSE LET m == Head(recvQ) IN
            IF m.k = "CER" /\ m.valid THEN [first EXCEPT !.next = "WaitConnAckElect", !.q = Tail(recvQ), !.act = TRUE]
            ELSE [first EXCEPT !.q = Tail(recvQ)]

RunWaitICEA ==
    IF peerGone /\ "D_EofIgnored" \notin Deviations THEN Stay("Closed")
    ELSE IF recvQ = <<>> THEN Stay("WaitICEA")
    ELSE LET m == Head(recvQ) q == Tail(recvQ) IN
         CASE m.k = "CEA" -> IF m.valid THEN R("Open", q, TRUE, <<>>, <<>>, idle) ELSE R("WaitICEA", q, active, <<>>, <<>>, idle)
           [] m.k = "CER" -> IF m.valid THEN R("WaitReturns", q, TRUE, <<>>, <<>>, idle) ELSE R("WaitICEA", q, active, <<>>, <<>>, idle)
           [] OTHER -> R("Closed", q, active, <<>>, <<>>, idle)

\* Open: watchdog, release signals, then the send queue before the receive queue
RunOpen ==
    LET wd == IF idle THEN <<M("DWR", 0)>> ELSE <<>>          \* queued by tracking_events, flushed by whoever flushes next
        release == IF peerGone THEN "peer" ELSE IF ~active THEN "local" ELSE "none"
    IN IF release = "peer" /\ "D_NoReturnAfterRelease" \notin Deviations
         THEN R("Closed", recvQ, active, <<>>, <<>>, FALSE)
       ELSE IF release = "local" /\ "D_NoReturnAfterRelease" \notin Deviations
         THEN R("Closing", recvQ, active, wd \o <<M("DPR", 0)>>, <<>>, FALSE)
       ELSE
         \* no release (or the pinned tree's fall-through after one)
         LET pre == IF release = "local" THEN wd \o <<M("DPR", 0)>> ELSE <<>>      \* only with the deviation
             nxt0 == IF release = "peer" THEN "Closed" ELSE IF release = "local" THEN "Closing" ELSE "Open"
             pend == IF release = "local" THEN <<>> ELSE wd                       \* DWR still in the send queue
         IN IF pend # <<>> THEN R("Open", recvQ, active, pre \o pend, <<>>, FALSE)
            ELSE IF recvQ = <<>> THEN R(nxt0, recvQ, active, pre, <<>>, FALSE)
            ELSE LET m == Head(recvQ) q == Tail(recvQ) IN
                 CASE m.k = "DWR" -> IF m.valid THEN R("Open", q, active, pre \o <<M("DWA", m.id)>>, <<>>, FALSE)
                                     ELSE R(nxt0, q, active, pre, <<>>, FALSE)
                   [] m.k = "DWA" -> R(IF m.valid THEN "Open" ELSE "Closing", q, active, pre, <<>>, FALSE)
                   [] m.k = "DPR" -> R("Closed", q, active, pre \o (IF m.valid THEN <<M("DPA", m.id)>> ELSE <<>>), <<>>, FALSE)
                   [] m.k = "CER" -> R("Open", q, active, pre \o (IF m.valid THEN <<M("CEA", m.id)>> ELSE <<>>), <<>>, FALSE)
                   [] m.k = "CEA" -> R(IF m.valid THEN "Open" ELSE nxt0, q, active, pre, <<>>, FALSE)
                   [] m.k = "MIS" -> IF "D_MisaddressedKills" \in Deviations
                                     THEN [R(nxt0, q, active, pre, <<>>, FALSE) EXCEPT !.dead = TRUE]
                                     ELSE R("Open", q, active, pre, <<>>, FALSE)
                   [] OTHER -> R("Open", q, active, pre, <<M(m.k, m.id)>>, FALSE)         \* REQ, ANS, DPA: handed to the application

RunClosing ==
    IF peerGone /\ "D_EofIgnored" \notin Deviations THEN Stay("Closed")
    ELSE IF recvQ = <<>> THEN Stay("Closing")
    ELSE LET m == Head(recvQ) q == Tail(recvQ) IN
         IF m.k = "DPA" THEN R("Closed", q, active, <<>>, <<>>, idle) ELSE R("Closing", q, active, <<>>, <<>>, idle)

Run == CASE st = "Closed" -> RunClosed [] st = "WaitConnAck" -> RunWaitConnAck [] st = "WaitICEA" -> RunWaitICEA
         [] st = "Open" -> RunOpen [] st = "Closing" -> RunClosing [] OTHER -> Stay(st)

Tick == /\ running
        /\ LET r == Run IN
             IF r.dead
             THEN \* the state machine thread dies: nothing ticks any more (a violation of the property)
                  /\ running' = FALSE /\ out' = r.o /\ dlv' = r.d /\ recvQ' = r.q
                  /\ UNCHANGED <<st, active, peerGone, connected, refused, idle, released>>
             ELSE /\ st' = r.next /\ recvQ' = r.q /\ dlv' = r.d /\ idle' = r.idl
                  /\ out' = IF peerGone THEN <<>> ELSE r.o        \* nothing reaches a peer that has disconnected
                  /\ IF r.next = "Closed" /\ (st # "Closed" \/ (peerGone /\ connected /\ "D_EofIgnored" \notin Deviations))
                     THEN \* (a server still in Closed whose peer disconnected before the CER releases its transport too) \* get_next_state: the thread stops and the association is closed
                          /\ running' = FALSE /\ released' = TRUE /\ connected' = FALSE /\ active' = FALSE
                          /\ peerGone' = FALSE                  \* the transport object is dropped with its signal
                     ELSE /\ active' = r.act /\ UNCHANGED <<running, released, connected, peerGone>>
                  /\ UNCHANGED refused

Next == (\E rf \in (IF Role = "client" THEN BOOLEAN ELSE {FALSE}) : Start(rf)) \/ (\E m \in InjMsgs : Inject(m)) \/ LocalStop \/ PeerDisc \/ IdleReached \/ Tick
Spec == Init /\ [][Next]_vars

(* ---- C06 *)
TypeOK == st \in States /\ Len(recvQ) <= MaxQ
OpenOnlyAfterCapx ==
    [][(st' = "Open" /\ st # "Open") =>
         /\ recvQ # <<>> /\ Head(recvQ).valid
         /\ (Role = "client" => st = "WaitICEA" /\ Head(recvQ).k = "CEA")
         /\ (Role = "server" => st = "Closed" /\ Head(recvQ).k = "CER")]_vars
DeliveredOnlyWhileOpen == [][dlv' # <<>> => st = "Open"]_vars
\* a local stop sends exactly one DPR, from Open, and moves to Closing
Count(s, k) == Cardinality({i \in 1..Len(s) : s[i].k = k})
OneDPR == [][Count(out', "DPR") > 0 => (Count(out', "DPR") = 1 /\ st = "Open" /\ st' = "Closing" /\ ~active)]_vars
NoDPRWhileClosing == [][st = "Closing" => Count(out', "DPR") = 0]_vars
DPRAnswered == [][(st = "Open" /\ running /\ recvQ # <<>> /\ Head(recvQ).k = "DPR" /\ recvQ' = Tail(recvQ))
                   => (st' = "Closed" /\ (Head(recvQ).valid => out' = <<M("DPA", Head(recvQ).id)>>))]_vars
\* Closed after a connection ended (the machine no longer runs) implies the transport has been released;
\* a started node that has not left Closed yet (server awaiting the CER) still owns its transport
ClosedImpliesReleased == (st = "Closed" /\ ~running) => released
\* no input makes the state machine raise or stop ticking: it only stops when it reaches Closed
KeepsTicking == [][(running /\ ~running') => st' = "Closed"]_vars
\* a peer disconnect closes the connection at the next tick
PeerDiscCloses == [][(Tick /\ peerGone /\ (st \in {"WaitICEA", "Open", "Closing"} \/ (st = "Closed" /\ st' = "Closed")))
                      => (st' = "Closed" /\ released' /\ ~running')]_vars
\* anything but a CEA while awaiting one closes it (a CER there enters the unimplemented election states)
NonCeaCloses == [][(Tick /\ st = "WaitICEA" /\ ~peerGone /\ recvQ # <<>> /\ Head(recvQ).k \notin {"CEA", "CER"}) => st' = "Closed"]_vars
\* an idle open connection emits exactly one watchdog request and restarts the idle count
WatchdogOnIdle == [][(Tick /\ st = "Open" /\ idle /\ ~peerGone) => (Count(out', "DWR") = 1 /\ ~idle')]_vars
\* every base answer echoes the identifiers of the request processed in the same tick (C07)
AnswersEcho == [][\A i \in 1..Len(out') : out'[i].k \in {"CEA", "DWA", "DPA"} =>
                     (recvQ # <<>> /\ out'[i].id = Head(recvQ).id /\ recvQ' = Tail(recvQ)
                      /\ Head(recvQ).k = (CASE out'[i].k = "CEA" -> "CER" [] out'[i].k = "DWA" -> "DWR" [] OTHER -> "DPR"))]_vars
=============================================================================
