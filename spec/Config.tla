------------------------------- MODULE Config -------------------------------
(***************************************************************************)
(* Connection configuration (bromelia/_internal_utils.py                   *)
(* _convert_config_to_connection_obj and _convert_file_to_config).         *)
(*                                                                         *)
(* A configuration is a sequence of [key, cls] pairs in insertion order;   *)
(* cls is the abstract class of the value:                                 *)
(*   MODE            CLIENT SERVER lower other nonstr                      *)
(*   TRANSPORT_TYPE  TCP SCTP lower other nonstr                           *)
(*   *_IP_ADDRESS    quad three big v6 mask space none float               *)
(*   WATCHDOG_TIMEOUT int numstr float none                                *)
(*   APPLICATIONS    empty one two badtype nokeys                          *)
(*   host names, realms, ports: any (carried verbatim)                     *)
(* A complete configuration is accepted (and reflected verbatim) or        *)
(* rejected with the library's configuration error.  Decides C19.          *)
(***************************************************************************)
EXTENDS Naturals, Sequences, FiniteSets, SequencesExt

KnownKeys == {"MODE", "TRANSPORT_TYPE", "APPLICATIONS", "LOCAL_NODE_HOSTNAME", "LOCAL_NODE_REALM",
              "LOCAL_NODE_IP_ADDRESS", "LOCAL_NODE_PORT", "PEER_NODE_HOSTNAME", "PEER_NODE_REALM",
              "PEER_NODE_IP_ADDRESS", "PEER_NODE_PORT", "WATCHDOG_TIMEOUT"}
AddrKeys == {"LOCAL_NODE_IP_ADDRESS", "PEER_NODE_IP_ADDRESS"}

Classes(k) == CASE k = "MODE" -> {"CLIENT", "SERVER", "lower", "other", "nonstr"}
                [] k = "TRANSPORT_TYPE" -> {"TCP", "SCTP", "lower", "other", "nonstr"}
                [] k \in AddrKeys -> {"quad", "three", "big", "v6", "mask", "space", "none", "float"}
                [] k = "WATCHDOG_TIMEOUT" -> {"int", "numstr", "float", "none"}
                [] k = "APPLICATIONS" -> {"empty", "one", "two", "badtype", "nokeys"}
                [] OTHER -> {"any"}
ValidClass(k, c) == CASE k = "MODE" -> c \in {"CLIENT", "SERVER"}
                      [] k = "TRANSPORT_TYPE" -> c \in {"TCP", "SCTP"}
                      [] k \in AddrKeys -> c = "quad"
                      [] k = "WATCHDOG_TIMEOUT" -> c = "int"
                      [] k = "APPLICATIONS" -> c \in {"empty", "one", "two"}
                      [] OTHER -> TRUE

Outcome(cfg) == IF \E i \in 1..Len(cfg) : cfg[i].key \notin KnownKeys THEN "RejectKey"
                ELSE IF \E i \in 1..Len(cfg) : ~ValidClass(cfg[i].key, cfg[i].cls) THEN "RejectValue"
                ELSE "Accept"
Accepted(cfg) == Outcome(cfg) = "Accept"

\* order must not matter
Permute(cfg, p) == [i \in 1..Len(cfg) |-> cfg[p[i]]]

(* YAML specs: one configuration per entry, in order; mode and transport upper-cased; TCP when the *)
(* entry gives no transport.  An entry is [mode, tr] with tr = "none" when omitted; Upper maps the  *)
(* spelling variants to the canonical upper-case token.                                             *)
Upper(t) == CASE t \in {"client", "Client", "CLIENT"} -> "CLIENT"
              [] t \in {"server", "Server", "SERVER"} -> "SERVER"
              [] t \in {"tcp", "Tcp", "TCP"} -> "TCP"
              [] t \in {"sctp", "Sctp", "SCTP"} -> "SCTP"
              [] OTHER -> t
YamlConfigs(entries, Deviations) ==
    [i \in 1..Len(entries) |->
        [mode |-> Upper(entries[i].mode),
         transport |-> IF entries[i].tr # "none" THEN Upper(entries[i].tr)
                       ELSE IF "D_TransportInherited" \in Deviations /\ \E j \in 1..(i - 1) : entries[j].tr # "none"
                            THEN Upper(entries[CHOOSE j \in 1..(i - 1) : entries[j].tr # "none" /\ \A k \in (j + 1)..(i - 1) : entries[k].tr = "none"].tr)
                            ELSE "TCP"]]
=============================================================================
