------------------------------ MODULE Resend ------------------------------
(***************************************************************************)
(* A retransmission through the pending-answer rendezvous (Pending.tla): one *)
(* caller sends the same request object twice, one call after the other;     *)
(* both registrations use the same Hop-by-Hop key; the peer answers each     *)
(* transmission, each answer is handled by its own dispatcher thread.        *)
(* PopFirst = TRUE (the design): unregister, then wake.  PopFirst = FALSE     *)
(* (the earlier order: wake, wait until the caller has taken the answer,     *)
(* unregister by key): the pop of the first dispatcher may run after the     *)
(* caller, awake, has registered again - the second answer finds nobody.     *)
(* Dup = TRUE: the peer repeats its first answer (dispatcher 3).  Both copies *)
(* may find the first waiter before either unregisters it; the slower one     *)
(* then unregisters "whatever is under the key" - by then the registration of *)
(* the retransmission (PopByIdentity = FALSE, the tree before                 *)
(* F-C14-pop-by-key).  PopByIdentity = TRUE: a dispatcher removes the entry   *)
(* only while it still is the waiter it found.                                *)
(***************************************************************************)
EXTENDS Naturals, TLC
CONSTANTS PopFirst, Dup, PopByIdentity,
          AtomicPop      \* the identity test and the removal are one step (they are made under the registry lock); FALSE: two steps
                         \* (the tree between F-C14-pop-by-key and F-C14-test-then-pop: the caller may re-register in between)
Rounds == {1, 2}
Disp == IF Dup THEN {1, 2, 3} ELSE {1, 2}          \* dispatcher 3 handles the repeated copy of answer 1
RoundOf(d) == IF d = 3 THEN 1 ELSE d
VARIABLES mine,            \* (AtomicPop = FALSE) what the identity test of each dispatcher saw
          cpc, round,      \* the caller and the transmission it is in
          reg,             \* which transmission's waiter is registered under the key (0: none)
          sent,            \* transmissions that reached the peer
          recvEv, stopEv,  \* the two events of each waiter object
          dpc, obj,        \* dispatcher of each answer: pc and the waiter object it found
          returned         \* number of calls that returned their answer
vars == <<mine, cpc, round, reg, sent, recvEv, stopEv, dpc, obj, returned>>
Init == /\ mine = [r \in Disp |-> FALSE] /\ cpc = "reg" /\ round = 1 /\ reg = 0 /\ sent = {} /\ recvEv = [r \in Rounds |-> FALSE] /\ stopEv = [r \in Rounds |-> FALSE]
        /\ dpc = [r \in Disp |-> "idle"] /\ obj = [r \in Disp |-> 0] /\ returned = 0
\* caller: register, queue, wait, clear, acknowledge, return; then once more
Reg == cpc = "reg" /\ reg' = round /\ cpc' = "enq" /\ UNCHANGED <<mine, round, sent, recvEv, stopEv, dpc, obj, returned>>
Enq == cpc = "enq" /\ sent' = sent \cup {round} /\ cpc' = "wait" /\ UNCHANGED <<mine, round, reg, recvEv, stopEv, dpc, obj, returned>>
Wake == cpc = "wait" /\ recvEv[round] /\ recvEv' = [recvEv EXCEPT ![round] = FALSE] /\ cpc' = "ack" /\ UNCHANGED <<mine, round, reg, sent, stopEv, dpc, obj, returned>>
Ack == cpc = "ack" /\ stopEv' = [stopEv EXCEPT ![round] = TRUE] /\ cpc' = "ret" /\ UNCHANGED <<mine, round, reg, sent, recvEv, dpc, obj, returned>>
Ret == /\ cpc = "ret" /\ returned' = returned + 1
       /\ IF round = 1 THEN round' = 2 /\ cpc' = "reg" ELSE cpc' = "done" /\ UNCHANGED round
       /\ UNCHANGED <<mine, reg, sent, recvEv, stopEv, dpc, obj>>
\* dispatcher of the answer to transmission r
Arrive(r) == RoundOf(r) \in sent /\ dpc[r] = "idle" /\ dpc' = [dpc EXCEPT ![r] = "check"] /\ UNCHANGED <<mine, cpc, round, reg, sent, recvEv, stopEv, obj, returned>>
Check(r) == /\ dpc[r] = "check" /\ obj' = [obj EXCEPT ![r] = reg]
            /\ dpc' = [dpc EXCEPT ![r] = IF reg = 0 THEN "dropped" ELSE IF PopFirst THEN "pop" ELSE "notify"]
            /\ UNCHANGED <<mine, cpc, round, reg, sent, recvEv, stopEv, returned>>
Pop(r) == /\ dpc[r] = "pop"
          /\ IF AtomicPop \/ ~PopByIdentity
               THEN /\ reg' = (IF PopByIdentity /\ reg # obj[r] THEN reg ELSE 0)      \* by key: whatever is registered
                    /\ dpc' = [dpc EXCEPT ![r] = IF PopFirst THEN "notify" ELSE "end"] /\ mine' = mine
               ELSE /\ mine' = [mine EXCEPT ![r] = (reg = obj[r])] /\ dpc' = [dpc EXCEPT ![r] = "pop2"] /\ reg' = reg
          /\ UNCHANGED <<cpc, round, sent, recvEv, stopEv, obj, returned>>
Pop2(r) == /\ dpc[r] = "pop2"
           /\ reg' = (IF mine[r] THEN 0 ELSE reg)
           /\ dpc' = [dpc EXCEPT ![r] = IF PopFirst THEN "notify" ELSE "end"]
           /\ UNCHANGED <<mine, cpc, round, sent, recvEv, stopEv, obj, returned>>
Notify(r) == dpc[r] = "notify" /\ recvEv' = [recvEv EXCEPT ![obj[r]] = TRUE] /\ dpc' = [dpc EXCEPT ![r] = "waitstop"]
             /\ UNCHANGED <<mine, cpc, round, reg, sent, stopEv, obj, returned>>
WaitStop(r) == dpc[r] = "waitstop" /\ stopEv[obj[r]] /\ dpc' = [dpc EXCEPT ![r] = IF PopFirst THEN "end" ELSE "pop"]
               /\ UNCHANGED <<mine, cpc, round, reg, sent, recvEv, stopEv, obj, returned>>
Done == cpc = "done" /\ UNCHANGED vars
Next == Reg \/ Enq \/ Wake \/ Ack \/ Ret \/ Done \/ \E r \in Disp : Arrive(r) \/ Check(r) \/ Pop(r) \/ Pop2(r) \/ Notify(r) \/ WaitStop(r)
Spec == Init /\ [][Next]_vars /\ WF_vars(Next)
\* an answer finds its waiter: no dispatcher drops an answer while the caller of that transmission is (or will be) waiting for it
\* (an answer may be dropped when another answer under the same key - its repeated copy, or a late copy of the first answer
\* that is indistinguishable from the answer to the retransmission - has taken the waiter it was for)
NoLostWake == \A r \in Disp : dpc[r] = "dropped" =>
                 \/ round > RoundOf(r) \/ cpc = "done"
                 \/ \E e \in Disp \ {r} : obj[e] = RoundOf(r) /\ dpc[e] \in {"pop", "pop2", "notify", "waitstop", "end"}
BothReturn == <>(cpc = "done" /\ returned = 2)
=============================================================================
