------------------------------- MODULE Types -------------------------------
(***************************************************************************)
(* Data types of bromelia (bromelia/types.py, bromelia/utils.py) as total  *)
(* functions over abstract values.                                         *)
(*                                                                         *)
(* 32-bit protocol quantities never become TLA+ integers (TLC integers are *)
(* 32-bit signed): a word is a sequence of 4 bytes, big-endian; Unsigned64 *)
(* is 8 bytes.  Text is a sequence of bytes.                               *)
(*                                                                         *)
(* Decides (with the Gen_/Trace_ modules that EXTEND it): C10b C17 C18 C20. *)
(***************************************************************************)
EXTENDS Naturals, Integers, Sequences, FiniteSets, SequencesExt

Byte == 0..255
IsBytes(s, n) == Len(s) = n /\ \A i \in 1..n : s[i] \in Byte

Pow2(k) == 2 ^ k

(***************************************************************************)
(* TBCD (3GPP TS 29.002): digits d1 d2 d3 ... are written as octets with   *)
(* the nibbles swapped, d2 d1 | d4 d3 | ..., and an odd number of digits   *)
(* is completed with the filler nibble 15 in the high half of the last     *)
(* octet: ... | F dn.  Digits are 0..9; nibbles are 0..15.                 *)
(***************************************************************************)
RECURSIVE TbcdEnc(_)
TbcdEnc(d) == IF Len(d) = 0 THEN <<>>
              ELSE IF Len(d) = 1 THEN <<15, d[1]>>
              ELSE <<d[2], d[1]>> \o TbcdEnc(SubSeq(d, 3, Len(d)))

\* Decoding of a nibble string produced by TbcdEnc (even length; a filler may only be
\* the first nibble of the last pair).
RECURSIVE TbcdDec(_)
TbcdDec(n) == IF Len(n) < 2 THEN <<>>
              ELSE IF n[1] = 15 THEN <<n[2]>>
              ELSE <<n[2], n[1]>> \o TbcdDec(SubSeq(n, 3, Len(n)))

TbcdWellFormed(n) == /\ Len(n) % 2 = 0
                     /\ \A i \in 1..Len(n) : n[i] \in 0..9 \/ (n[i] = 15 /\ i = Len(n) - 1)

\* all digit strings of length exactly k / at most k
RECURSIVE DigitStrings(_)
DigitStrings(k) == IF k = 0 THEN {<<>>}
                   ELSE {Append(s, x) : s \in DigitStrings(k - 1), x \in 0..9}
DigitStringsUpTo(k) == UNION {DigitStrings(j) : j \in 0..k}

TbcdRoundTrip(d) == TbcdDec(TbcdEnc(d)) = d
TbcdFillerRule(d) == LET e == TbcdEnc(d) IN
                       /\ Len(e) = 2 * ((Len(d) + 1) \div 2)
                       /\ TbcdWellFormed(e)
                       /\ (Len(d) % 2 = 0 => \A i \in 1..Len(e) : e[i] # 15)
                       /\ (Len(d) % 2 = 1 => e[Len(e) - 1] = 15)

(***************************************************************************)
(* Result-Code families.  A code is a 4-byte word w.  The family is        *)
(* n \div 1000 when n is not a multiple of 1000.  Computed by long         *)
(* division in base 256 so that no intermediate exceeds 2^31.              *)
(***************************************************************************)
\* DivMod(w, m) for a byte sequence w and 0 < m < 2^20: [q |-> byte sequence, r |-> remainder]
RECURSIVE DivModAcc(_, _, _, _)
DivModAcc(w, m, r, q) == IF w = <<>> THEN [q |-> q, r |-> r]
                         ELSE LET cur == r * 256 + Head(w)
                              IN DivModAcc(Tail(w), m, cur % m, Append(q, cur \div m))
DivMod(w, m) == DivModAcc(w, m, 0, <<>>)

\* value of a byte sequence when it is known to be small (< 2^31)
RECURSIVE SmallVal(_)
SmallVal(w) == IF w = <<>> THEN 0 ELSE SmallVal(Front(w)) * 256 + Last(w)

IsSmall(q) == \A i \in 1..(Len(q) - 1) : q[i] = 0      \* quotient fits in its last byte

\* family of the result code w: 0 = none
Family(w) == LET dm == DivMod(w, 1000) IN
             IF dm.r # 0 /\ IsSmall(dm.q) /\ Last(dm.q) \in 1..5 THEN Last(dm.q) ELSE 0

FamilyOfNat(n) == IF n % 1000 # 0 /\ (n \div 1000) \in 1..5 THEN n \div 1000 ELSE 0

Word32(n) == <<(n \div 16777216) % 256, (n \div 65536) % 256, (n \div 256) % 256, n % 256>>   \* n < 2^31

\* E flag rule of C12: error bit iff family in {3,4,5}
IsErrorFamily(w) == Family(w) \in {3, 4, 5}

(***************************************************************************)
(* Bit accessors of Unsigned32 flag words: bit 0 is the least significant  *)
(* bit of the last byte of the big-endian word.                            *)
(***************************************************************************)
BitByte(i) == 4 - (i \div 8)
BitIsSet(w, i) == ((w[BitByte(i)] \div Pow2(i % 8)) % 2) = 1

Reject == [ok |-> FALSE, v |-> <<>>]
Accept(v) == [ok |-> TRUE, v |-> v]

BitTest(w, i) == IF i \in 0..31 THEN Accept(<<IF BitIsSet(w, i) THEN 1 ELSE 0>>) ELSE Reject
BitSet(w, i) == IF i \in 0..31 /\ ~BitIsSet(w, i)
                THEN Accept([w EXCEPT ![BitByte(i)] = @ + Pow2(i % 8)]) ELSE Reject
BitClear(w, i) == IF i \in 0..31 /\ BitIsSet(w, i)
                  THEN Accept([w EXCEPT ![BitByte(i)] = @ - Pow2(i % 8)]) ELSE Reject

(***************************************************************************)
(* Address (RFC 6733 4.3.1): 2-byte family code (1 = IPv4, 2 = IPv6) then  *)
(* the packed address.  The abstract input is the literal's structure:     *)
(* [fam |-> 4, octets |-> <<a,b,c,d>>] or [fam |-> 6, groups |-> 8 x 16 bit *)
(* as 16 bytes].                                                           *)
(***************************************************************************)
AddressData(a) == IF a.fam = 4 THEN <<0, 1>> \o a.packed ELSE <<0, 2>> \o a.packed
AddressOk(a) == (a.fam = 4 /\ IsBytes(a.packed, 4)) \/ (a.fam = 6 /\ IsBytes(a.packed, 16))
\* data given as bytes: accepted iff the family code matches the payload width
\* RFC 7155 4.4.10.5.1: Framed-IP-Address (code 8) is an OctetString holding the 4 octets of
\* an IPv4 address, without family code (the library files it under its Address type).
PackedV4Ok(a) == a.fam = 4 /\ IsBytes(a.packed, 4)
PackedV4Data(a) == a.packed
AddressBytesOk(b) == \/ (Len(b) = 6 /\ b[1] = 0 /\ b[2] = 1)
                     \/ (Len(b) = 18 /\ b[1] = 0 /\ b[2] = 2)

(***************************************************************************)
(* Time (RFC 6733 4.3.1): seconds since 1900-01-01T00:00:00 as Unsigned32. *)
(* The instant is given as days since 1900-01-01 (< 49711) and seconds of  *)
(* the day; days * 86400 + secs can exceed 2^31, so the word is built from *)
(* the two parts in base 256 arithmetic.                                   *)
(***************************************************************************)
\* add two byte sequences of equal length (big-endian), dropping the final carry
RECURSIVE AddBytes(_, _, _)
AddBytes(a, b, carry) == IF a = <<>> THEN <<>>
                         ELSE LET s == Last(a) + Last(b) + carry
                              IN Append(AddBytes(Front(a), Front(b), s \div 256), s % 256)
\* multiply a byte sequence by a small factor (< 2^20), result has the same length (overflow dropped)
RECURSIVE MulBytes(_, _, _)
MulBytes(a, f, carry) == IF a = <<>> THEN <<>>
                         ELSE LET p == Last(a) * f + carry
                              IN Append(MulBytes(Front(a), f, p \div 256), p % 256)
TimeWord(days, secs) == AddBytes(MulBytes(Word32(days), 86400, 0), Word32(secs), 0)
\* representable iff days*86400+secs < 2^32: days <= 49710 and (days = 49710 => secs <= 23295)
TimeRepresentable(days, secs) == days < 49710 \/ (days = 49710 /\ secs <= 23295)

(***************************************************************************)
(* Construction of typed AVP data (C10b).  The input universe is abstract: *)
(*   [py |-> "bytes", b |-> bytes]                                         *)
(*   [py |-> "int",   neg |-> BOOLEAN, mag |-> big-endian magnitude]       *)
(*   [py |-> "str",   s |-> bytes (UTF-8)]                                 *)
(*   [py |-> "datetime", days, secs]   (since 1900-01-01, may be negative) *)
(*   [py |-> "none"], [py |-> "float"], [py |-> "list"]                    *)
(* Construct_T(v) is Accept(data) when v denotes a value of the type's     *)
(* domain and Reject otherwise.  The property demands: Accept(d) => the    *)
(* built AVP carries exactly d; Reject => an exception, never a silently   *)
(* malformed or empty AVP.                                                 *)
(***************************************************************************)
StripZeros(m) == IF m = <<>> \/ Head(m) # 0 THEN m ELSE
                   LET RECURSIVE S(_) S(x) == IF x = <<>> \/ Head(x) # 0 THEN x ELSE S(Tail(x)) IN S(m)
PadLeft(m, n) == [i \in 1..(n - Len(m)) |-> 0] \o m
UIntData(v, n) == LET m == StripZeros(v.mag) IN
                  IF ~v.neg /\ Len(m) <= n THEN Accept(PadLeft(m, n)) ELSE Reject
ConstructUnsigned(v, n) ==
    CASE v.py = "bytes" -> IF Len(v.b) = n THEN Accept(v.b) ELSE Reject
      [] v.py = "int"   -> UIntData(v, n)
      [] OTHER -> Reject
ConstructU32(v) == ConstructUnsigned(v, 4)
ConstructU64(v) == ConstructUnsigned(v, 8)
\* Integer32 / Enumerated data are given as the 4 bytes of the value
ConstructI32(v) == IF v.py = "bytes" /\ Len(v.b) = 4 THEN Accept(v.b) ELSE Reject
ConstructEnum(v, values) == IF v.py = "bytes" /\ v.b \in values THEN Accept(v.b) ELSE Reject
ConstructTime(v) ==
    CASE v.py = "bytes" -> IF Len(v.b) = 4 THEN Accept(v.b) ELSE Reject
      [] v.py = "datetime" -> IF v.days >= 0 /\ v.secs \in 0..86399 /\ TimeRepresentable(v.days, v.secs)
                              THEN Accept(TimeWord(v.days, v.secs)) ELSE Reject
      [] OTHER -> Reject
\* Address: a literal (by structure) or family + packed bytes with matching width
ConstructAddr(v) ==
    CASE v.py = "bytes" -> IF AddressBytesOk(v.b) THEN Accept(v.b) ELSE Reject
      [] v.py = "literal" -> IF AddressOk(v) THEN Accept(AddressData(v)) ELSE Reject
      [] OTHER -> Reject
ConstructStr(v) ==
    CASE v.py = "bytes" -> Accept(v.b)
      [] v.py = "str" -> Accept(v.s)
      [] OTHER -> Reject
\* DiameterURI: only the scheme rule of the statement is specified; the rest of the grammar is
\* given by the harness as a flag (wellformed) computed from the URI's structure, not by bromelia
ConstructURI(v) ==
    IF v.py \in {"bytes", "str"} /\ v.scheme \in {"aaa", "aaas"} /\ v.wellformed THEN Accept(v.text) ELSE Reject
\* Grouped: member codes must include every mandatory code
ConstructGrouped(memberkeys, mandatorykeys, allavps) ==
    IF allavps /\ mandatorykeys \subseteq memberkeys THEN Accept(<<>>) ELSE Reject

=============================================================================
