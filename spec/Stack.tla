------------------------------- MODULE Stack -------------------------------
(***************************************************************************)
(* One Diameter interface of a Bromelia application, end to end            *)
(* (bromelia/bromelia.py on top of bromelia/setup.py):                     *)
(*                                                                         *)
(*   peer --> connection (socket, transport thread, receive worker, state  *)
(*        machine; FIFO by C04: module RecvPath) --> Diameter.get_message  *)
(*        --> Worker.recv_handler --> Worker.recv_queue --> Bromelia.main  *)
(*        --> one thread per message:                                      *)
(*              request: Bromelia.callback_route -> handler -> answer ->   *)
(*                       Bromelia.send_message                              *)
(*              answer : Bromelia.handler_pending_answers (module Pending)  *)
(*   Bromelia.send_message --> Worker.set_outgoing_message (send_lock,      *)
(*        send_queue, send_event) --> Worker.send_handler -->               *)
(*        Diameter.send_message --> connection (send queue, state machine,  *)
(*        selector hand-off, socket; FIFO by C05: module SendPath) --> peer *)
(*                                                                         *)
(* One action per block between two observable operations (queue put/get,  *)
(* lock acquire/release, event set/clear/wait, registry update/lookup/pop, *)
(* thread start).  The two connection-layer segments are FIFO channels     *)
(* here; their internals are RecvPath / SendPath / Psm.                    *)
(*                                                                         *)
(* Messages:  <<"req", "L", c>>  request of local caller c                 *)
(*            <<"ans", "L", c>>  the peer's answer to it                   *)
(*            <<"req", "P", r>>  request r of the peer                     *)
(*            <<"ans", "P", r>>  this node's answer to it                  *)
(*                                                                         *)
(* Decides, at the level of the whole stack: C13 (every peer request gets  *)
(* exactly one answer ON THE WIRE), C14 (every caller returns its own      *)
(* answer and always wakes), and the hand-over discipline of the worker's  *)
(* send queue (at most one message queued, the lock held from the put to   *)
(* the transmission) which keeps Worker.send_handler out of its            *)
(* several-messages branch.                                                *)
(***************************************************************************)
EXTENDS Naturals, Sequences, FiniteSets, TLC

CONSTANTS K,            \* local callers 1..K
          R,            \* peer requests 1..R
          Deviations    \* {} is the design; see the D_ comments

Callers == 1..K
PReqs == 1..R
\* D_QueueBeforeRegister: the caller hands its request over first and registers its waiter afterwards (the order of the tree
\* before F-C14-register-after-queue): an answer handled in between finds nobody
QueueFirst == "D_QueueBeforeRegister" \in Deviations
LReq(c) == <<"req", "L", c>>
LAns(c) == <<"ans", "L", c>>
PReq(r) == <<"req", "P", r>>
PAns(r) == <<"ans", "P", r>>
Inbound == {LAns(c) : c \in Callers} \cup {PReq(r) : r \in PReqs}     \* what the main loop starts a thread for
Outbound == {LReq(c) : c \in Callers} \cup {PAns(r) : r \in PReqs}    \* what goes through the worker's send queue
Senders == {<<"caller", c>> : c \in Callers} \cup {<<"route", r>> : r \in PReqs}
MsgOf(s) == IF s[1] = "caller" THEN LReq(s[2]) ELSE PAns(s[2])

VARIABLES
    pNext,      \* next request the peer will send (R + 1: none left)
    answered,   \* local requests the peer has answered (it answers what it has seen on the wire)
    connIn,     \* arrived, not yet returned by Diameter.get_message (FIFO)
    rhMsg,      \* recv_handler: the message it holds between get_message and recv_queue.put (<<>>: none)
    workQ,      \* Worker.recv_queue
    rpc,        \* route threads (one per peer request): "none", "route", "lock", "put", "set", "done"
    dpc,        \* dispatcher threads (one per answer to a local request): "none", "check", "pop", "notify", "waitstop", "end", "dropped"
    cpc,        \* callers: "start", "lock", "put", "set", "wait", "clear", "setstop", "return", "done"
    pending, recvEv, stopEv, pmsg, got,     \* as in module Pending
    sendLock,   \* <<>> or the sender that holds Worker.send_lock (released by the send handler)
    sendQ,      \* Worker.send_queue
    sendEv,     \* Worker.send_event
    shpc,       \* send_handler: "test", "wait", "size", "get", "send", "clear", "release", "dead"
    shMsg,      \* the message the send handler holds
    connOut,    \* handed to Diameter.send_message, not yet on the wire (FIFO)
    wire        \* whole frames written to the socket, in order
vars == <<pNext, answered, connIn, rhMsg, workQ, rpc, dpc, cpc, pending, recvEv, stopEv, pmsg, got,
          sendLock, sendQ, sendEv, shpc, shMsg, connOut, wire>>

Init == /\ pNext = 1 /\ answered = {} /\ connIn = <<>> /\ rhMsg = <<>> /\ workQ = <<>>
        /\ rpc = [r \in PReqs |-> "none"] /\ dpc = [c \in Callers |-> "none"]
        /\ cpc = [c \in Callers |-> IF QueueFirst THEN "lock" ELSE "start"]
        /\ pending = {} /\ recvEv = [c \in Callers |-> FALSE] /\ stopEv = [c \in Callers |-> FALSE]
        /\ pmsg = [c \in Callers |-> 0] /\ got = [c \in Callers |-> 0]
        /\ sendLock = <<>> /\ sendQ = <<>> /\ sendEv = FALSE /\ shpc = "test" /\ shMsg = <<>>
        /\ connOut = <<>> /\ wire = <<>>

InSeq(m, s) == \E i \in 1..Len(s) : s[i] = m

\* ------------------------------------------------------------------ the peer (environment)
PeerRequest == /\ pNext <= R
               /\ connIn' = Append(connIn, PReq(pNext)) /\ pNext' = pNext + 1
               /\ UNCHANGED <<answered, rhMsg, workQ, rpc, dpc, cpc, pending, recvEv, stopEv, pmsg, got,
                              sendLock, sendQ, sendEv, shpc, shMsg, connOut, wire>>
PeerAnswer(c) == /\ InSeq(LReq(c), wire) /\ c \notin answered
                 /\ answered' = answered \cup {c} /\ connIn' = Append(connIn, LAns(c))
                 /\ UNCHANGED <<pNext, rhMsg, workQ, rpc, dpc, cpc, pending, recvEv, stopEv, pmsg, got,
                                sendLock, sendQ, sendEv, shpc, shMsg, connOut, wire>>

\* ------------------------------------------------------------------ inbound: recv_handler, main loop
RhGet == /\ rhMsg = <<>> /\ connIn # <<>>
         /\ rhMsg' = Head(connIn) /\ connIn' = Tail(connIn)
         /\ UNCHANGED <<pNext, answered, workQ, rpc, dpc, cpc, pending, recvEv, stopEv, pmsg, got,
                        sendLock, sendQ, sendEv, shpc, shMsg, connOut, wire>>
RhPut == /\ rhMsg # <<>>
         /\ workQ' = Append(workQ, rhMsg) /\ rhMsg' = <<>>
         /\ UNCHANGED <<pNext, answered, connIn, rpc, dpc, cpc, pending, recvEv, stopEv, pmsg, got,
                        sendLock, sendQ, sendEv, shpc, shMsg, connOut, wire>>
\* Bromelia.main: take the head of the worker's queue and start the thread for it
MainGet == /\ workQ # <<>>
           /\ LET m == Head(workQ) IN
                /\ workQ' = Tail(workQ)
                /\ IF m[1] = "req" THEN /\ rpc' = [rpc EXCEPT ![m[3]] = "route"] /\ dpc' = dpc
                                   ELSE /\ dpc' = [dpc EXCEPT ![m[3]] = "check"] /\ rpc' = rpc
           /\ UNCHANGED <<pNext, answered, connIn, rhMsg, cpc, pending, recvEv, stopEv, pmsg, got,
                          sendLock, sendQ, sendEv, shpc, shMsg, connOut, wire>>

\* ------------------------------------------------------------------ Worker.set_outgoing_message, by a caller or a route thread
PcOf(s) == IF s[1] = "caller" THEN cpc[s[2]] ELSE rpc[s[2]]
SetPc(s, v) == IF s[1] = "caller" THEN /\ cpc' = [cpc EXCEPT ![s[2]] = v] /\ rpc' = rpc
                                  ELSE /\ rpc' = [rpc EXCEPT ![s[2]] = v] /\ cpc' = cpc
SLock(s) == /\ PcOf(s) = "lock"
            /\ \/ /\ sendLock = <<>> /\ sendLock' = s
               \/ /\ "D_NoSendLock" \in Deviations /\ sendLock' = sendLock       \* the put is not serialised
            /\ SetPc(s, "put")
            /\ UNCHANGED <<pNext, answered, connIn, rhMsg, workQ, dpc, pending, recvEv, stopEv, pmsg, got,
                           sendQ, sendEv, shpc, shMsg, connOut, wire>>
SPut(s) == /\ PcOf(s) = "put"
           /\ sendQ' = Append(sendQ, MsgOf(s))
           /\ SetPc(s, "set")
           /\ UNCHANGED <<pNext, answered, connIn, rhMsg, workQ, dpc, pending, recvEv, stopEv, pmsg, got,
                          sendLock, sendEv, shpc, shMsg, connOut, wire>>
SSet(s) == /\ PcOf(s) = "set"
           /\ sendEv' = TRUE
           /\ SetPc(s, IF s[1] = "caller" THEN (IF QueueFirst THEN "reg" ELSE "wait") ELSE "done")
           /\ UNCHANGED <<pNext, answered, connIn, rhMsg, workQ, dpc, pending, recvEv, stopEv, pmsg, got,
                          sendLock, sendQ, shpc, shMsg, connOut, wire>>

\* ------------------------------------------------------------------ route thread r (callback_route)
\* the handler runs (or fails: C13 / module Router decides which answer), the answer is decorated
Route(r) == /\ rpc[r] = "route" /\ rpc' = [rpc EXCEPT ![r] = "lock"]
            /\ UNCHANGED <<pNext, answered, connIn, rhMsg, workQ, dpc, cpc, pending, recvEv, stopEv, pmsg, got,
                           sendLock, sendQ, sendEv, shpc, shMsg, connOut, wire>>

\* ------------------------------------------------------------------ caller c (Bromelia.send_message): register, hand over, wait
Reg(c) == /\ cpc[c] = (IF QueueFirst THEN "reg" ELSE "start") /\ pending' = pending \cup {c} /\ pmsg' = [pmsg EXCEPT ![c] = 0]
          /\ cpc' = [cpc EXCEPT ![c] = IF QueueFirst THEN "wait" ELSE "lock"]
          /\ UNCHANGED <<pNext, answered, connIn, rhMsg, workQ, rpc, dpc, recvEv, stopEv, got,
                         sendLock, sendQ, sendEv, shpc, shMsg, connOut, wire>>
Wake(c) == /\ cpc[c] = "wait" /\ recvEv[c] /\ cpc' = [cpc EXCEPT ![c] = "clear"]
           /\ UNCHANGED <<pNext, answered, connIn, rhMsg, workQ, rpc, dpc, pending, recvEv, stopEv, pmsg, got,
                          sendLock, sendQ, sendEv, shpc, shMsg, connOut, wire>>
Clear(c) == /\ cpc[c] = "clear" /\ recvEv' = [recvEv EXCEPT ![c] = FALSE] /\ cpc' = [cpc EXCEPT ![c] = "setstop"]
            /\ UNCHANGED <<pNext, answered, connIn, rhMsg, workQ, rpc, dpc, pending, stopEv, pmsg, got,
                           sendLock, sendQ, sendEv, shpc, shMsg, connOut, wire>>
SetStop(c) == /\ cpc[c] = "setstop" /\ stopEv' = [stopEv EXCEPT ![c] = TRUE] /\ cpc' = [cpc EXCEPT ![c] = "return"]
              /\ UNCHANGED <<pNext, answered, connIn, rhMsg, workQ, rpc, dpc, pending, recvEv, pmsg, got,
                             sendLock, sendQ, sendEv, shpc, shMsg, connOut, wire>>
Return(c) == /\ cpc[c] = "return" /\ got' = [got EXCEPT ![c] = pmsg[c]] /\ cpc' = [cpc EXCEPT ![c] = "done"]
             /\ UNCHANGED <<pNext, answered, connIn, rhMsg, workQ, rpc, dpc, pending, recvEv, stopEv, pmsg,
                            sendLock, sendQ, sendEv, shpc, shMsg, connOut, wire>>

\* ------------------------------------------------------------------ dispatcher for the answer to caller c (handler_pending_answers)
Check(c) == /\ dpc[c] = "check" /\ dpc' = [dpc EXCEPT ![c] = IF c \in pending THEN "pop" ELSE "dropped"]
            /\ UNCHANGED <<pNext, answered, connIn, rhMsg, workQ, rpc, cpc, pending, recvEv, stopEv, pmsg, got,
                           sendLock, sendQ, sendEv, shpc, shMsg, connOut, wire>>
Pop(c) == /\ dpc[c] = "pop" /\ pending' = pending \ {c} /\ dpc' = [dpc EXCEPT ![c] = "notify"]
          /\ UNCHANGED <<pNext, answered, connIn, rhMsg, workQ, rpc, cpc, recvEv, stopEv, pmsg, got,
                         sendLock, sendQ, sendEv, shpc, shMsg, connOut, wire>>
Notify(c) == /\ dpc[c] = "notify" /\ pmsg' = [pmsg EXCEPT ![c] = c] /\ recvEv' = [recvEv EXCEPT ![c] = TRUE]
             /\ dpc' = [dpc EXCEPT ![c] = "waitstop"]
             /\ UNCHANGED <<pNext, answered, connIn, rhMsg, workQ, rpc, cpc, pending, stopEv, got,
                            sendLock, sendQ, sendEv, shpc, shMsg, connOut, wire>>
WaitStop(c) == /\ dpc[c] = "waitstop" /\ stopEv[c] /\ dpc' = [dpc EXCEPT ![c] = "end"]
               /\ UNCHANGED <<pNext, answered, connIn, rhMsg, workQ, rpc, cpc, pending, recvEv, stopEv, pmsg, got,
                              sendLock, sendQ, sendEv, shpc, shMsg, connOut, wire>>

\* ------------------------------------------------------------------ Worker.send_handler
\* while True: if send_queue.empty(): send_event.wait(1)  else: if qsize == 1: get, send, clear, release
\*                                                             elif qsize > 1: get_outgoing_messages() (returns None) -> send_messages(None)
ShTest == /\ shpc = "test" /\ shpc' = IF sendQ = <<>> THEN "wait" ELSE "size"
          /\ UNCHANGED <<pNext, answered, connIn, rhMsg, workQ, rpc, dpc, cpc, pending, recvEv, stopEv, pmsg, got,
                         sendLock, sendQ, sendEv, shMsg, connOut, wire>>
\* the wait returns when the event is set, or after a second
ShWait == /\ shpc = "wait" /\ shpc' = "test"
          /\ UNCHANGED <<pNext, answered, connIn, rhMsg, workQ, rpc, dpc, cpc, pending, recvEv, stopEv, pmsg, got,
                         sendLock, sendQ, sendEv, shMsg, connOut, wire>>
ShSize == /\ shpc = "size"
          /\ shpc' = IF Len(sendQ) = 1 THEN "get" ELSE IF Len(sendQ) > 1 THEN "dead" ELSE "test"
          /\ UNCHANGED <<pNext, answered, connIn, rhMsg, workQ, rpc, dpc, cpc, pending, recvEv, stopEv, pmsg, got,
                         sendLock, sendQ, sendEv, shMsg, connOut, wire>>
ShGet == /\ shpc = "get" /\ sendQ # <<>>
         /\ shMsg' = Head(sendQ) /\ sendQ' = Tail(sendQ) /\ shpc' = "send"
         /\ UNCHANGED <<pNext, answered, connIn, rhMsg, workQ, rpc, dpc, cpc, pending, recvEv, stopEv, pmsg, got,
                        sendLock, sendEv, connOut, wire>>
ShSend == /\ shpc = "send"
          /\ connOut' = Append(connOut, shMsg) /\ shMsg' = <<>> /\ shpc' = "clear"
          /\ UNCHANGED <<pNext, answered, connIn, rhMsg, workQ, rpc, dpc, cpc, pending, recvEv, stopEv, pmsg, got,
                         sendLock, sendQ, sendEv, wire>>
ShClear == /\ shpc = "clear" /\ sendEv' = FALSE /\ shpc' = "release"
           /\ UNCHANGED <<pNext, answered, connIn, rhMsg, workQ, rpc, dpc, cpc, pending, recvEv, stopEv, pmsg, got,
                          sendLock, sendQ, shMsg, connOut, wire>>
ShRelease == /\ shpc = "release" /\ sendLock' = <<>> /\ shpc' = "test"
             /\ UNCHANGED <<pNext, answered, connIn, rhMsg, workQ, rpc, dpc, cpc, pending, recvEv, stopEv, pmsg, got,
                            sendQ, sendEv, shMsg, connOut, wire>>

\* ------------------------------------------------------------------ the connection writes a queued message to the socket
ConnWrite == /\ connOut # <<>>
             /\ wire' = Append(wire, Head(connOut)) /\ connOut' = Tail(connOut)
             /\ UNCHANGED <<pNext, answered, connIn, rhMsg, workQ, rpc, dpc, cpc, pending, recvEv, stopEv, pmsg, got,
                            sendLock, sendQ, sendEv, shpc, shMsg>>

AllDone == /\ \A c \in Callers : cpc[c] = "done" /\ dpc[c] = "end"
           /\ \A r \in PReqs : rpc[r] = "done"
           /\ connOut = <<>> /\ sendQ = <<>> /\ shMsg = <<>> /\ connIn = <<>> /\ workQ = <<>> /\ rhMsg = <<>>
\* the send handler keeps polling for ever; when everything is done only its idle loop remains
Idle == AllDone /\ shpc \in {"test", "wait"} /\ sendLock = <<>>

Next == \/ PeerRequest \/ \E c \in Callers : PeerAnswer(c)
        \/ RhGet \/ RhPut \/ MainGet
        \/ \E s \in Senders : SLock(s) \/ SPut(s) \/ SSet(s)
        \/ \E r \in PReqs : Route(r)
        \/ \E c \in Callers : Reg(c) \/ Wake(c) \/ Clear(c) \/ SetStop(c) \/ Return(c)
        \/ \E c \in Callers : Check(c) \/ Pop(c) \/ Notify(c) \/ WaitStop(c)
        \/ ShTest \/ ShWait \/ ShSize \/ ShGet \/ ShSend \/ ShClear \/ ShRelease
        \/ ConnWrite

\* fairness: every thread that can run eventually does (the peer sends what it has and answers what it saw)
Fair == /\ WF_vars(PeerRequest) /\ \A c \in Callers : WF_vars(PeerAnswer(c))
        /\ WF_vars(RhGet) /\ WF_vars(RhPut) /\ WF_vars(MainGet) /\ WF_vars(ConnWrite)
        /\ \A s \in Senders : WF_vars(SLock(s)) /\ WF_vars(SPut(s)) /\ WF_vars(SSet(s))
        /\ \A r \in PReqs : WF_vars(Route(r))
        /\ \A c \in Callers : WF_vars(Reg(c)) /\ WF_vars(Wake(c)) /\ WF_vars(Clear(c)) /\ WF_vars(SetStop(c)) /\ WF_vars(Return(c))
        /\ \A c \in Callers : WF_vars(Check(c)) /\ WF_vars(Pop(c)) /\ WF_vars(Notify(c)) /\ WF_vars(WaitStop(c))
        /\ WF_vars(ShTest) /\ WF_vars(ShWait) /\ WF_vars(ShSize) /\ WF_vars(ShGet) /\ WF_vars(ShSend) /\ WF_vars(ShClear) /\ WF_vars(ShRelease)
Spec == Init /\ [][Next]_vars /\ Fair

\* ------------------------------------------------------------------ properties
Count(m, s) == Cardinality({i \in 1..Len(s) : s[i] = m})
Everywhere(m) == Count(m, sendQ) + Count(m, connOut) + Count(m, wire) + (IF shMsg = m THEN 1 ELSE 0)
\* C13, end to end: never more than one answer per peer request anywhere on the way out; exactly one once its thread is done
AtMostOneAnswer == \A r \in PReqs : Everywhere(PAns(r)) <= 1
AnswerAfterRequest == \A r \in PReqs : Everywhere(PAns(r)) > 0 => rpc[r] \in {"set", "done"}
AnsweredWhenDone == \A r \in PReqs : rpc[r] = "done" => Everywhere(PAns(r)) = 1
\* each local request leaves exactly once
RequestOnce == \A c \in Callers : Everywhere(LReq(c)) <= 1
\* C14, end to end
OwnAnswer == \A c \in Callers : got[c] \in {0, c}
NoDrop == \A c \in Callers : dpc[c] # "dropped"
\* the worker's hand-over discipline
OneQueued == Len(sendQ) <= 1
LockedWhileQueued == (sendQ # <<>> \/ shMsg # <<>>) => sendLock # <<>>
HandlerAlive == shpc # "dead"
\* liveness
AllAnswered == <>(\A r \in PReqs : InSeq(PAns(r), wire))
AllReturn == <>(\A c \in Callers : cpc[c] = "done" /\ got[c] = c)
Quiesces == <>[](AllDone)
=============================================================================
