------------------------------- MODULE Router -------------------------------
(***************************************************************************)
(* The routing layer (bromelia/bromelia.py): a route table, one handler    *)
(* thread per inbound request (Bromelia.callback_route), the fallback      *)
(* answer, and the hand-over to the connection worker's send queue.        *)
(*                                                                         *)
(* Sequential part (C13): requests are dispatched one after the other;     *)
(* each is [id, app, cmd, outcome] where outcome is what the registered    *)
(* handler does: "answer", "none", "wrongtype", "raise".                   *)
(* Variables: routes (app -> cmd -> handler), todo (requests not yet       *)
(* handled), ran (sequence of <<request id, handler>>), sent (sequence of  *)
(* [req, kind] placed on the worker's send queue; kind "answer"/"5012").   *)
(*                                                                         *)
(* The pending-answer rendezvous (C14) is module Pending.                  *)
(***************************************************************************)
EXTENDS Naturals, Sequences, FiniteSets, TLC

CONSTANTS Apps, Cmds, MaxReqs

Outcomes == {"answer", "none", "wrongtype", "raise"}
Pairs == Apps \X Cmds
\* every route table: a non-empty set of registered (app, cmd) pairs; the handler registered for a
\* pair is identified by the pair itself
Tables == (SUBSET Pairs) \ {{}}
HandlerOf(p) == <<"handler", p[1], p[2]>>
ReqsOver(T) == UNION {[1..n -> T \X Outcomes] : n \in 1..MaxReqs}      \* request k = <<<<app, cmd>>, outcome>>

VARIABLES table, reqs, todo, ran, sent
vars == <<table, reqs, todo, ran, sent>>

Init == /\ table \in Tables
        /\ reqs \in ReqsOver(table)
        /\ todo = 1 /\ ran = <<>> /\ sent = <<>>

\* callback_route(request k): look the handler up by (Application-ID, command code), run it,
\* decorate and send its answer, or send the fallback answer DIAMETER_UNABLE_TO_COMPLY
Dispatch == /\ todo <= Len(reqs)
            /\ LET rq == reqs[todo] IN
                 /\ rq[1] \in table
                 /\ ran' = Append(ran, <<todo, HandlerOf(rq[1])>>)
                 /\ sent' = Append(sent, [req |-> todo, kind |-> IF rq[2] = "answer" THEN "answer" ELSE "5012"])
            /\ todo' = todo + 1
            /\ UNCHANGED <<table, reqs>>

Next == Dispatch
Spec == Init /\ [][Next]_vars

\* C13
RightHandler == \A i \in 1..Len(ran) : ran[i] = <<i, HandlerOf(reqs[i][1])>>
ExactlyOneAnswer == \A k \in 1..Len(reqs) :
                      Cardinality({i \in 1..Len(sent) : sent[i].req = k}) = IF k < todo THEN 1 ELSE 0
FallbackRule == \A i \in 1..Len(sent) : (sent[i].kind = "5012") = (reqs[sent[i].req][2] # "answer")

\* what a scenario must produce (used to drive the real dispatcher)
ExpectedFor(R) == [ran |-> [k \in 1..Len(R) |-> HandlerOf(R[k][1])],
                   sent |-> [k \in 1..Len(R) |-> IF R[k][2] = "answer" THEN "answer" ELSE "5012"]]
=============================================================================
