---------------------------- MODULE SessionConc ----------------------------
(***************************************************************************)
(* Session-Id generation from several threads (route functions run in a    *)
(* thread per request and build typed messages from an identity string).   *)
(*                                                                         *)
(* SessionHandler.get_session_id(identity):                                *)
(*     _verify_session_id: SessionHandler.id += 1   (load; add; store)     *)
(*     low = SessionHandler.id                      (read)                 *)
(* One action per step that another thread can separate from the next one: *)
(* GLoad, GStore, GRead - under one class-level lock in the design          *)
(* (UseLock = TRUE, GLock / GUnlock around them).  UseLock = FALSE is the   *)
(* tree before F-C16-unlocked-counter: two threads read the same counter    *)
(* value, or one thread reads the value another one has just stored, and    *)
(* two Session-Ids of the process are equal.                               *)
(* Decides the "unique for the life of the process" part of C16 for         *)
(* concurrent generation; Session.tla decides the sequential histories.     *)
(***************************************************************************)
EXTENDS Naturals, Sequences, FiniteSets, TLC

CONSTANTS Threads, PerThread, UseLock

VARIABLES low, owner, pc, tmp, made, out
vars == <<low, owner, pc, tmp, made, out>>

Init == /\ low = 0 /\ owner = 0
        /\ pc = [t \in Threads |-> IF UseLock THEN "lock" ELSE "load"]
        /\ tmp = [t \in Threads |-> 0] /\ made = [t \in Threads |-> 0]
        /\ out = <<>>                     \* the low parts handed out, in order (the high part is fixed for the process)

GLock(t) == /\ pc[t] = "lock" /\ owner = 0 /\ owner' = t /\ pc' = [pc EXCEPT ![t] = "load"]
            /\ UNCHANGED <<low, tmp, made, out>>
GLoad(t) == /\ pc[t] = "load" /\ tmp' = [tmp EXCEPT ![t] = low] /\ pc' = [pc EXCEPT ![t] = "store"]
            /\ UNCHANGED <<low, owner, made, out>>
GStore(t) == /\ pc[t] = "store" /\ low' = tmp[t] + 1 /\ pc' = [pc EXCEPT ![t] = "read"]
             /\ UNCHANGED <<owner, tmp, made, out>>
GRead(t) == /\ pc[t] = "read" /\ out' = Append(out, low) /\ made' = [made EXCEPT ![t] = @ + 1]
            /\ pc' = [pc EXCEPT ![t] = IF UseLock THEN "unlock" ELSE IF made[t] + 1 < PerThread THEN "load" ELSE "done"]
            /\ UNCHANGED <<low, owner, tmp>>
GUnlock(t) == /\ pc[t] = "unlock" /\ owner = t /\ owner' = 0
              /\ pc' = [pc EXCEPT ![t] = IF made[t] < PerThread THEN "lock" ELSE "done"]
              /\ UNCHANGED <<low, tmp, made, out>>

Next == \E t \in Threads : GLock(t) \/ GLoad(t) \/ GStore(t) \/ GRead(t) \/ GUnlock(t)
Spec == Init /\ [][Next]_vars

UniqueConc == \A i, j \in 1..Len(out) : out[i] = out[j] => i = j
=============================================================================
