-------------------------------- MODULE Dict --------------------------------
(***************************************************************************)
(* The AVP dictionary and the typed command table as data.                 *)
(*                                                                         *)
(* A dictionary table is a set of rows                                     *)
(*   [name : STRING, code : Nat, vendor : Nat (or -1 = none), type : STRING,*)
(*    flags : 0..255, src : STRING]                                        *)
(* where src says where the row was read: "tree" (a default-constructed    *)
(* instance of the class in the working tree), "ref" (the frozen reference *)
(* table), "docs" (docs/list-of-avps.md), "iana" (bromelia/definitions.py),*)
(* "wire" (what decoding the dumped instance dispatched to).               *)
(* The concrete tables are generated definitions (Gen_Dict modules).       *)
(*                                                                         *)
(* A command is [key, cmd, app, request, params] with params a sequence of *)
(* [name, avp, kind \in {"mand","opt"}, hasdefault : BOOLEAN] in the order *)
(* the constructor declares them.                                          *)
(*                                                                         *)
(* Decides C09 (Build) and C10a (table invariants).                        *)
(***************************************************************************)
EXTENDS Naturals, Integers, Sequences, FiniteSets, SequencesExt

NoVendor == -1
Key(r) == <<r.vendor, r.code>>

\* the dictionary is a function: no two different definitions share a (vendor, code) pair
IsFunction(T) == \A r, s \in T : Key(r) = Key(s) => r.name = s.name
Collisions(T) == {<<p[1].name, p[2].name>> : p \in {q \in T \X T : Key(q[1]) = Key(q[2]) /\ q[1].name # q[2].name}}

\* V flag set exactly for vendor-specific classes
VFlagRule(T) == \A r \in T : ((r.flags \div 128) % 2 = 1) = (r.vendor # NoVendor)
VFlagBad(T) == {r.name : r \in {x \in T : ((x.flags \div 128) % 2 = 1) # (x.vendor # NoVendor)}}

\* rows of A and B that describe the same class agree on the given fields
Agree(A, B) == \A a \in A, b \in B : a.name = b.name =>
                  (a.code = b.code /\ a.vendor = b.vendor /\ a.type = b.type /\ a.flags = b.flags)
Disagree(A, B) == {a.name : a \in {x \in A : \E b \in B : x.name = b.name /\
                     ~(x.code = b.code /\ x.vendor = b.vendor /\ x.type = b.type /\ x.flags = b.flags)}}
\* weaker agreement (published tables carry only name, code and type)
DisagreeCodeType(A, B) == {a.name : a \in {x \in A : \E b \in B : x.name = b.name /\ ~(x.code = b.code /\ x.type = b.type)}}
DisagreeCode(A, B) == {a.name : a \in {x \in A : \E b \in B : x.name = b.name /\ x.code # b.code}}
\* every class of the reference is still there
Missing(Ref, Tree) == {r.name : r \in {x \in Ref : ~\E t \in Tree : t.name = x.name}}
\* decoding dispatches each (vendor, code) to that class: D is a set of [name, to]
\* (want: the class the bytes must be dispatched to - the class itself, or the generic AVP for a (vendor, code) nobody defines)
DispatchBad(D) == {d.name : d \in {x \in D : x.want # x.to}}

----------------------------------------------------------------------------
(* Typed commands *)

ParamNames(c) == {c.params[i].name : i \in 1..Len(c.params)}
MissingMandatory(c, supplied) ==
    {c.params[i].name : i \in {j \in 1..Len(c.params) :
        c.params[j].kind = "mand" /\ ~c.params[j].hasdefault /\ c.params[j].name \notin supplied}}

\* AVP classes of the built message, in order: declared parameters that are supplied or
\* defaulted, in declaration order, then the extra keyword AVPs in call order.
Present(c, supplied) == SelectSeq(c.params, LAMBDA p : p.name \in supplied \/ p.hasdefault)
Build(c, supplied, extras) ==
    IF MissingMandatory(c, supplied) # {} THEN [ok |-> FALSE]
    ELSE [ok |-> TRUE, cmd |-> c.cmd, request |-> c.request,
          avps |-> [i \in 1..Len(Present(c, supplied)) |-> Present(c, supplied)[i].avp] \o extras]

\* table invariants
\* app < 0: the Application-ID is not fixed by the class (taken from an argument / left to the caller)
AppAgree(x, a) == (x.app >= 0 /\ a.app >= 0) => x.app = a.app
PairsBad(C) == {r.key : r \in {x \in C : \E a \in C : x.lib = a.lib /\ x.base = a.base /\ ~(x.cmd = a.cmd /\ AppAgree(x, a))}}
MandatoryOnce(c) == \A i, j \in 1..Len(c.params) : (c.params[i].name = c.params[j].name) => i = j
=============================================================================
