------------------------------- MODULE Cache -------------------------------
(***************************************************************************)
(* Why the function-level properties (C02 C10 C16 C17 C18 C20 ...) are     *)
(* also checked with two threads inside the function at the same time.     *)
(*                                                                         *)
(* The specification states each of them as a function of the arguments:   *)
(* F(x).  An implementation that keeps state between calls - a one-entry   *)
(* cache, a table built on first use, a registry rebuilt in place - is     *)
(* still that function in every single-threaded history, and stops being   *)
(* one as soon as a second thread runs between two of its steps.           *)
(*                                                                         *)
(* Threads call Compute(x) for arguments of their own.  Mode "none" has no *)
(* shared state; "atomic" stores <<key, value>> in one step; "twostep"     *)
(* stores the key, then the value (the shape of seeded change C17-7);      *)
(* "lazytable" fills a shared table entry by entry behind an "is it empty" *)
(* test (the shape of C18-7).  TLC shows ResultIsFunction for the first    *)
(* two and a counterexample for the others; the harness (engine/concur.py) *)
(* runs the real functions in that interleaving: a thread is stopped after *)
(* k source lines, another one runs a complete call, the first resumes.    *)
(***************************************************************************)
EXTENDS Naturals, FiniteSets, TLC

CONSTANTS Threads, Args, Mode      \* Args: a set of naturals; F(x) = x + 100 stands for the real function

F(x) == x + 100
NoKey == 0
VARIABLES pc, arg, res, ckey, cval, table
vars == <<pc, arg, res, ckey, cval, table>>

Init == /\ pc = [t \in Threads |-> "idle"] /\ arg = [t \in Threads |-> NoKey] /\ res = [t \in Threads |-> NoKey]
        /\ ckey = NoKey /\ cval = NoKey /\ table = {}

Call(t, x) == /\ pc[t] = "idle" /\ arg' = [arg EXCEPT ![t] = x] /\ res' = [res EXCEPT ![t] = NoKey]
              /\ pc' = [pc EXCEPT ![t] = IF Mode = "lazytable" THEN "testtable" ELSE "lookup"]
              /\ UNCHANGED <<ckey, cval, table>>
\* one-entry cache
Lookup(t) == /\ pc[t] = "lookup"
             /\ IF Mode \in {"atomic", "twostep"} /\ ckey = arg[t] /\ ckey # NoKey
                  THEN /\ res' = [res EXCEPT ![t] = cval] /\ pc' = [pc EXCEPT ![t] = "done"]
                  ELSE /\ res' = res /\ pc' = [pc EXCEPT ![t] = "compute"]
             /\ UNCHANGED <<arg, ckey, cval, table>>
Compute(t) == /\ pc[t] = "compute"
              /\ CASE Mode = "none" -> /\ res' = [res EXCEPT ![t] = F(arg[t])] /\ pc' = [pc EXCEPT ![t] = "done"]
                                       /\ UNCHANGED <<ckey, cval>>
                   [] Mode = "atomic" -> /\ res' = [res EXCEPT ![t] = F(arg[t])] /\ pc' = [pc EXCEPT ![t] = "done"]
                                         /\ ckey' = arg[t] /\ cval' = F(arg[t])
                   [] OTHER -> /\ ckey' = arg[t] /\ pc' = [pc EXCEPT ![t] = "storeval"] /\ UNCHANGED <<res, cval>>
              /\ UNCHANGED <<arg, table>>
StoreVal(t) == /\ pc[t] = "storeval"
               /\ cval' = F(arg[t]) /\ res' = [res EXCEPT ![t] = F(arg[t])] /\ pc' = [pc EXCEPT ![t] = "done"]
               /\ UNCHANGED <<arg, ckey, table>>
\* table built on first use: "if not table: fill it", entry by entry
TestTable(t) == /\ pc[t] = "testtable"
                /\ pc' = [pc EXCEPT ![t] = IF table = {} THEN "fill" ELSE "usetable"]
                /\ UNCHANGED <<arg, res, ckey, cval, table>>
Fill(t) == /\ pc[t] = "fill"
           /\ IF table = Args THEN pc' = [pc EXCEPT ![t] = "usetable"] /\ table' = table
                              ELSE /\ table' = table \cup {CHOOSE x \in Args \ table : TRUE} /\ pc' = pc
           /\ UNCHANGED <<arg, res, ckey, cval>>
UseTable(t) == /\ pc[t] = "usetable"
               /\ res' = [res EXCEPT ![t] = IF arg[t] \in table THEN F(arg[t]) ELSE 999]      \* 999: KeyError
               /\ pc' = [pc EXCEPT ![t] = "done"]
               /\ UNCHANGED <<arg, ckey, cval, table>>
Return(t) == /\ pc[t] = "done" /\ pc' = [pc EXCEPT ![t] = "idle"] /\ UNCHANGED <<arg, res, ckey, cval, table>>

Next == \E t \in Threads : (\E x \in Args : Call(t, x)) \/ Lookup(t) \/ Compute(t) \/ StoreVal(t) \/ TestTable(t) \/ Fill(t)
                           \/ UseTable(t) \/ Return(t)
Spec == Init /\ [][Next]_vars

ResultIsFunction == \A t \in Threads : pc[t] = "done" => res[t] = F(arg[t])
=============================================================================
