-------------------------------- MODULE Life --------------------------------
(***************************************************************************)
(* The end of a connection (bromelia/statemachine.py PeerStateMachine       *)
(* get_next_state / __start, State.set_closed_state; bromelia/setup.py       *)
(* DiameterAssociation.close / recv_message_from_queue / get_message /       *)
(* get_postprocess_recv_message, Diameter.close; bromelia/transport.py       *)
(* TcpConnection.close / _run).                                             *)
(*                                                                         *)
(* One connection of one node: the state machine thread (psm), the           *)
(* transport thread (tr), the receive worker (wk), application threads       *)
(* blocked in get_message (Consumers) and an application thread calling      *)
(* close().  The environment (peer) may disconnect at any moment, send a     *)
(* DPR while the connection is open, answer a DPR, or refuse the connection. *)
(* Every read of a flag shared without a lock is its own step: the teardown  *)
(* is not atomic in the code and the model keeps its steps apart.            *)
(*                                                                         *)
(* Deviations (each one is a behaviour the pinned tree had):                 *)
(*   D_BlockingGet      a consumer takes from the delivery queue with a       *)
(*                      blocking get while holding both locks                *)
(*   D_NoWakeOnClose    close() does not set the go-ahead event               *)
(*   D_ServerEofIgnored a server whose peer disconnects before the CER        *)
(*                      never releases its transport                         *)
(*   D_SetupEofIgnored  a client waiting for the CEA does not notice the      *)
(*                      peer's disconnect                                    *)
(*   D_WorkerUnguarded  the worker uses self.transport after the check,       *)
(*                      outside the try/finally that releases the lock       *)
(*   D_UnlockedStop     close() raises the stop flag and the go-ahead         *)
(*                      without the delivery lock                            *)
(*   D_ResetUnhandled   a connection reset (recv raises) ends the transport        *)
(*                      thread without raising its stop flag                 *)
(*   D_ConnectedBeforeRegistered  TcpClient.start() reports connected before   *)
(*                      the socket is registered with the selector          *)
(*   D_CloseSkipsUnregistered     close() does not close a socket that is not *)
(*                      registered yet                                       *)
(*   D_SenderKeepsLock  send_message() on a connection that has just ended    *)
(*                      raises with the association lock held                *)
(* Decides C08.                                                             *)
(***************************************************************************)
EXTENDS Naturals, FiniteSets, Sequences, TLC

CONSTANTS Role,          \* "client" | "server"
          Consumers,     \* application threads that call get_message()
          Budget,        \* number of application messages the peer may send
          Deviations

VARIABLES phase,         \* state reported to the application: "Setup" "Open" "Closing" "Closed"
          running,       \* PeerStateMachine.is_running
          ppc,           \* state machine thread
          active,        \* association.state_is_active
          stopA,         \* association._stop_threads
          trSet,         \* association.transport is not None
          connected, trStop, sockOpen, lsnOpen,
          tpc,           \* transport thread
          wpc,           \* receive worker
          alock, plock,  \* association lock, delivery lock: 0 = free, else the holder
          ready,         \* postprocess_recv_messages_ready
          postQ,         \* number of delivered, not yet consumed messages
          cpc, cmsg,     \* consumers
          apc,           \* application thread calling close(): "idle" "done"
          spc,           \* application thread calling send_message(): "idle" "acq" "chk" "done"
          peerEof, rst, dprIn, dprSent, dpaIn, estab, refused, inbound, budget,
          registered,    \* the socket is registered with the selector
          stpc           \* application thread inside Diameter.start(): "conn" "reg" "flag" "run" "worker" "done"
vars == <<phase, running, ppc, active, stopA, trSet, connected, trStop, sockOpen, lsnOpen, tpc, wpc, alock, plock, ready, postQ, cpc, cmsg, apc, spc,
          peerEof, rst, dprIn, dprSent, dpaIn, estab, refused, inbound, budget, registered, stpc>>

Free == 0
PSM == 100  WK == 101
Dev(d) == d \in Deviations

\* start() has created the state machine thread (already ticking) and the transport object; it is about to connect
Init == /\ phase = "Setup" /\ running = TRUE /\ ppc = "tick" /\ active = FALSE /\ stopA = FALSE /\ trSet = TRUE
        /\ connected = FALSE /\ trStop = FALSE /\ sockOpen = TRUE /\ lsnOpen = (Role = "server")
        /\ tpc = "none" /\ wpc = "none" /\ alock = Free /\ plock = Free /\ ready = FALSE /\ postQ = 0
        /\ cpc = [c \in Consumers |-> "idle"] /\ cmsg = [c \in Consumers |-> FALSE] /\ apc = "idle" /\ spc = "idle"
        /\ peerEof = FALSE /\ rst = FALSE /\ dprIn = FALSE /\ dprSent = FALSE /\ dpaIn = FALSE /\ estab = FALSE
        /\ refused \in (IF Role = "client" THEN BOOLEAN ELSE {FALSE}) /\ inbound = 0 /\ budget = Budget
        /\ registered = FALSE /\ stpc = "conn"
\* the state once start() has returned normally (where recorded executions begin)
StartedInit == /\ phase = "Setup" /\ running = TRUE /\ ppc = "tick" /\ active = FALSE /\ stopA = FALSE /\ trSet = TRUE
               /\ connected = TRUE /\ trStop = FALSE /\ sockOpen = TRUE /\ lsnOpen = (Role = "server")
               /\ tpc = "check" /\ wpc = "top" /\ alock = Free /\ plock = Free /\ ready = FALSE /\ postQ = 0
               /\ cpc = [c \in Consumers |-> "idle"] /\ cmsg = [c \in Consumers |-> FALSE] /\ apc = "idle" /\ spc = "idle"
               /\ peerEof = FALSE /\ rst = FALSE /\ dprIn = FALSE /\ dprSent = FALSE /\ dpaIn = FALSE /\ estab = FALSE
               /\ refused \in (IF Role = "client" THEN BOOLEAN ELSE {FALSE}) /\ inbound = 0 /\ budget = Budget
               /\ registered = TRUE /\ stpc = "done"

(* ------------------------------------------------------------ application: the rest of start() *)
\* TcpClient.start(): connect, register with the selector, report connected (repaired order); then transport.run() starts the
\* transport thread (it raises when the connection has already been closed) and the receive worker is started
Starter ==
    /\ \/ /\ stpc = "conn" /\ stpc' = (IF Dev("D_ConnectedBeforeRegistered") THEN "flag" ELSE "reg")
          /\ UNCHANGED <<registered, connected, tpc, wpc>>
       \/ /\ stpc = "reg" /\ registered' = sockOpen                       \* (registering a closed socket fails and is only logged)
          /\ stpc' = (IF Dev("D_ConnectedBeforeRegistered") THEN "run" ELSE IF sockOpen THEN "flag" ELSE "run")
          /\ UNCHANGED <<connected, tpc, wpc>>
       \/ /\ stpc = "flag" /\ connected' = TRUE /\ stpc' = (IF Dev("D_ConnectedBeforeRegistered") THEN "reg" ELSE "run")
          /\ UNCHANGED <<registered, tpc, wpc>>
       \/ /\ stpc = "run"
          /\ IF trSet /\ connected THEN tpc' = "check" /\ stpc' = "worker" ELSE stpc' = "done" /\ UNCHANGED tpc     \* (else start() raises)
          /\ UNCHANGED <<registered, connected, wpc>>
       \/ /\ stpc = "worker" /\ wpc' = "top" /\ stpc' = "done" /\ UNCHANGED <<registered, connected, tpc>>
    /\ UNCHANGED <<phase, running, ppc, active, stopA, trSet, trStop, sockOpen, lsnOpen, alock, plock, ready, postQ, cpc, cmsg, apc, spc,
                   peerEof, rst, dprIn, dprSent, dpaIn, estab, refused, inbound, budget>>

(* ------------------------------------------------------------ environment *)
\* the capabilities exchange completes (CEA / CER arrives); never on a refused connection
Establish == /\ ~estab /\ ~refused /\ ~peerEof /\ phase = "Setup" /\ connected /\ registered /\ estab' = TRUE
             /\ UNCHANGED <<phase, running, ppc, active, stopA, trSet, connected, trStop, sockOpen, lsnOpen, tpc, wpc, alock, plock, ready, postQ, cpc, cmsg, apc, spc,
                            peerEof, rst, dprIn, dprSent, dpaIn, refused, inbound, budget>>
\* the peer goes away: orderly (FIN, recv returns nothing) or abruptly (RST, recv raises)
PeerEof == /\ ~peerEof /\ ~refused /\ peerEof' = TRUE /\ rst' \in BOOLEAN
           /\ UNCHANGED <<phase, running, ppc, active, stopA, trSet, connected, trStop, sockOpen, lsnOpen, tpc, wpc, alock, plock, ready, postQ, cpc, cmsg, apc, spc,
                          dprIn, dprSent, dpaIn, estab, refused, inbound, budget>>
PeerDpr == /\ phase = "Open" /\ ~dprIn /\ ~peerEof /\ dprIn' = TRUE
           /\ UNCHANGED <<phase, running, ppc, active, stopA, trSet, connected, trStop, sockOpen, lsnOpen, tpc, wpc, alock, plock, ready, postQ, cpc, cmsg, apc, spc,
                          peerEof, rst, dprSent, dpaIn, estab, refused, inbound, budget>>
PeerDpa == /\ dprSent /\ ~dpaIn /\ ~peerEof /\ dpaIn' = TRUE
           /\ UNCHANGED <<phase, running, ppc, active, stopA, trSet, connected, trStop, sockOpen, lsnOpen, tpc, wpc, alock, plock, ready, postQ, cpc, cmsg, apc, spc,
                          peerEof, rst, dprIn, dprSent, estab, refused, inbound, budget>>
\* an application message from the peer reaches the state machine's queue (at most 2)
PeerMsg == /\ phase = "Open" /\ budget > 0 /\ ~peerEof /\ inbound' = inbound + 1 /\ budget' = budget - 1
           /\ UNCHANGED <<phase, running, ppc, active, stopA, trSet, connected, trStop, sockOpen, lsnOpen, tpc, wpc, alock, plock, ready, postQ, cpc, cmsg, apc, spc,
                          peerEof, rst, dprIn, dprSent, dpaIn, estab, refused>>
Env == Establish \/ PeerEof \/ PeerDpr \/ PeerDpa \/ PeerMsg

(* ------------------------------------------------------------ application: close() *)
\* Diameter.close(): raises when Closed, otherwise only clears state_is_active
AppClose == /\ apc = "idle" /\ phase # "Closed" /\ active' = FALSE /\ apc' = "done"
            /\ UNCHANGED <<phase, running, ppc, stopA, trSet, connected, trStop, sockOpen, lsnOpen, tpc, wpc, alock, plock, ready, postQ, cpc, cmsg, spc,
                           peerEof, rst, dprIn, dprSent, dpaIn, estab, refused, inbound, budget>>

(* ------------------------------------------------------------ state machine thread *)
PUnch == UNCHANGED <<tpc, wpc, cpc, cmsg, apc, spc, peerEof, rst, estab, refused, budget>>
\* a tick that decides to close starts the teardown (get_next_state(CLOSED))
StartTeardown == ppc' = "t_run"
PTickSetup ==
    /\ ppc = "tick" /\ phase = "Setup"
    /\ \/ /\ refused /\ Role = "client" /\ trSet /\ connected               \* Conn-Nack (test_connection needs a connection object)
          /\ StartTeardown /\ UNCHANGED active
       \/ /\ trStop /\ ~refused /\ trSet /\ connected                        \* Peer-Disc during setup
          /\ IF Role = "server" THEN ~Dev("D_ServerEofIgnored") ELSE ~Dev("D_SetupEofIgnored")
          /\ StartTeardown /\ UNCHANGED active
       \/ /\ estab /\ ~trStop /\ active' = TRUE /\ ppc' = "opening"       \* set_open_state(early_stage): the flag first,
    /\ UNCHANGED <<phase, running, stopA, trSet, connected, trStop, sockOpen, lsnOpen, alock, plock, ready, postQ, dprIn, dprSent, dpaIn, inbound>>
    /\ PUnch
\* the CER goes out through selector.modify(): on a socket that is not registered yet it raises, the locks stay held
PDiesUnregistered == /\ ppc = "tick" /\ phase = "Setup" /\ Role = "client" /\ ~refused /\ trSet /\ connected /\ ~registered /\ alock = Free
                     /\ ppc' = "dead" /\ alock' = PSM
                     /\ UNCHANGED <<phase, running, active, stopA, trSet, connected, trStop, sockOpen, lsnOpen, plock, ready, postQ, dprIn, dprSent, dpaIn, inbound>>
                     /\ PUnch
POpening == /\ ppc = "opening" /\ phase' = "Open" /\ ppc' = "tick"          \* ... the state object after the tick
            /\ UNCHANGED <<running, active, stopA, trSet, connected, trStop, sockOpen, lsnOpen, alock, plock, ready, postQ, dprIn, dprSent, dpaIn, inbound>>
            /\ PUnch
\* Open.run: release from the peer first, then local stop, then the queues (one message per tick)
PTickOpen ==
    /\ ppc = "tick" /\ phase = "Open"
    /\ IF trStop THEN StartTeardown /\ UNCHANGED <<phase, dprSent, dprIn, inbound>>
       ELSE IF ~active THEN phase' = "Closing" /\ dprSent' = TRUE /\ UNCHANGED <<ppc, dprIn, inbound>>
       ELSE \/ /\ dprIn /\ dprIn' = FALSE /\ ppc' = "f_sleep" /\ UNCHANGED <<phase, dprSent, inbound>>      \* DPA sent, forced close
            \/ /\ inbound > 0 /\ alock = Free /\ inbound' = inbound - 1 /\ ppc' = "d_lock" /\ UNCHANGED <<phase, dprSent, dprIn>>
    /\ UNCHANGED <<running, active, stopA, trSet, connected, trStop, sockOpen, lsnOpen, alock, plock, ready, postQ, dpaIn>>
    /\ PUnch
\* notify_postprocess_message: lock, put, set, unlock
PDeliver == /\ \/ ppc = "d_lock" /\ plock = Free /\ plock' = PSM /\ ppc' = "d_put" /\ UNCHANGED <<postQ, ready>>
               \/ ppc = "d_put" /\ postQ' = postQ + 1 /\ ppc' = "d_set" /\ UNCHANGED <<plock, ready>>
               \/ ppc = "d_set" /\ ready' = TRUE /\ ppc' = "d_unlock" /\ UNCHANGED <<plock, postQ>>
               \/ ppc = "d_unlock" /\ plock' = Free /\ ppc' = "tick" /\ UNCHANGED <<postQ, ready>>
            /\ UNCHANGED <<phase, running, active, stopA, trSet, connected, trStop, sockOpen, lsnOpen, alock, dprIn, dprSent, dpaIn, inbound>>
            /\ PUnch
PTickClosing ==
    /\ ppc = "tick" /\ phase = "Closing"
    /\ IF trStop THEN StartTeardown /\ UNCHANGED dpaIn
       ELSE dpaIn /\ dpaIn' = FALSE /\ ppc' = "f_sleep"
    /\ UNCHANGED <<phase, running, active, stopA, trSet, connected, trStop, sockOpen, lsnOpen, alock, plock, ready, postQ, dprIn, dprSent, inbound>>
    /\ PUnch
\* raising the stop flag and giving the go-ahead (repaired: under the delivery lock)
Stopper(from, to) ==
    \/ /\ ppc = from /\ ~Dev("D_UnlockedStop") /\ plock = Free /\ plock' = PSM /\ ppc' = from \o "_stop" /\ UNCHANGED <<stopA, ready>>
    \/ /\ ppc = from /\ Dev("D_UnlockedStop") /\ stopA' = TRUE /\ ppc' = (IF from = "f_lock" THEN "f_oldset" ELSE to) /\ UNCHANGED <<plock, ready>>
    \/ /\ ppc = from \o "_stop" /\ stopA' = TRUE /\ ppc' = from \o "_ready" /\ UNCHANGED <<plock, ready>>
    \/ /\ ppc = from \o "_ready" /\ ready' = (IF Dev("D_NoWakeOnClose") /\ from = "t_lock" THEN ready ELSE TRUE) /\ ppc' = from \o "_unlock" /\ UNCHANGED <<plock, stopA>>
    \/ /\ ppc = from \o "_unlock" /\ plock' = Free /\ ppc' = to /\ UNCHANGED <<stopA, ready>>
\* set_closed_state(force=True): sleep, raise the stop flag, wake the consumers
PForce == /\ \/ ppc = "f_sleep" /\ ppc' = "f_lock" /\ UNCHANGED <<stopA, ready, plock>>
             \/ Stopper("f_lock", "t_run")
             \/ ppc = "f_oldset" /\ ready' = TRUE /\ ppc' = "t_run" /\ UNCHANGED <<stopA, plock>>      \* (before the repair: set without the lock)
          /\ UNCHANGED <<phase, running, active, trSet, connected, trStop, sockOpen, lsnOpen, alock, postQ, dprIn, dprSent, dpaIn, inbound>>
          /\ PUnch
\* get_next_state(CLOSED) -> association.close() -> transport.close(); then the thread leaves its loop
PTeardown ==
    /\ \/ /\ ppc = "t_run" /\ running' = FALSE /\ ppc' = "t_active"
          /\ UNCHANGED <<phase, active, stopA, trSet, connected, trStop, sockOpen, lsnOpen, ready, plock>>
       \/ /\ ppc = "t_active" /\ active' = FALSE /\ ppc' = "t_lock"
          /\ UNCHANGED <<phase, running, stopA, trSet, connected, trStop, sockOpen, lsnOpen, ready, plock>>
       \/ /\ Stopper("t_lock", "t_conn")
          /\ UNCHANGED <<phase, running, active, trSet, connected, trStop, sockOpen, lsnOpen>>
       \/ /\ ppc = "t_conn" /\ connected' = FALSE /\ ppc' = "t_sock"
          /\ UNCHANGED <<phase, running, active, stopA, trSet, trStop, sockOpen, lsnOpen, ready, plock>>
       \* (before the repair an unregistered socket was not closed: unregister raised first)
       \/ /\ ppc = "t_sock" /\ sockOpen' = (IF Dev("D_CloseSkipsUnregistered") /\ ~registered THEN sockOpen ELSE FALSE) /\ ppc' = "t_trstop"
          /\ UNCHANGED <<phase, running, active, stopA, trSet, connected, trStop, lsnOpen, ready, plock>>
       \/ /\ ppc = "t_trstop" /\ trStop' = TRUE /\ ppc' = (IF lsnOpen THEN "t_lsn" ELSE "t_none")
          /\ UNCHANGED <<phase, running, active, stopA, trSet, connected, sockOpen, lsnOpen, ready, plock>>
       \/ /\ ppc = "t_lsn" /\ lsnOpen' = FALSE /\ ppc' = "t_none"
          /\ UNCHANGED <<phase, running, active, stopA, trSet, connected, trStop, sockOpen, ready, plock>>
       \/ /\ ppc = "t_none" /\ trSet' = FALSE /\ ppc' = "t_set"
          /\ UNCHANGED <<phase, running, active, stopA, connected, trStop, sockOpen, lsnOpen, ready, plock>>
       \* (before the repair the go-ahead was given here, last and without the lock)
       \/ /\ ppc = "t_set" /\ ready' = (IF Dev("D_UnlockedStop") /\ ~Dev("D_NoWakeOnClose") THEN TRUE ELSE ready) /\ ppc' = "t_state"
          /\ UNCHANGED <<phase, running, active, stopA, trSet, connected, trStop, sockOpen, lsnOpen, plock>>
       \/ /\ ppc = "t_state" /\ phase' = "Closed" /\ ppc' = "done"
          /\ UNCHANGED <<running, active, stopA, trSet, connected, trStop, sockOpen, lsnOpen, ready, plock>>
    /\ UNCHANGED <<alock, postQ, dprIn, dprSent, dpaIn, inbound>>
    /\ PUnch
Psm == PTickSetup \/ PDiesUnregistered \/ POpening \/ PTickOpen \/ PDeliver \/ PTickClosing \/ PForce \/ PTeardown

(* ------------------------------------------------------------ transport thread *)
TUnch == UNCHANGED <<phase, running, ppc, active, stopA, trSet, connected, sockOpen, lsnOpen, wpc, alock, plock, ready, postQ, cpc, cmsg, apc, spc,
                     peerEof, rst, dprIn, dprSent, dpaIn, estab, refused, inbound, budget>>
\* while self.is_connected and not self._stop_threads: select(); handle events
TCheck == /\ tpc = "check" /\ tpc' = (IF connected /\ ~trStop THEN "select" ELSE "done") /\ UNCHANGED trStop /\ TUnch
\* the peer's disconnect is read as an empty recv(); a closed socket makes the handler fail (the thread ends)
TSelect == /\ tpc = "select"
           /\ IF ~sockOpen THEN tpc' = "done" /\ UNCHANGED trStop
              ELSE IF peerEof /\ rst /\ Dev("D_ResetUnhandled") THEN tpc' = "done" /\ UNCHANGED trStop      \* the thread dies, nobody is told
              ELSE IF peerEof \/ refused THEN trStop' = (IF refused THEN trStop ELSE TRUE) /\ tpc' = "check"
              ELSE tpc' = "check" /\ UNCHANGED trStop
           /\ TUnch
Tr == TCheck \/ TSelect

(* ------------------------------------------------------------ receive worker *)
WUnch == UNCHANGED <<phase, running, ppc, active, stopA, trSet, connected, trStop, sockOpen, lsnOpen, tpc, plock, ready, postQ, cpc, cmsg, apc, spc,
                     peerEof, rst, dprIn, dprSent, dpaIn, estab, refused, inbound, budget>>
\* while not self._stop_threads and self.transport:
WTop == /\ wpc = "top" /\ wpc' = (IF ~stopA /\ trSet THEN "wait" ELSE "done") /\ UNCHANGED alock /\ WUnch
\* self.transport._recv_data_available.wait(1): a second read of self.transport (AttributeError ends the thread, no lock held)
WWait == /\ wpc = "wait" /\ wpc' = (IF trSet THEN "acq" ELSE "done") /\ UNCHANGED alock /\ WUnch
WAcq == /\ wpc = "acq" /\ alock = Free /\ alock' = WK /\ wpc' = "chk" /\ WUnch
\* if self.transport is None: release; break
WChk == /\ wpc = "chk"
        /\ IF trSet THEN wpc' = "take" /\ UNCHANGED alock ELSE alock' = Free /\ wpc' = "done"
        /\ WUnch
\* self.transport.take_recv_data_stream() ... finally: release.
\* (repaired: the transport object is read once, before; deviation: read again here, outside the try/finally)
WTake == /\ wpc = "take"
         /\ IF Dev("D_WorkerUnguarded") /\ ~trSet THEN wpc' = "done" /\ UNCHANGED alock            \* dies holding the lock
            ELSE alock' = Free /\ wpc' = "top"
         /\ WUnch
Wk == WTop \/ WWait \/ WAcq \/ WChk \/ WTake

(* ------------------------------------------------------------ consumers: get_message() *)
CUnch == UNCHANGED <<phase, running, ppc, active, stopA, trSet, connected, trStop, sockOpen, lsnOpen, tpc, wpc, apc, spc,
                     peerEof, rst, dprIn, dprSent, dpaIn, estab, refused, inbound, budget>>
Set(c, v) == cpc' = [cpc EXCEPT ![c] = v]
CCall(c) == /\ cpc[c] = "idle" /\ phase \in {"Setup", "Open", "Closing"} /\ Set(c, "top") /\ UNCHANGED <<alock, plock, ready, postQ, cmsg>> /\ CUnch
\* while not self._stop_threads:
CTop(c) == /\ cpc[c] = "top" /\ Set(c, IF stopA THEN "ret" ELSE "check") /\ UNCHANGED <<alock, plock, ready, postQ, cmsg>> /\ CUnch
\* if queue.empty(): ready.wait()
CCheck(c) == /\ cpc[c] = "check" /\ Set(c, IF postQ = 0 THEN "wait" ELSE "acq") /\ UNCHANGED <<alock, plock, ready, postQ, cmsg>> /\ CUnch
CWait(c) == /\ cpc[c] = "wait" /\ ready /\ Set(c, "acq") /\ UNCHANGED <<alock, plock, ready, postQ, cmsg>> /\ CUnch
CAcq(c) == /\ cpc[c] = "acq" /\ alock = Free /\ alock' = c /\ Set(c, "plock") /\ UNCHANGED <<plock, ready, postQ, cmsg>> /\ CUnch
CPlock(c) == /\ cpc[c] = "plock" /\ plock = Free /\ plock' = c /\ Set(c, "take") /\ UNCHANGED <<alock, ready, postQ, cmsg>> /\ CUnch
\* under both locks: get_nowait(); decide whether the go-ahead is withdrawn (reads the stop flag)
CTake(c) == /\ cpc[c] = "take"
            /\ IF postQ > 0
               THEN postQ' = postQ - 1 /\ cmsg' = [cmsg EXCEPT ![c] = TRUE]
                    /\ Set(c, IF postQ = 1 /\ ~stopA THEN "clear" ELSE "punlock")
               ELSE /\ ~Dev("D_BlockingGet")                  \* (pinned tree: Queue.get() blocks here, both locks held)
                    /\ Set(c, IF ~stopA THEN "clear" ELSE "punlock") /\ UNCHANGED <<postQ, cmsg>>
            /\ UNCHANGED <<alock, plock, ready>> /\ CUnch
CClear(c) == /\ cpc[c] = "clear" /\ ready' = FALSE /\ Set(c, "punlock") /\ UNCHANGED <<alock, plock, postQ, cmsg>> /\ CUnch
CPUnlock(c) == /\ cpc[c] = "punlock" /\ plock' = Free /\ Set(c, "aunlock") /\ UNCHANGED <<alock, ready, postQ, cmsg>> /\ CUnch
CAUnlock(c) == /\ cpc[c] = "aunlock" /\ alock' = Free
               /\ Set(c, IF cmsg[c] THEN "ret" ELSE "top") /\ UNCHANGED <<plock, ready, postQ, cmsg>> /\ CUnch
Cons == \E c \in Consumers : CCall(c) \/ CTop(c) \/ CCheck(c) \/ CWait(c) \/ CAcq(c) \/ CPlock(c) \/ CTake(c) \/ CClear(c) \/ CPUnlock(c) \/ CAUnlock(c)

(* ------------------------------------------------------------ application: send_message() *)
\* put_message_into_send_queue: lock; the connection must still be there (an error goes to the caller); queue; unlock
SUnch == UNCHANGED <<phase, running, ppc, active, stopA, trSet, connected, trStop, sockOpen, lsnOpen, tpc, wpc, plock, ready, postQ, cpc, cmsg, apc,
                     peerEof, rst, dprIn, dprSent, dpaIn, estab, refused, inbound, budget>>
SCall == /\ spc \in {"idle", "done"} /\ phase = "Open" /\ spc' = "acq" /\ UNCHANGED alock /\ SUnch
SAcq == /\ spc = "acq" /\ alock = Free /\ alock' = 102 /\ spc' = "chk" /\ SUnch
SChk == /\ spc = "chk" /\ spc' = "done"
        /\ alock' = (IF ~(trSet /\ connected) /\ Dev("D_SenderKeepsLock") THEN alock ELSE Free)      \* (pinned: raises with the lock held)
        /\ SUnch
Snd == SCall \/ SAcq \/ SChk

Old == Psm \/ Tr \/ Wk \/ Cons \/ Snd
Threads == (Old /\ UNCHANGED <<registered, stpc>>) \/ Starter
Next == ((Env \/ AppClose) /\ UNCHANGED <<registered, stpc>>) \/ Threads
Spec == Init /\ [][Next]_vars
\* every thread keeps running; the peer answers a DPR or goes away
Keep == UNCHANGED <<registered, stpc>>
FairSpec == Spec /\ WF_vars(Psm /\ Keep) /\ WF_vars(Tr /\ Keep) /\ WF_vars(Wk /\ Keep) /\ WF_vars(Cons /\ Keep) /\ WF_vars(Snd /\ Keep)
                 /\ WF_vars(Starter) /\ WF_vars((PeerDpa \/ PeerEof) /\ Keep)

(* ------------------------------------------------------------ C08 *)
Released == /\ phase = "Closed" /\ ppc = "done" /\ tpc \in {"done", "none"} /\ wpc \in {"done", "none"} /\ stpc = "done" /\ ~sockOpen /\ ~lsnOpen /\ ~trSet
            /\ \A c \in Consumers : cpc[c] \in {"idle", "ret"}
            /\ alock = Free /\ plock = Free /\ spc \in {"idle", "done"}
\* the connection is ending: a release event has been taken by the state machine
Ending == ppc \notin {"tick", "opening", "d_lock", "d_put", "d_set", "d_unlock"}
\* safety form: when no thread can take a step any more and the connection was ending, everything is released
\* (a state in which threads are stuck is a counterexample)
TerminalOk == (Ending /\ ~ENABLED Threads) => Released
\* Closed is reported only once the transport has been released (restartable: start() accepts Closed only)
ClosedIsReleased == phase = "Closed" => (~sockOpen /\ ~lsnOpen /\ ~trSet /\ ~running)
\* nobody finishes while holding a lock
NoLockLeak == /\ (wpc = "done" => alock # WK) /\ (ppc \in {"done", "dead"} => (plock # PSM /\ alock # PSM))
              /\ \A c \in Consumers : cpc[c] \in {"idle", "ret"} => (alock # c /\ plock # c)
              /\ (spc = "done" => alock # 102)
\* a release event leads to the released state
EventuallyReleased == Ending ~> Released
\* every release cause is taken: peer disconnect / refused connection / DPR / close() while open
CausesEnd == /\ peerEof ~> Released
             /\ (trStop /\ ~refused) ~> Released
             /\ (refused /\ Role = "client") ~> Released
             /\ (phase = "Open" /\ dprIn) ~> Released
             /\ (phase = "Open" /\ ~active) ~> Released
=============================================================================
