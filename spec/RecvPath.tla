------------------------------ MODULE RecvPath ------------------------------
(***************************************************************************)
(* The inbound path of a connection, as repaired (bromelia/transport.py     *)
(* read / take_recv_data_stream, bromelia/setup.py recv_message_from_queue / *)
(* get_message / get_postprocess_recv_message, bromelia/statemachine.py      *)
(* State.get_message / notify_postprocess_message).                         *)
(*                                                                         *)
(* The peer sends messages 1..N; message m is the unit sequence              *)
(* <<m,1>>, <<m,2>>, <<m,3>> (header part, header part, body), so that a     *)
(* segment boundary may fall inside a header.  Messages in Base are          *)
(* base-protocol requests (answered by the state machine), the others are    *)
(* application messages (handed to the application).                        *)
(* Threads: net (the network delivers the stream in arbitrary segments),     *)
(* tr (transport thread), rw (receive worker), psm (state machine thread),   *)
(* consumers (application threads in get_message).                          *)
(* One action per scheduler step; actions under one lock are merged.         *)
(*                                                                         *)
(* Deviations (pinned tree):                                                *)
(*   D_NoReassembly   the worker parses whatever has arrived as complete      *)
(*                    messages and discards what does not parse               *)
(*   D_UnlockedBuffer the transport appends to the receive buffer without     *)
(*                    the lock (load and store are separate steps)            *)
(*   D_BlockingGet    a consumer blocks in Queue.get() holding both locks     *)
(* Decides C04.                                                             *)
(***************************************************************************)
EXTENDS Naturals, Sequences, FiniteSets, SequencesExt, TLC

CONSTANTS N,            \* number of messages the peer sends
          Base,         \* subset of 1..N: base-protocol requests
          Consumers,    \* e.g. {1} or {1, 2}
          Deviations

Units(m) == <<<<m, 1>>, <<m, 2>>, <<m, 3>>>>
RECURSIVE Flat(_)
Flat(ms) == IF ms = <<>> THEN <<>> ELSE Units(Head(ms)) \o Flat(Tail(ms))
Stream == Flat([i \in 1..N |-> i])
App == SelectSeq([i \in 1..N |-> i], LAMBDA m : m \notin Base)
BaseSeq == SelectSeq([i \in 1..N |-> i], LAMBDA m : m \in Base)

VARIABLES sent,        \* number of units the network has delivered to the socket so far
          sockIn,      \* units readable at the socket
          rbuf,        \* transport: received, not yet taken by the worker
          avail,       \* event: data available
          tlock, alock, plock,
          tpc, tloc,   \* transport thread pc / local copy (deviation)
          pending,     \* worker: bytes that do not yet form a complete message
          wpc, wdata, wmsgs,
          recvQ, postQ, ready,
          ppc, pmsg,
          cpc, cgot,   \* consumers: pc and the messages returned, in order
          answered, taken
vars == <<sent, sockIn, rbuf, avail, tlock, alock, plock, tpc, tloc, pending, wpc, wdata, wmsgs, recvQ, postQ, ready, ppc, pmsg, cpc, cgot, answered, taken>>

Free == 0
TR == 100  WK == 101  PSM == 102
Init == /\ sent = 0 /\ sockIn = <<>> /\ rbuf = <<>> /\ avail = FALSE
        /\ tlock = Free /\ alock = Free /\ plock = Free
        /\ tpc = "select" /\ tloc = <<>> /\ pending = <<>> /\ wpc = "wait" /\ wdata = <<>> /\ wmsgs = <<>>
        /\ recvQ = <<>> /\ postQ = <<>> /\ ready = FALSE /\ ppc = "idle" /\ pmsg = 0
        /\ cpc = [c \in Consumers |-> "check"] /\ cgot = [c \in Consumers |-> <<>>]
        /\ answered = <<>> /\ taken = <<>>

(* ---- the network: any segmentation *)
NetDeliver(k) == /\ k \in 1..(Len(Stream) - sent)
                 /\ sockIn' = sockIn \o SubSeq(Stream, sent + 1, sent + k) /\ sent' = sent + k
                 /\ UNCHANGED <<rbuf, avail, tlock, alock, plock, tpc, tloc, pending, wpc, wdata, wmsgs, recvQ, postQ, ready, ppc, pmsg, cpc, cgot, answered, taken>>

(* ---- transport thread *)
\* recv() returns any non-empty prefix of what is readable
TRecv == /\ tpc = "select" /\ sockIn # <<>>
         /\ \E k \in 1..Len(sockIn) : tloc' = SubSeq(sockIn, 1, k) /\ sockIn' = SubSeq(sockIn, k + 1, Len(sockIn))
         /\ tpc' = "store"
         /\ UNCHANGED <<sent, rbuf, avail, tlock, alock, plock, pending, wpc, wdata, wmsgs, recvQ, postQ, ready, ppc, pmsg, cpc, cgot, answered, taken>>
\* under the transport lock: append and signal (one step: nobody else can observe the middle)
TStore == /\ tpc = "store" /\ "D_UnlockedBuffer" \notin Deviations /\ tlock = Free
          /\ rbuf' = rbuf \o tloc /\ avail' = TRUE /\ tloc' = <<>> /\ tpc' = "select"
          /\ UNCHANGED <<sent, sockIn, tlock, alock, plock, pending, wpc, wdata, wmsgs, recvQ, postQ, ready, ppc, pmsg, cpc, cgot, answered, taken>>
\* pinned tree: load, then store, no lock
TLoad == /\ tpc = "store" /\ "D_UnlockedBuffer" \in Deviations
         /\ tloc' = rbuf \o tloc /\ tpc' = "store2"
         /\ UNCHANGED <<sent, sockIn, rbuf, avail, tlock, alock, plock, pending, wpc, wdata, wmsgs, recvQ, postQ, ready, ppc, pmsg, cpc, cgot, answered, taken>>
TStore2 == /\ tpc = "store2" /\ rbuf' = tloc /\ avail' = TRUE /\ tloc' = <<>> /\ tpc' = "select"
           /\ UNCHANGED <<sent, sockIn, tlock, alock, plock, pending, wpc, wdata, wmsgs, recvQ, postQ, ready, ppc, pmsg, cpc, cgot, answered, taken>>

(* ---- receive worker *)
\* complete messages at the front of a unit sequence
RECURSIVE Frame(_)
Frame(u) == IF Len(u) >= 3 /\ u[1][2] = 1 /\ u[2] = <<u[1][1], 2>> /\ u[3] = <<u[1][1], 3>>
            THEN LET r == Frame(SubSeq(u, 4, Len(u))) IN [msgs |-> <<u[1][1]>> \o r.msgs, rest |-> r.rest]
            ELSE [msgs |-> <<>>, rest |-> u]
WAcq == /\ wpc = "wait" /\ avail /\ alock = Free
        /\ alock' = WK /\ wpc' = "take"
        /\ UNCHANGED <<sent, sockIn, rbuf, avail, tlock, plock, tpc, tloc, pending, wdata, wmsgs, recvQ, postQ, ready, ppc, pmsg, cpc, cgot, answered, taken>>
\* the wait for data is bounded (1 s): the worker also looks when nothing was signalled
WTimeout == /\ wpc = "wait" /\ ~avail /\ alock = Free
            /\ alock' = WK /\ wpc' = "take"
            /\ UNCHANGED <<sent, sockIn, rbuf, avail, tlock, plock, tpc, tloc, pending, wdata, wmsgs, recvQ, postQ, ready, ppc, pmsg, cpc, cgot, answered, taken>>
WTake == /\ wpc = "take" /\ tlock = Free
         /\ LET data == pending \o rbuf
                f == Frame(data)
            IN IF "D_NoReassembly" \in Deviations
               THEN \* parse everything: succeeds only when it is exactly complete messages, else all is dropped
                    /\ wmsgs' = IF Frame(rbuf).rest = <<>> THEN Frame(rbuf).msgs ELSE <<>>
                    /\ pending' = <<>>
               ELSE /\ wmsgs' = f.msgs /\ pending' = f.rest
         /\ rbuf' = <<>> /\ avail' = FALSE /\ wpc' = "put"
         /\ UNCHANGED <<sent, sockIn, tlock, alock, plock, tpc, tloc, wdata, recvQ, postQ, ready, ppc, pmsg, cpc, cgot, answered, taken>>
WPut == /\ wpc = "put" /\ wmsgs # <<>>
        /\ recvQ' = Append(recvQ, Head(wmsgs)) /\ wmsgs' = Tail(wmsgs)
        /\ UNCHANGED <<sent, sockIn, rbuf, avail, tlock, alock, plock, tpc, tloc, pending, wpc, wdata, postQ, ready, ppc, pmsg, cpc, cgot, answered, taken>>
WRel == /\ wpc = "put" /\ wmsgs = <<>>
        /\ alock' = Free /\ wpc' = "wait"
        /\ UNCHANGED <<sent, sockIn, rbuf, avail, tlock, plock, tpc, tloc, pending, wdata, wmsgs, recvQ, postQ, ready, ppc, pmsg, cpc, cgot, answered, taken>>

(* ---- state machine thread: one message per tick *)
PAcq == /\ ppc = "idle" /\ recvQ # <<>> /\ alock = Free
        /\ alock' = PSM /\ ppc' = "get"
        /\ UNCHANGED <<sent, sockIn, rbuf, avail, tlock, plock, tpc, tloc, pending, wpc, wdata, wmsgs, recvQ, postQ, ready, pmsg, cpc, cgot, answered, taken>>
PGet == /\ ppc = "get"
        /\ pmsg' = Head(recvQ) /\ recvQ' = Tail(recvQ) /\ alock' = Free
        /\ IF Head(recvQ) \in Base THEN answered' = Append(answered, Head(recvQ)) /\ ppc' = "idle"
           ELSE ppc' = "deliver" /\ UNCHANGED answered
        /\ UNCHANGED <<sent, sockIn, rbuf, avail, tlock, plock, tpc, tloc, pending, wpc, wdata, wmsgs, postQ, ready, cpc, cgot, taken>>
PDeliver == /\ ppc = "deliver" /\ plock = Free
            /\ postQ' = Append(postQ, pmsg) /\ ready' = TRUE /\ ppc' = "idle"
            /\ UNCHANGED <<sent, sockIn, rbuf, avail, tlock, alock, plock, tpc, tloc, pending, wpc, wdata, wmsgs, recvQ, pmsg, cpc, cgot, answered, taken>>

(* ---- consumers: get_message() in a loop *)
CCheck(c) == /\ cpc[c] = "check"
             /\ cpc' = [cpc EXCEPT ![c] = IF postQ = <<>> THEN "wait" ELSE "acq"]
             /\ UNCHANGED <<sent, sockIn, rbuf, avail, tlock, alock, plock, tpc, tloc, pending, wpc, wdata, wmsgs, recvQ, postQ, ready, ppc, pmsg, cgot, answered, taken>>
CWait(c) == /\ cpc[c] = "wait" /\ ready /\ cpc' = [cpc EXCEPT ![c] = "acq"]
            /\ UNCHANGED <<sent, sockIn, rbuf, avail, tlock, alock, plock, tpc, tloc, pending, wpc, wdata, wmsgs, recvQ, postQ, ready, ppc, pmsg, cgot, answered, taken>>
CAcq(c) == /\ cpc[c] = "acq" /\ alock = Free /\ alock' = c /\ cpc' = [cpc EXCEPT ![c] = "take"]
           /\ UNCHANGED <<sent, sockIn, rbuf, avail, tlock, plock, tpc, tloc, pending, wpc, wdata, wmsgs, recvQ, postQ, ready, ppc, pmsg, cgot, answered, taken>>
\* under both locks: take without blocking; withdraw the go-ahead only when nothing is left
CTake(c) == /\ cpc[c] = "take" /\ plock = Free
            /\ IF postQ # <<>>
               THEN /\ cgot' = [cgot EXCEPT ![c] = Append(@, Head(postQ))] /\ taken' = Append(taken, Head(postQ))
                    /\ postQ' = Tail(postQ) /\ ready' = (Tail(postQ) # <<>>)
                    /\ alock' = Free /\ cpc' = [cpc EXCEPT ![c] = "check"]
               ELSE /\ "D_BlockingGet" \notin Deviations          \* (pinned tree: blocks in Queue.get() with both locks held)
                    /\ ready' = FALSE /\ alock' = Free /\ cpc' = [cpc EXCEPT ![c] = "check"]
                    /\ UNCHANGED <<cgot, taken, postQ>>
            /\ UNCHANGED <<sent, sockIn, rbuf, avail, tlock, plock, tpc, tloc, pending, wpc, wdata, wmsgs, recvQ, ppc, pmsg, answered>>

Work == \/ \E k \in 1..(3 * N) : NetDeliver(k)
        \/ TRecv \/ TStore \/ TLoad \/ TStore2
        \/ WAcq \/ WTake \/ WPut \/ WRel
        \/ PAcq \/ PGet \/ PDeliver
        \/ \E c \in Consumers : CCheck(c) \/ CWait(c) \/ CAcq(c) \/ CTake(c)
Next == Work \/ WTimeout
Spec == Init /\ [][Next]_vars

(* ---- C04 *)
InOrderOnce == IsPrefix(taken, App)                       \* no loss inside the prefix, no duplicate, no reordering
PerConsumerOrder == \A c \in Consumers : \A i, j \in 1..Len(cgot[c]) : i < j => cgot[c][i] < cgot[c][j]
BaseInOrder == IsPrefix(answered, BaseSeq)
\* when nothing more can happen everything has been delivered / answered
Drained == /\ sent = Len(Stream) /\ sockIn = <<>> /\ rbuf = <<>> /\ tpc = "select" /\ wpc = "wait" /\ ~avail
           /\ recvQ = <<>> /\ ppc = "idle" /\ postQ = <<>>
AllDelivered == Drained => (taken = App /\ answered = BaseSeq /\ pending = <<>>)
\* nobody keeps a lock forever: in a drained state the locks are free
LocksFree == Drained => (alock = Free /\ plock = Free /\ tlock = Free)
\* a state in which nothing can happen any more is a state in which everything has been delivered
\* (the worker's periodic look at an empty buffer is not counted as something happening)
TerminalOk == (~ENABLED Work /\ wpc = "wait") => (taken = App /\ answered = BaseSeq /\ alock = Free)
=============================================================================
