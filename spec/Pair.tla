-------------------------------- MODULE Pair --------------------------------
(***************************************************************************)
(* Two bromelia nodes, a client and a server configured for each other,     *)
(* connected by a TCP connection: two instances of Psm composed through two  *)
(* FIFO channels (what one node's tick puts on the wire is what the other    *)
(* node's receive worker queues, in order), plus the disconnect             *)
(* notification that the release of one transport gives the other side.     *)
(* This is the scenario of the repository's tests/test_setup.py (both ends   *)
(* are bromelia), with every interleaving of ticks, deliveries, application   *)
(* submissions, watchdog timeouts and local stops at either end.            *)
(*                                                                         *)
(* Deviation D_NoClosingTimeout (the tree as it is): a node in Closing waits *)
(* for the DPA for ever; RFC 6733 leaves Closing by timeout.  With it, two    *)
(* nodes that stop at the same moment both stay in Closing.                 *)
(***************************************************************************)
EXTENDS Naturals, Sequences, FiniteSets, TLC

CONSTANTS MaxQ, MaxS, Limit, SzApp, SzCER, SzCEA, SzDWR, SzDWA, SzDPR, SzDPA, PairDeviations

VARIABLES cst, crecvQ, csendQ, cactive, cpeerGone, cconnected, crefused, cidle, crunning, creleased, cout, cdlv,
          sst, srecvQ, ssendQ, sactive, speerGone, sconnected, srefused, sidle, srunning, sreleased, sout, sdlv,
          c2s, s2c,          \* bytes in flight, as messages
          stops              \* number of local stops issued so far (each node stops at most once)
cvars == <<cst, crecvQ, csendQ, cactive, cpeerGone, cconnected, crefused, cidle, crunning, creleased, cout, cdlv>>
svars == <<sst, srecvQ, ssendQ, sactive, speerGone, sconnected, srefused, sidle, srunning, sreleased, sout, sdlv>>
vars == <<cvars, svars, c2s, s2c, stops>>

AllKinds == {"CER", "CEA", "DWR", "DWA", "DPR", "DPA", "REQ", "ANS", "MIS"}
C == INSTANCE Psm WITH Role <- "client", Kinds <- AllKinds, IdSet <- {0, 1}, ValidOnly <- TRUE, Deviations <- {},
                       st <- cst, recvQ <- crecvQ, sendQ <- csendQ, active <- cactive, peerGone <- cpeerGone, connected <- cconnected,
                       refused <- crefused, idle <- cidle, running <- crunning, released <- creleased, out <- cout, dlv <- cdlv
S == INSTANCE Psm WITH Role <- "server", Kinds <- AllKinds, IdSet <- {0, 1}, ValidOnly <- TRUE, Deviations <- {},
                       st <- sst, recvQ <- srecvQ, sendQ <- ssendQ, active <- sactive, peerGone <- speerGone, connected <- sconnected,
                       refused <- srefused, idle <- sidle, running <- srunning, released <- sreleased, out <- sout, dlv <- sdlv

Init == C!Init /\ S!Init /\ c2s = <<>> /\ s2c = <<>> /\ stops = 0

\* what a node writes is what its (honest, configured) peer receives: a submitted application message arrives as a request
Wire(m) == [k |-> IF m.k = "APP" THEN "REQ" ELSE m.k, valid |-> TRUE, id |-> m.id]

\* both applications call start(); the server is listening when the client connects
StartBoth == /\ C!Start(FALSE) /\ S!Start(FALSE) /\ c2s' = <<>> /\ s2c' = <<>> /\ stops' = 0
CTick == /\ C!Tick /\ c2s' = c2s \o cout' /\ UNCHANGED <<svars, s2c, stops>>
STick == /\ S!Tick /\ s2c' = s2c \o sout' /\ UNCHANGED <<cvars, c2s, stops>>
\* the transport thread and the receive worker of the receiving node
SDeliver == /\ c2s # <<>> /\ S!Inject(Wire(Head(c2s))) /\ c2s' = Tail(c2s) /\ UNCHANGED <<cvars, s2c, stops>>
CDeliver == /\ s2c # <<>> /\ C!Inject(Wire(Head(s2c))) /\ s2c' = Tail(s2c) /\ UNCHANGED <<svars, c2s, stops>>
\* bytes sent to a node that has released its transport are lost
SDrop == /\ c2s # <<>> /\ sreleased /\ c2s' = Tail(c2s) /\ UNCHANGED <<cvars, svars, s2c, stops>>
CDrop == /\ s2c # <<>> /\ creleased /\ s2c' = Tail(s2c) /\ UNCHANGED <<cvars, svars, c2s, stops>>
\* the other side's close is seen once everything it sent has been read
SSeesEof == /\ creleased /\ ~crunning /\ c2s = <<>> /\ S!PeerDisc /\ UNCHANGED <<cvars, c2s, s2c, stops>>
CSeesEof == /\ sreleased /\ ~srunning /\ s2c = <<>> /\ C!PeerDisc /\ UNCHANGED <<svars, c2s, s2c, stops>>
CStop == /\ stops < 2 /\ C!LocalStop /\ stops' = stops + 1 /\ UNCHANGED <<svars, c2s, s2c>>
SStop == /\ stops < 2 /\ S!LocalStop /\ stops' = stops + 1 /\ UNCHANGED <<cvars, c2s, s2c>>
\* (new traffic is offered only while little is in flight in either direction: keeps the channels bounded)
CApp == Len(c2s) + Len(s2c) < 2 /\ C!AppSend /\ UNCHANGED <<svars, c2s, s2c, stops>>
SApp == Len(c2s) + Len(s2c) < 2 /\ S!AppSend /\ UNCHANGED <<cvars, c2s, s2c, stops>>
\* (idle = no socket event for the watchdog period: nothing is arriving or waiting to be handled)
CIdle == Len(c2s) + Len(s2c) < 2 /\ s2c = <<>> /\ crecvQ = <<>> /\ C!IdleReached /\ UNCHANGED <<svars, c2s, s2c, stops>>
SIdle == Len(c2s) + Len(s2c) < 2 /\ c2s = <<>> /\ srecvQ = <<>> /\ S!IdleReached /\ UNCHANGED <<cvars, c2s, s2c, stops>>
\* RFC 6733: Closing is left by timeout (not implemented: present only without the deviation)
CTimeout == /\ "D_NoClosingTimeout" \notin PairDeviations /\ cst = "Closing" /\ crunning
            /\ cst' = "Closed" /\ crunning' = FALSE /\ creleased' = TRUE /\ cconnected' = FALSE /\ cactive' = FALSE /\ cpeerGone' = FALSE
            /\ cout' = <<>> /\ cdlv' = <<>> /\ UNCHANGED <<crecvQ, csendQ, crefused, cidle, svars, c2s, s2c, stops>>
STimeout == /\ "D_NoClosingTimeout" \notin PairDeviations /\ sst = "Closing" /\ srunning
            /\ sst' = "Closed" /\ srunning' = FALSE /\ sreleased' = TRUE /\ sconnected' = FALSE /\ sactive' = FALSE /\ speerGone' = FALSE
            /\ sout' = <<>> /\ sdlv' = <<>> /\ UNCHANGED <<srecvQ, ssendQ, srefused, sidle, cvars, c2s, s2c, stops>>

Progress == CTick \/ STick \/ SDeliver \/ CDeliver \/ SDrop \/ CDrop \/ SSeesEof \/ CSeesEof \/ CTimeout \/ STimeout
Next == StartBoth \/ Progress \/ CStop \/ SStop \/ CApp \/ SApp \/ CIdle \/ SIdle
Spec == Init /\ [][Next]_vars
FairSpec == Spec /\ WF_vars(CTick) /\ WF_vars(STick) /\ WF_vars(SDeliver) /\ WF_vars(CDeliver) /\ WF_vars(SDrop) /\ WF_vars(CDrop)
                 /\ WF_vars(SSeesEof) /\ WF_vars(CSeesEof) /\ WF_vars(CTimeout) /\ WF_vars(STimeout)

(* ---- end-to-end properties *)
Started == crunning \/ srunning \/ cst # "Closed" \/ sst # "Closed"
\* nothing in flight and nothing queued anywhere
Quiet == c2s = <<>> /\ s2c = <<>> /\ crecvQ = <<>> /\ srecvQ = <<>> /\ csendQ = <<>> /\ ssendQ = <<>>
\* the server is Open only if the client has sent its CER; the client is Open only after the server's CEA
OpenOrder == /\ (sst = "Open" => cst \in {"WaitICEA", "Open", "Closing", "Closed"})
             /\ (cst = "Open" => (sst \in {"Open", "Closing"} \/ (sst = "Closed" /\ ~srunning)))
\* what the application of one node submitted is delivered to the other application only, in order (one id per direction here)
DeliveredWereSent == (\A i \in 1..Len(cdlv) : cdlv[i].k = "REQ") /\ (\A i \in 1..Len(sdlv) : sdlv[i].k = "REQ")
\* a state in which nothing moves any more: nothing in flight or queued, a tick of either node changes nothing,
\* no disconnect to notice, no timeout pending
Stable == /\ Quiet /\ ~cidle /\ ~sidle
          /\ (crunning => C!Run = C!Stay(cst)) /\ (srunning => S!Run = S!Stay(sst))
          /\ ~(creleased /\ ~crunning /\ srunning /\ ~speerGone /\ ~sreleased /\ sconnected)
          /\ ~(sreleased /\ ~srunning /\ crunning /\ ~cpeerGone /\ ~creleased /\ cconnected)
          /\ ("D_NoClosingTimeout" \in PairDeviations \/ (cst # "Closing" /\ sst # "Closing"))
BothOpenNow == cst = "Open" /\ sst = "Open" /\ cactive /\ sactive
BothClosedNow == cst = "Closed" /\ sst = "Closed" /\ ~crunning /\ ~srunning /\ creleased /\ sreleased
\* the two ends agree whenever the pair has come to rest
Agree == (Stable /\ Started) => (BothOpenNow \/ BothClosedNow)
\* the tree as it is (no timeout in Closing): the only other resting state is the one after a simultaneous stop
AgreeButSimultaneousStop == (Stable /\ Started) => (BothOpenNow \/ BothClosedNow \/ (cst = "Closing" /\ sst = "Closing" /\ stops = 2))
\* once both are started they open
BothOpen == (crunning /\ srunning /\ stops = 0) ~> ((cst = "Open" /\ sst = "Open") \/ stops > 0)
\* a stop at either end closes both ends
StopClosesBoth == (stops > 0) ~> (cst = "Closed" /\ sst = "Closed" /\ ~crunning /\ ~srunning)
\* the tree as it is: a stop closes both ends unless both stopped at the same moment (then both wait in Closing)
StopEndsButSimultaneous == (stops > 0) ~> ((cst = "Closed" /\ sst = "Closed" /\ ~crunning /\ ~srunning) \/ (cst = "Closing" /\ sst = "Closing" /\ stops = 2))
=============================================================================
