------------------------------ MODULE Message ------------------------------
(***************************************************************************)
(* The message container (bromelia/base.py DiameterMessage; the same       *)
(* scheme in bromelia/types.py GroupedType): an ordered list of AVP        *)
(* objects, a name map (instance attributes "<name>_avp[__k]" -> object)   *)
(* kept side by side, and the Message Length bookkeeping.                  *)
(*                                                                         *)
(* Objects are abstract identities with a kind (the base of their          *)
(* attribute name), a padded wire size and a value class (objects of one   *)
(* value class serialise identically, i.e. compare equal with ==).         *)
(* A name is <<base, k>>: k = 0 is the plain attribute, k > 0 "__k".       *)
(*                                                                         *)
(* One action per public operation (its linearisation point is its         *)
(* return).  The intended semantics is loose where the property is silent: *)
(* Append may bind any fresh name.  Behaviour the pinned tree had and the  *)
(* property forbids is kept as named deviations (all repaired by fix:      *)
(* commits; TLC uses them to show the invariants are not vacuous).         *)
(*                                                                         *)
(* Decides C11.                                                            *)
(***************************************************************************)
EXTENDS Naturals, Sequences, FiniteSets, SequencesExt, TLC

CONSTANTS Objs,         \* object identities
          BaseOf,       \* Objs -> base name
          SizeOf,       \* Objs -> padded size on the wire
          ValOf,        \* Objs -> value class
          MaxLen,       \* bound on the list length
          MaxIdx,       \* bound on name suffixes
          Fresh,        \* keys a caller may rename to (update_key), as names
          Deviations    \* subset of DeviationNames

DeviationNames == {"D_PopByEquality", "D_SuffixByCount", "D_SetItemStale", "D_UpdateTwoObjects"}

VARIABLES lst,      \* Seq(Objs): the ordered AVP list
          names,    \* [Name -> Objs]: partial function, the named-attribute view
          hdr       \* Message Length field
vars == <<lst, names, hdr>>

Name == ({BaseOf[o] : o \in Objs} \X (0..MaxIdx)) \cup Fresh      \* Fresh: pairs <<base, k>> with a base of no object
Used == DOMAIN names
Listed == {lst[i] : i \in 1..Len(lst)}
Named == {names[n] : n \in Used}
EmptyFn == [x \in {} |-> x]
RECURSIVE SumSize(_)
SumSize(s) == IF s = <<>> THEN 0 ELSE SizeOf[Head(s)] + SumSize(Tail(s))
RealLen == 20 + SumSize(lst)
NoDup == \A i, j \in 1..Len(lst) : lst[i] = lst[j] => i = j

TypeOK == /\ lst \in Seq(Objs) /\ Len(lst) <= MaxLen + 1
          /\ Used \subseteq Name /\ \A n \in Used : names[n] \in Objs
          /\ hdr \in Nat

(* The property: the two views refer to the same objects, one name per listed AVP, *)
(* no name for an unlisted one, and the length field is the serialised size.       *)
Coherent == /\ \A n, m \in Used : names[n] = names[m] => n = m
            /\ Named = Listed
            /\ hdr = RealLen
HasAvp(n) == n \in Used          \* membership query agrees with the name map (and so with the list)

Init == lst = <<>> /\ names = EmptyFn /\ hdr = 20

Bind(f, n, o) == [m \in DOMAIN f \cup {n} |-> IF m = n THEN o ELSE f[m]]
Unbind(f, n) == [m \in DOMAIN f \ {n} |-> f[m]]
DropAt(s, k) == [j \in 1..(Len(s) - 1) |-> IF j < k THEN s[j] ELSE s[j + 1]]
PosOf(o) == CHOOSE i \in 1..Len(lst) : lst[i] = o
FirstEqual(o) == CHOOSE i \in 1..Len(lst) : ValOf[lst[i]] = ValOf[o] /\ \A j \in 1..(i - 1) : ValOf[lst[j]] # ValOf[o]

\* names an append may choose for an object of base b, given the name map f
FreshNamesF(f, b) == IF <<b, 0>> \notin DOMAIN f THEN {<<b, 0>>}
                     ELSE {<<b, k>> : k \in {i \in 1..MaxIdx : <<b, i>> \notin DOMAIN f}}
\* pinned tree: the suffix was the number of attributes containing the key (may hit a live name)
CountNameF(f, b) == IF <<b, 0>> \notin DOMAIN f THEN <<b, 0>>
                    ELSE <<b, Cardinality({n \in DOMAIN f : n[1] = b})>>

AppendTo(l, f, h, o) ==      \* set of possible results [l, f, h] of appending o
    IF "D_SuffixByCount" \in Deviations
    THEN {[l |-> Append(l, o), f |-> Bind(f, CountNameF(f, BaseOf[o]), o), h |-> h + SizeOf[o]]}
    ELSE {[l |-> Append(l, o), f |-> Bind(f, n, o), h |-> h + SizeOf[o]] : n \in FreshNamesF(f, BaseOf[o])}

OpAppend(o) == /\ Len(lst) < MaxLen /\ o \notin Listed
               /\ \E r \in AppendTo(lst, names, hdr, o) : lst' = r.l /\ names' = r.f /\ hdr' = r.h

OpExtend(o1, o2) == /\ Len(lst) + 2 <= MaxLen /\ o1 # o2 /\ o1 \notin Listed /\ o2 \notin Listed
                    /\ \E r1 \in AppendTo(lst, names, hdr, o1) : \E r2 \in AppendTo(r1.l, r1.f, r1.h, o2) :
                          lst' = r2.l /\ names' = r2.f /\ hdr' = r2.h

OpPop(n) == /\ n \in Used
            /\ LET o == names[n]
                   k == IF "D_PopByEquality" \in Deviations
                        THEN (IF \E i \in 1..Len(lst) : ValOf[lst[i]] = ValOf[o] THEN FirstEqual(o) ELSE 0)
                        ELSE (IF o \in Listed THEN PosOf(o) ELSE 0)
               IN /\ k > 0
                  /\ lst' = DropAt(lst, k)
                  /\ names' = Unbind(names, n)
                  /\ hdr' = hdr - SizeOf[o]

OpCleanup == /\ lst # <<>>
             /\ lst' = <<>> /\ names' = EmptyFn
             /\ hdr' = hdr - SumSize([i \in 1..Cardinality(Used) |-> names[SetToSeq(Used)[i]]])

\* msg.avps = [o1, o2]
OpSetAvps(o1, o2) == /\ o1 # o2
                     /\ LET b1 == BaseOf[o1] b2 == BaseOf[o2]
                            h0 == hdr - SumSize([i \in 1..Cardinality(Used) |-> names[SetToSeq(Used)[i]]])
                        IN /\ lst' = <<o1, o2>>
                           /\ names' = IF b1 = b2 THEN (<<b1, 0>> :> o1) @@ (<<b2, 1>> :> o2)
                                       ELSE (<<b1, 0>> :> o1) @@ (<<b2, 0>> :> o2)
                           /\ hdr' = h0 + SizeOf[o1] + SizeOf[o2]

\* msg[i] = o : the list element is replaced; the name that referred to the old element refers to o
OpSetItem(i, o) == /\ i \in 1..Len(lst) /\ o \notin Listed
                   /\ lst' = [lst EXCEPT ![i] = o]
                   /\ IF "D_SetItemStale" \in Deviations THEN UNCHANGED <<names, hdr>>
                      ELSE /\ names' = [n \in Used |-> IF names[n] = lst[i] THEN o ELSE names[n]]
                           /\ hdr' = hdr - SizeOf[lst[i]] + SizeOf[o]

\* update_key(old, new)
OpUpdateKey(n, m) == /\ n \in Used /\ m \in Fresh /\ m \notin Used
                     /\ names' = Bind(Unbind(names, n), m, names[n])
                     /\ UNCHANGED <<lst, hdr>>

\* update_avps({name: value}): the AVP under that name is replaced, in both views, by a new
\* object o2 of the same kind carrying the new value
OpUpdateData(n, o2) == /\ n \in Used /\ names[n] \in Listed /\ o2 \notin Listed /\ o2 \notin Named
                       /\ BaseOf[o2] = BaseOf[names[n]]
                       /\ LET i == PosOf(names[n]) IN
                            /\ lst' = [lst EXCEPT ![i] = o2]
                            /\ IF "D_UpdateTwoObjects" \in Deviations
                               THEN \E o3 \in Objs \ (Listed \cup Named \cup {o2}) :
                                       BaseOf[o3] = BaseOf[o2] /\ ValOf[o3] = ValOf[o2] /\ names' = [names EXCEPT ![n] = o3]
                               ELSE names' = [names EXCEPT ![n] = o2]
                            /\ hdr' = hdr - SizeOf[names[n]] + SizeOf[o2]

OpRefresh == hdr' = RealLen /\ UNCHANGED <<lst, names>>

Next == \/ \E o \in Objs : OpAppend(o)
        \/ \E o1, o2 \in Objs : OpExtend(o1, o2)
        \/ \E n \in Name : OpPop(n)
        \/ OpCleanup
        \/ \E o1, o2 \in Objs : OpSetAvps(o1, o2)
        \/ \E i \in 1..MaxLen, o \in Objs : OpSetItem(i, o)
        \/ \E n \in Name, m \in Fresh : OpUpdateKey(n, m)
        \/ \E n \in Name, o \in Objs : OpUpdateData(n, o)
        \/ OpRefresh

Spec == Init /\ [][Next]_vars

\* action properties: what each operation does to the list (order of survivors preserved)
IsSubSeq(s, t) == \E f \in [1..Len(s) -> 1..Len(t)] :
                     (\A i \in 1..Len(s) : t[f[i]] = s[i]) /\ (\A i, j \in 1..Len(s) : i < j => f[i] < f[j])
OrderPreserved == [][(\E n \in Name : OpPop(n)) => (IsSubSeq(lst', lst) /\ Len(lst') = Len(lst) - 1)]_vars
=============================================================================
