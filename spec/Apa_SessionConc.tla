---------------------------- MODULE Apa_SessionConc ----------------------------
(* Apalache wrapper: IndInv is an inductive invariant of SessionConc with the lock, for 3 threads, ARBITRARY counter values and
   an unbounded number of generations per thread (TLC explores bounded instances only).  Checked symbolically:
     Init => IndInv                     (--init=Init    --inv=IndInv     --length=0)
     IndInv /\ Next => IndInv'          (--init=IndInit --inv=IndInv     --length=1)
     IndInv => UniqueConc               (--init=IndInit --inv=UniqueConc --length=0)
   IndInit draws the state with Gen: the history `out` is a sequence of up to 5 arbitrary integers (Gen bounds the length of
   sequences; the counter values themselves are unbounded).  Self-test: NeverReads is violated from IndInit (IndInit is not empty). *)
EXTENDS Integers, Sequences, FiniteSets, Apalache

Threads == {1, 2, 3}
PerThread == 1000000
UseLock == TRUE

VARIABLES
    \* @type: Int;
    low,
    \* @type: Int;
    owner,
    \* @type: Int -> Str;
    pc,
    \* @type: Int -> Int;
    tmp,
    \* @type: Int -> Int;
    made,
    \* @type: Seq(Int);
    out

INSTANCE SessionConc

PCs == {"lock", "load", "store", "read", "unlock", "done"}
TypeOK == /\ low >= 0 /\ owner \in Threads \cup {0}
          /\ DOMAIN pc = Threads /\ DOMAIN tmp = Threads /\ DOMAIN made = Threads
          /\ \A t \in Threads : pc[t] \in PCs /\ tmp[t] >= 0 /\ made[t] >= 0
          /\ \A i \in DOMAIN out : out[i] >= 0
Inside(t) == pc[t] \in {"load", "store", "read", "unlock"}
IndInv == /\ TypeOK
          /\ \A t \in Threads : Inside(t) <=> owner = t
          /\ \A i \in DOMAIN out : \A j \in DOMAIN out : i < j => out[i] < out[j]
          /\ \A i \in DOMAIN out : out[i] <= low
          /\ \A t \in Threads : pc[t] = "store" => tmp[t] = low
          /\ \A t \in Threads : pc[t] = "read" => \A i \in DOMAIN out : out[i] < low
          /\ \A t \in Threads : made[t] <= PerThread
          /\ \A t \in Threads : pc[t] \in {"lock", "load", "store", "read"} => made[t] < PerThread
NeverReads == \A t \in Threads : pc[t] # "read"
IndInit == /\ low = Gen(1) /\ owner = Gen(1) /\ pc = Gen(3) /\ tmp = Gen(3) /\ made = Gen(3) /\ out = Gen(5)
           /\ IndInv
================================================================================
