------------------------------ MODULE Validate ------------------------------
(***************************************************************************)
(* The verdict of bromelia/process.py on a received base-protocol message    *)
(* (the `valid` field of a message in Psm.tla), over an abstract message:    *)
(*   [kind, hflags, avps]                                                   *)
(* kind in {CER, CEA, DWR, DWA, DPR, DPA}; hflags the header flag byte;      *)
(* avps a sequence of [c, fl, d, vs]: c the AVP (OH Origin-Host, OR Origin-Realm,*)
(* HIP Host-IP-Address, VID Vendor-Id, PN Product-Name, OSI Origin-State-Id, *)
(* RC Result-Code, DC Disconnect-Cause, OTHER), fl its flag byte, d what its  *)
(* data says ("peer" / "local" / "other" identity; "rebooting" / "busy").     *)
(* As implemented: the header flag byte must be exactly 0x80 / 0x00, an      *)
(* identity AVP counts only with flag byte 0x40 and the configured PEER       *)
(* identity, and the number of counted AVPs must be exactly the expected one *)
(* (a duplicate invalidates the message as a missing one does).              *)
(* The design (Valid) also demands what the count alone does not: exactly    *)
(* one counted Origin-Host and exactly one counted Origin-Realm.  Without it  *)
(* (ValidCountOnly, the tree before F-C06-foreign-identity-counted) another   *)
(* repeatable AVP makes up for an identity AVP that did not count: a CER with *)
(* a foreign Origin-Host and two Host-IP-Address AVPs was valid.             *)
(***************************************************************************)
EXTENDS Naturals, Sequences, FiniteSets

Requests == {"CER", "DWR", "DPR"}
Cnt(s, P(_)) == Cardinality({i \in 1..Len(s) : P(s[i])})
OkOH(a) == a.c = "OH" /\ a.fl = 64 /\ a.d = "peer"
OkOR(a) == a.c = "OR" /\ a.fl = 64 /\ a.d = "peer"
OkRC(a) == a.c = "RC" /\ a.fl = 64
OkDC(a) == a.c = "DC" /\ a.d = "rebooting"
CntC(s, c) == Cardinality({i \in 1..Len(s) : s[i].c = c})
\* vs: "none" for the base-protocol AVP; "short" / "long" for a vendor-specific AVP (V flag, another vendor's code space) that
\* happens to have the same code, with 2 / 8 octets of data.  Such an AVP is not a Host-IP-Address (no family and address
\* octets to read): it does not count.  The validators of the other AVPs look at the code alone (as implemented).
CntHIP(s) == Cardinality({i \in 1..Len(s) : s[i].c = "HIP" /\ s[i].vs = "none"})
Ident(s) == Cnt(s, OkOH) + Cnt(s, OkOR)
Capx(s) == Ident(s) + CntHIP(s) + CntC(s, "VID") + CntC(s, "PN")

ValidCountOnly(m) ==
    LET s == m.avps
        osi == CntC(s, "OSI")
    IN CASE m.kind = "CER" -> m.hflags = 128 /\ Capx(s) = 5 /\ osi <= 7
         [] m.kind = "CEA" -> m.hflags = 0 /\ Capx(s) + Cnt(s, OkRC) = 6
         [] m.kind = "DWR" -> m.hflags = 128 /\ Ident(s) = 2 /\ osi <= 1
         [] m.kind = "DWA" -> m.hflags = 0 /\ Ident(s) + Cnt(s, OkRC) = 3 /\ osi <= 1
         [] m.kind = "DPR" -> m.hflags = 128 /\ Ident(s) + Cnt(s, OkDC) = 3
         [] OTHER          -> m.hflags = 0 /\ Ident(s) + Cnt(s, OkRC) = 3

Valid(m) == ValidCountOnly(m) /\ Cnt(m.avps, OkOH) = 1 /\ Cnt(m.avps, OkOR) = 1

(* ---- the enumerated universe: the standard message of each kind and every single mutation of it *)
A(c, d) == [c |-> c, fl |-> 64, d |-> d, vs |-> "none"]
Std(kind) == CASE kind = "CER" -> <<A("OH", "peer"), A("OR", "peer"), A("HIP", "x"), A("VID", "x"), A("PN", "x")>>
               [] kind = "CEA" -> <<A("RC", "x"), A("OH", "peer"), A("OR", "peer"), A("HIP", "x"), A("VID", "x"), A("PN", "x")>>
               [] kind = "DWR" -> <<A("OH", "peer"), A("OR", "peer")>>
               [] kind = "DWA" -> <<A("RC", "x"), A("OH", "peer"), A("OR", "peer")>>
               [] kind = "DPR" -> <<A("OH", "peer"), A("OR", "peer"), A("DC", "rebooting")>>
               [] OTHER        -> <<A("RC", "x"), A("OH", "peer"), A("OR", "peer")>>
DropAt(s, i) == SubSeq(s, 1, i - 1) \o SubSeq(s, i + 1, Len(s))
DupAt(s, i) == SubSeq(s, 1, i) \o <<s[i]>> \o SubSeq(s, i + 1, Len(s))
Mutations(s) ==
    {s}
    \cup {DropAt(s, i) : i \in 1..Len(s)}
    \cup {DupAt(s, i) : i \in 1..Len(s)}
    \cup {[s EXCEPT ![i].fl = f] : i \in 1..Len(s), f \in {0, 96}}
    \cup {[s EXCEPT ![i].d = d] : i \in {j \in 1..Len(s) : s[j].c \in {"OH", "OR"}}, d \in {"local", "other"}}
    \cup {[s EXCEPT ![i].d = "busy"] : i \in {j \in 1..Len(s) : s[j].c = "DC"}}
    \cup {[s EXCEPT ![i] = [c |-> s[i].c, fl |-> 192, d |-> "x", vs |-> v]] : i \in 1..Len(s), v \in {"short", "long"}}
    \cup {s \o <<A("OSI", "x")>>, s \o <<A("OSI", "x"), A("OSI", "x")>>, s \o <<A("OTHER", "x")>>, <<A("OTHER", "x")>> \o s}
Kinds == {"CER", "CEA", "DWR", "DWA", "DPR", "DPA"}
\* (the R bit is what makes a message a request: the kind fixes it; the other bits vary)
HFlags(kind) == IF kind \in Requests THEN {128, 192, 160, 144} ELSE {0, 64, 32, 16}
Universe == {[kind |-> k, hflags |-> h, avps |-> s] : k \in Kinds, h \in {0, 16, 32, 64, 128, 144, 160, 192}, s \in UNION {Mutations(Std(kk)) : kk \in Kinds}}
Focus1 == {m \in Universe : m.hflags \in HFlags(m.kind) /\ m.avps \in Mutations(Std(m.kind))}
\* every pair of mutations (a second mutation applied to a mutated message), under the standard header flag byte
Mutations2(s) == UNION {Mutations(t) : t \in Mutations(s)}
Focus2 == UNION {{[kind |-> k, hflags |-> IF k \in Requests THEN 128 ELSE 0, avps |-> s] : s \in Mutations2(Std(k))} : k \in Kinds}
Focus == Focus1 \cup Focus2

(* model-level facts *)
StdValid == \A k \in Kinds : Valid([kind |-> k, hflags |-> IF k \in Requests THEN 128 ELSE 0, avps |-> Std(k)])
\* only the configured peer's identity is accepted
OnlyPeerFor(V(_)) == \A m \in Focus : V(m) => (\E i \in 1..Len(m.avps) : m.avps[i].c = "OH" /\ m.avps[i].d = "peer")
                                              /\ (\E i \in 1..Len(m.avps) : m.avps[i].c = "OR" /\ m.avps[i].d = "peer")
OnlyPeerHistoric == OnlyPeerFor(ValidCountOnly)          \* FALSE: the vacuity self-test of the check
OnlyPeer == \A m \in Focus : Valid(m) => (\E i \in 1..Len(m.avps) : m.avps[i].c = "OH" /\ m.avps[i].d = "peer")
                                        /\ (\E i \in 1..Len(m.avps) : m.avps[i].c = "OR" /\ m.avps[i].d = "peer")
\* an identity AVP of another node never makes a message valid, wherever it stands
NoForeignIdentity == \A m \in Focus : (\E c \in {"OH", "OR"} : \A i \in 1..Len(m.avps) : m.avps[i].c = c => m.avps[i].d # "peer") => ~Valid(m)
=============================================================================
