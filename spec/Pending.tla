------------------------------ MODULE Pending ------------------------------
(***************************************************************************)
(* The pending-answer rendezvous (bromelia/bromelia.py):                    *)
(*   caller      Bromelia.send_message: put the request on the worker's     *)
(*               send queue, register a PendingAnswer under the request's   *)
(*               Hop-by-Hop id, wait on it, return its message;             *)
(*   dispatcher  Bromelia.handler_pending_answers (one thread per received  *)
(*               answer): look the Hop-by-Hop id up, store the answer,      *)
(*               notify, wait until the caller has taken it, unregister;    *)
(*   PendingAnswer.wait / notify: a two-event rendezvous.                   *)
(* One action per block between two observable operations (queue put,       *)
(* registry update / lookup / pop, event set / clear / wait).               *)
(* Caller c's request and its answer are both identified by c.             *)
(* RegisterFirst = TRUE is the design (register, then queue);               *)
(* RegisterFirst = FALSE is the pinned tree's order (queue, then register), *)
(* which loses the wake-up when the answer is handled in between.           *)
(* PopFirst = TRUE: the dispatcher takes the waiter out of the registry and   *)
(* then wakes it; FALSE is the earlier order (wake, wait for the caller, pop) *)
(* which removes the NEXT registration of a caller that re-sends the same     *)
(* request as soon as it is awake (Resend.tla).                              *)
(* Decides C14.                                                            *)
(***************************************************************************)
EXTENDS Naturals, FiniteSets, TLC

CONSTANTS K, RegisterFirst, Duplicates,      \* callers 1..K; Duplicates: the peer may repeat an answer once
          PopFirst                           \* the dispatcher unregisters the waiter before it wakes it (the design; see Resend.tla)

Callers == 1..K
Disp == Callers \X (IF Duplicates THEN {1, 2} ELSE {1})      \* dispatcher threads: <<c, copy>>

VARIABLES cpc,      \* caller program counters
          dpc,      \* dispatcher program counters
          queued,   \* requests on the worker's send queue (sent to the peer)
          pending,  \* registered waiters (Hop-by-Hop ids)
          recvEv, stopEv, pmsg,    \* per waiter: the two events and the stored message
          got       \* what each caller returned (0 = nothing yet)
vars == <<cpc, dpc, queued, pending, recvEv, stopEv, pmsg, got>>

Init == /\ cpc = [c \in Callers |-> "start"] /\ dpc = [d \in Disp |-> "idle"]
        /\ queued = {} /\ pending = {}
        /\ recvEv = [c \in Callers |-> FALSE] /\ stopEv = [c \in Callers |-> FALSE]
        /\ pmsg = [c \in Callers |-> 0] /\ got = [c \in Callers |-> 0]

First == IF RegisterFirst THEN "reg" ELSE "enq"
After(step) == IF step = First THEN (IF RegisterFirst THEN "enq" ELSE "reg") ELSE "wait"

\* ---- caller c
Enq(c) == /\ cpc[c] = (IF First = "enq" THEN "start" ELSE "second")
          /\ queued' = queued \cup {c}
          /\ cpc' = [cpc EXCEPT ![c] = IF First = "enq" THEN "second" ELSE "wait"]
          /\ UNCHANGED <<dpc, pending, recvEv, stopEv, pmsg, got>>
Reg(c) == /\ cpc[c] = (IF First = "reg" THEN "start" ELSE "second")
          /\ pending' = pending \cup {c}
          /\ pmsg' = [pmsg EXCEPT ![c] = 0]
          /\ cpc' = [cpc EXCEPT ![c] = IF First = "reg" THEN "second" ELSE "wait"]
          /\ UNCHANGED <<dpc, queued, recvEv, stopEv, got>>
Wake(c) == /\ cpc[c] = "wait" /\ recvEv[c] /\ cpc' = [cpc EXCEPT ![c] = "clear"]
           /\ UNCHANGED <<dpc, queued, pending, recvEv, stopEv, pmsg, got>>
Clear(c) == /\ cpc[c] = "clear" /\ recvEv' = [recvEv EXCEPT ![c] = FALSE] /\ cpc' = [cpc EXCEPT ![c] = "setstop"]
            /\ UNCHANGED <<dpc, queued, pending, stopEv, pmsg, got>>
SetStop(c) == /\ cpc[c] = "setstop" /\ stopEv' = [stopEv EXCEPT ![c] = TRUE] /\ cpc' = [cpc EXCEPT ![c] = "return"]
              /\ UNCHANGED <<dpc, queued, pending, recvEv, pmsg, got>>
Return(c) == /\ cpc[c] = "return" /\ got' = [got EXCEPT ![c] = pmsg[c]] /\ cpc' = [cpc EXCEPT ![c] = "done"]
             /\ UNCHANGED <<dpc, queued, pending, recvEv, stopEv, pmsg>>

\* ---- environment: the peer answers a request that has been sent; a thread is started for the answer
Arrive(d) == /\ d[1] \in queued /\ dpc[d] = "idle"
             /\ dpc' = [dpc EXCEPT ![d] = "check"]
             /\ UNCHANGED <<cpc, queued, pending, recvEv, stopEv, pmsg, got>>
\* ---- dispatcher d for the answer to caller d[1]
Check(d) == /\ dpc[d] = "check"
            /\ dpc' = [dpc EXCEPT ![d] = IF d[1] \in pending THEN (IF PopFirst THEN "pop" ELSE "notify") ELSE "dropped"]
            /\ UNCHANGED <<cpc, queued, pending, recvEv, stopEv, pmsg, got>>
Notify(d) == /\ dpc[d] = "notify"
             /\ pmsg' = [pmsg EXCEPT ![d[1]] = d[1]] /\ recvEv' = [recvEv EXCEPT ![d[1]] = TRUE]
             /\ dpc' = [dpc EXCEPT ![d] = "waitstop"]
             /\ UNCHANGED <<cpc, queued, pending, stopEv, got>>
WaitStop(d) == /\ dpc[d] = "waitstop" /\ stopEv[d[1]] /\ dpc' = [dpc EXCEPT ![d] = IF PopFirst THEN "end" ELSE "pop"]
               /\ UNCHANGED <<cpc, queued, pending, recvEv, stopEv, pmsg, got>>
Pop(d) == /\ dpc[d] = "pop" /\ pending' = pending \ {d[1]} /\ dpc' = [dpc EXCEPT ![d] = IF PopFirst THEN "notify" ELSE "end"]
          /\ UNCHANGED <<cpc, queued, recvEv, stopEv, pmsg, got>>

AllDone == /\ \A c \in Callers : cpc[c] = "done"
           /\ \A d \in Disp : dpc[d] \in {"end", "dropped", "idle"}
Finished == AllDone /\ UNCHANGED vars

Next == \/ \E c \in Callers : Enq(c) \/ Reg(c) \/ Wake(c) \/ Clear(c) \/ SetStop(c) \/ Return(c)
        \/ \E d \in Disp : Arrive(d) \/ Check(d) \/ Notify(d) \/ WaitStop(d) \/ Pop(d)
        \/ Finished
Spec == Init /\ [][Next]_vars /\ WF_vars(Next)

\* C14
OwnAnswer == \A c \in Callers : got[c] \in {0, c}
\* an answer to a request that has been sent is dropped only if another copy of it found the waiter
NoLostWake == \A d \in Disp : dpc[d] = "dropped" =>
                  \E e \in Disp : e[1] = d[1] /\ dpc[e] \in {"notify", "waitstop", "pop", "end"}
\* deadlock freedom is checked by TLC's deadlock detection: the only terminal states satisfy AllDone
AllReturn == <>(\A c \in Callers : cpc[c] = "done" /\ got[c] = c)
=============================================================================
