------------------------------- MODULE Nested -------------------------------
(***************************************************************************)
(* Route functions that wait for answers of their own (bromelia/bromelia.py: *)
(* Bromelia.main starts one thread per message taken from the workers'       *)
(* queues; a route function may call Bromelia.send_message and wait).        *)
(*                                                                         *)
(* N requests arrive on one interface.  The thread of request r registers a  *)
(* waiter, sends a request of its own on another interface and waits; the    *)
(* back-end's answer comes back through the same main loop, which starts a   *)
(* dispatcher thread for it; the dispatcher wakes the route thread, which    *)
(* then answers request r.  The back-end may answer at any moment - in      *)
(* particular only after all N requests are in flight (a burst, a slow       *)
(* peer).                                                                    *)
(*                                                                         *)
(* Limit is the number of message threads the main loop allows at a time:    *)
(* the library has no limit (Limit >= 2N here).  A limit below N (the shape  *)
(* of seeded changes C13-8 and C14-12: a bounded pool, back-pressure in the  *)
(* main loop) lets N waiting route threads occupy every slot: the answers   *)
(* that would wake them are never read - TLC shows the deadlock             *)
(* (AllAnswered fails).  Bound by adapters/c14.run_many_nested: 90 route     *)
(* functions through the library's own main loop.                            *)
(***************************************************************************)
EXTENDS Naturals, Sequences, FiniteSets, TLC

CONSTANTS N, Limit

Reqs == 1..N
VARIABLES inQ,      \* the queue of the first interface (requests <<"req", r>>), which the main loop looks at first
          inQ2,     \* the queue of the second interface (the back-end's answers <<"ans", r>>), read when the first one is empty
          rpc,      \* route thread of request r: "none", "reg", "send", "wait", "answer", "done"
          dpc,      \* dispatcher thread of the nested answer for r: "none", "check", "notify", "done"
          pending,  \* registered waiters
          woken,    \* route threads whose waiter was notified
          sentSub,  \* nested requests that reached the back-end
          answeredSub, \* nested requests the back-end has answered
          out       \* requests that have been answered
vars == <<inQ, inQ2, rpc, dpc, pending, woken, sentSub, answeredSub, out>>

Init == /\ inQ = [i \in 1..N |-> <<"req", i>>] /\ inQ2 = <<>>
        /\ rpc = [r \in Reqs |-> "none"] /\ dpc = [r \in Reqs |-> "none"]
        /\ pending = {} /\ woken = {} /\ sentSub = {} /\ answeredSub = {} /\ out = {}

Alive == Cardinality({r \in Reqs : rpc[r] \notin {"none", "done"}}) + Cardinality({r \in Reqs : dpc[r] \notin {"none", "done"}})

\* Bromelia.main: take the next message and start its thread (as long as the limit allows)
MainTake == /\ (inQ # <<>> \/ inQ2 # <<>>) /\ Alive < Limit
            /\ LET m == IF inQ # <<>> THEN Head(inQ) ELSE Head(inQ2) IN
                 IF m[1] = "req" THEN /\ rpc' = [rpc EXCEPT ![m[2]] = "reg"] /\ dpc' = dpc
                                 ELSE /\ dpc' = [dpc EXCEPT ![m[2]] = "check"] /\ rpc' = rpc
            /\ IF inQ # <<>> THEN inQ' = Tail(inQ) /\ inQ2' = inQ2 ELSE inQ2' = Tail(inQ2) /\ inQ' = inQ
            /\ UNCHANGED <<pending, woken, sentSub, answeredSub, out>>
\* route thread r
Reg(r) == rpc[r] = "reg" /\ pending' = pending \cup {r} /\ rpc' = [rpc EXCEPT ![r] = "send"]
          /\ UNCHANGED <<inQ, inQ2, dpc, woken, sentSub, answeredSub, out>>
Send(r) == rpc[r] = "send" /\ sentSub' = sentSub \cup {r} /\ rpc' = [rpc EXCEPT ![r] = "wait"]
           /\ UNCHANGED <<inQ, inQ2, dpc, pending, woken, answeredSub, out>>
Wake(r) == rpc[r] = "wait" /\ r \in woken /\ rpc' = [rpc EXCEPT ![r] = "answer"]
           /\ UNCHANGED <<inQ, inQ2, dpc, pending, woken, sentSub, answeredSub, out>>
Answer(r) == rpc[r] = "answer" /\ out' = out \cup {r} /\ rpc' = [rpc EXCEPT ![r] = "done"]
             /\ UNCHANGED <<inQ, inQ2, dpc, pending, woken, sentSub, answeredSub>>
\* the back-end answers a nested request it has received
BackEnd(r) == /\ r \in sentSub \ answeredSub
              /\ answeredSub' = answeredSub \cup {r} /\ inQ2' = Append(inQ2, <<"ans", r>>)
              /\ UNCHANGED <<inQ, rpc, dpc, pending, woken, sentSub, out>>
\* dispatcher thread of the nested answer
Check(r) == dpc[r] = "check" /\ dpc' = [dpc EXCEPT ![r] = IF r \in pending THEN "notify" ELSE "done"]
            /\ UNCHANGED <<inQ, inQ2, rpc, pending, woken, sentSub, answeredSub, out>>
Notify(r) == dpc[r] = "notify" /\ pending' = pending \ {r} /\ woken' = woken \cup {r} /\ dpc' = [dpc EXCEPT ![r] = "done"]
             /\ UNCHANGED <<inQ, inQ2, rpc, sentSub, answeredSub, out>>

Done == out = Reqs /\ UNCHANGED vars
Next == MainTake \/ Done \/ \E r \in Reqs : Reg(r) \/ Send(r) \/ Wake(r) \/ Answer(r) \/ BackEnd(r) \/ Check(r) \/ Notify(r)
Spec == Init /\ [][Next]_vars /\ WF_vars(Next)

AllAnswered == <>(out = Reqs)
NoDeadlock == (out # Reqs) => ENABLED Next
=============================================================================
