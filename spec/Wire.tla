-------------------------------- MODULE Wire --------------------------------
(***************************************************************************)
(* RFC 6733 wire format (sections 3 and 4): messages and AVPs as byte      *)
(* sequences.  bromelia/base.py DiameterAVP/DiameterHeader/DiameterMessage *)
(* dump() and load() are specified by EncAvp/EncMsg and DecAvps/DecMsgs.   *)
(*                                                                         *)
(* An abstract AVP is a record                                             *)
(*   [code   : 4 bytes, flags : byte, vendor : 4 bytes or <<>>,            *)
(*    data   : bytes (leaf),  members : sequence of AVPs (group),          *)
(*    group  : BOOLEAN]                                                    *)
(* and an abstract message is [h : header record, avps : sequence of AVPs].*)
(* A header is [version, flags : byte; cmd : 3 bytes; app, hbh, e2e : 4].  *)
(*                                                                         *)
(* Decides C01 C02 C03a (with Gen_/Trace_ modules); used by Message, Psm.  *)
(***************************************************************************)
EXTENDS Naturals, Sequences, FiniteSets, SequencesExt

BE3(n) == <<(n \div 65536) % 256, (n \div 256) % 256, n % 256>>
Val3(b) == b[1] * 65536 + b[2] * 256 + b[3]
Zeros(k) == [i \in 1..k |-> 0]
Pad(n) == (4 - (n % 4)) % 4
HasV(flags) == (flags \div 128) % 2 = 1

----------------------------------------------------------------------------
(* Encoding *)

RECURSIVE EncAvp(_), EncAvps(_)
EncAvps(as) == IF as = <<>> THEN <<>> ELSE EncAvp(Head(as)) \o EncAvps(Tail(as))
AvpData(a) == IF a.group THEN EncAvps(a.members) ELSE a.data
AvpHdrLen(a) == IF a.vendor = <<>> THEN 8 ELSE 12
EncAvp(a) == LET d == AvpData(a)
             IN a.code \o <<a.flags>> \o BE3(AvpHdrLen(a) + Len(d)) \o a.vendor \o d \o Zeros(Pad(Len(d)))

EncMsg(m) == LET body == EncAvps(m.avps)
             IN <<m.h.version>> \o BE3(20 + Len(body)) \o <<m.h.flags>>
                \o m.h.cmd \o m.h.app \o m.h.hbh \o m.h.e2e \o body
RECURSIVE EncMsgs(_)
EncMsgs(ms) == IF ms = <<>> THEN <<>> ELSE EncMsg(Head(ms)) \o EncMsgs(Tail(ms))

\* content the statement of C01 ranges over: V flag agrees with the presence of a Vendor-ID
RECURSIVE AvpConsistent(_)
AvpConsistent(a) == /\ HasV(a.flags) = (a.vendor # <<>>)
                    /\ (a.group => \A i \in 1..Len(a.members) : AvpConsistent(a.members[i]))

----------------------------------------------------------------------------
(* Decoding: total functions returning [ok |-> BOOLEAN, val |-> ...].      *)
(* DecAvps yields leaf AVPs (grouping is a matter of the dictionary, see    *)
(* DecDeep).  Recursion is on a strictly shorter suffix.                   *)

Fail == [ok |-> FALSE, val |-> <<>>]
Slice(b, from, to) == SubSeq(b, from, to)      \* 1-based inclusive

RECURSIVE DecAvps(_)
DecAvps(b) ==
    IF b = <<>> THEN [ok |-> TRUE, val |-> <<>>]
    ELSE IF Len(b) < 8 THEN Fail
    ELSE LET flags == b[5]
             alen  == Val3(Slice(b, 6, 8))
             hl    == IF HasV(flags) THEN 12 ELSE 8
             tot   == alen + Pad(alen)
         IN IF alen < hl \/ alen > Len(b) \/ tot > Len(b) THEN Fail
            ELSE IF \E i \in (alen + 1)..tot : b[i] # 0 THEN Fail            \* padding must be zero
            ELSE LET a == [code |-> Slice(b, 1, 4), flags |-> flags,
                           vendor |-> IF hl = 12 THEN Slice(b, 9, 12) ELSE <<>>,
                           data |-> Slice(b, hl + 1, alen), members |-> <<>>, group |-> FALSE]
                     rest == DecAvps(Slice(b, tot + 1, Len(b)))
                 IN IF rest.ok THEN [ok |-> TRUE, val |-> <<a>> \o rest.val] ELSE Fail

RECURSIVE DecMsgs(_)
DecMsgs(b) ==
    IF b = <<>> THEN [ok |-> TRUE, val |-> <<>>]
    ELSE IF Len(b) < 20 THEN Fail
    ELSE LET mlen == Val3(Slice(b, 2, 4))
         IN IF mlen < 20 \/ mlen % 4 # 0 \/ mlen > Len(b) THEN Fail
            ELSE LET body == DecAvps(Slice(b, 21, mlen))
                     m == [h |-> [version |-> b[1], flags |-> b[5], cmd |-> Slice(b, 6, 8),
                                  app |-> Slice(b, 9, 12), hbh |-> Slice(b, 13, 16), e2e |-> Slice(b, 17, 20)],
                           avps |-> body.val]
                     rest == DecMsgs(Slice(b, mlen + 1, Len(b)))
                 IN IF body.ok /\ rest.ok THEN [ok |-> TRUE, val |-> <<m>> \o rest.val] ELSE Fail

WellFormed(b) == DecMsgs(b).ok

\* Dictionary-aware view: AVPs whose (vendor, code) is in GroupedKeys and whose data decodes
\* are presented with their members, recursively, to the given depth.
RECURSIVE DeepAvps(_, _, _)
DeepAvp(a, GroupedKeys, depth) ==
    IF depth > 0 /\ <<a.vendor, a.code>> \in GroupedKeys /\ DecAvps(a.data).ok
    THEN [a EXCEPT !.group = TRUE, !.members = DeepAvps(DecAvps(a.data).val, GroupedKeys, depth - 1), !.data = <<>>]
    ELSE a
DeepAvps(as, GroupedKeys, depth) == [i \in 1..Len(as) |-> DeepAvp(as[i], GroupedKeys, depth)]

\* leaf view of an abstract AVP (what the wire carries)
RECURSIVE Flatten(_)
Flatten(a) == IF a.group THEN [a EXCEPT !.group = FALSE, !.data = EncAvps(a.members), !.members = <<>>] ELSE a
FlattenMsg(m) == [m EXCEPT !.avps = [i \in 1..Len(m.avps) |-> Flatten(m.avps[i])]]

----------------------------------------------------------------------------
(* Dictionary view of decoded content (C02): what DiameterMessage.load must  *)
(* return.  K is the dictionary as a function from known keys <<vendor,     *)
(* code>> to [name, flags, grouped]; unknown keys stay generic AVPs          *)
(* ("DiameterAVP").  Dev is the set of enabled deviations:                   *)
(*   "D_Reflag" -- known finding: a known AVP is re-created from its data    *)
(*   only, so the flags on the wire are replaced by the class defaults       *)
(*   (bromelia/base.py DiameterAVP.load, `_avp_class(avp.data)`).            *)
RECURSIVE ViewAvps(_, _, _, _)
ViewAvp(a, K, Dev, depth) ==
    LET key == <<a.vendor, a.code>>
        known == key \in DOMAIN K
        fl == IF known /\ "D_Reflag" \in Dev THEN K[key].flags ELSE a.flags
    IN IF known /\ K[key].grouped /\ depth > 0 /\ DecAvps(a.data).ok
       THEN [code |-> a.code, flags |-> fl, vendor |-> a.vendor, data |-> <<>>, group |-> TRUE,
             cls |-> K[key].name, members |-> ViewAvps(DecAvps(a.data).val, K, Dev, depth - 1)]
       ELSE [code |-> a.code, flags |-> fl, vendor |-> a.vendor, data |-> a.data, group |-> FALSE,
             cls |-> IF known THEN K[key].name ELSE "DiameterAVP", members |-> <<>>]
ViewAvps(as, K, Dev, depth) == [i \in 1..Len(as) |-> ViewAvp(as[i], K, Dev, depth)]
ViewMsgs(ms, K, Dev, depth) == [i \in 1..Len(ms) |-> [h |-> ms[i].h, avps |-> ViewAvps(ms[i].avps, K, Dev, depth)]]
\* what decoding the stream b must yield, and what re-serialising the result must give
DecodeView(b, K, Dev, depth) == ViewMsgs(DecMsgs(b).val, K, Dev, depth)
ReDump(b, K, Dev, depth) == EncMsgs(DecodeView(b, K, Dev, depth))
\* intended design: no deviation => byte-identical
ThmReDumpIdentity(b, K, depth) == WellFormed(b) => ReDump(b, K, {}, depth) = b

----------------------------------------------------------------------------
(* Model-level theorems, checked by TLC on bounded universes (Gen_Wire modules). *)
ThmLen4(m) == Len(EncMsg(m)) % 4 = 0
ThmMsgLenField(m) == Val3(Slice(EncMsg(m), 2, 4)) = Len(EncMsg(m))
ThmAvpLenExcludesPad(a) == LET e == EncAvp(a) IN
                             /\ Len(e) % 4 = 0
                             /\ Val3(Slice(e, 6, 8)) = AvpHdrLen(a) + Len(AvpData(a))
                             /\ Len(e) = Val3(Slice(e, 6, 8)) + Pad(Val3(Slice(e, 6, 8)))
ThmRoundTrip(ms) == (\A i \in 1..Len(ms) : \A j \in 1..Len(ms[i].avps) : AvpConsistent(ms[i].avps[j]))
                    => DecMsgs(EncMsgs(ms)) = [ok |-> TRUE, val |-> [i \in 1..Len(ms) |-> FlattenMsg(ms[i])]]
ThmReEncode(b) == WellFormed(b) => EncMsgs(DecMsgs(b).val) = b
=============================================================================
